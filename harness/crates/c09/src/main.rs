//! C09 — NSEC3 denial of existence is sound, complete and iteration-bounded.
//!
//! E-ENUM over the small zone universe (DESIGN 5.1), every zone signed by the REAL server code
//! (`secure_zone_mut` -> `nsec3_zone`) with (iterations, salt) in {(0,-),(1,ab)} and, for zones
//! with an insecure delegation, opt-out on as well as off.
//!
//! * Decision level (hook `hickory_net::dnssec::verif::verify_nsec3`): every query (qname in and
//!   around the zone x qtype in {A,TXT,DS,NS,CNAME}) x claim {NXDOMAIN, NODATA (incl. the
//!   opt-out "no DS" case), expansion of each published wildcard RRset with its genuine RRSIG}
//!   x soa variant {apex, absent} x EVERY non-empty subset of the zone's genuine NSEC3 records
//!   (zones with more than 7 records: every subset of size <= 3).
//!   Oracle: `Secure` => the claim is TRUE in the published zone (`vref::denial::truth`; an
//!   insecure delegation hidden by opt-out EXISTS) — clause `unsound`; and `Secure` => the subset is
//!   the RFC 5155 section 8 proof for the claim, with opt-out carrying the verdict only for DS
//!   (`vref::denial::nsec3_proves`) — clause `unentailed`. Both reference layers are cross-checked.
//! * Parameter mixtures: subsets mixing records of the same zone signed under two parameter sets
//!   must never be Secure. Records not in the response's zone: the genuine records re-owned below
//!   strict descendants / the ancestor / an unrelated zone of the SOA owner (fn `reowned`).
//! * Iteration limits as configuration: zones with iterations 0..3 x (soft, hard) in
//!   {(1,2),(0,0),(2,2)}: iterations > soft => never Secure; iterations > hard => Bogus.
//! * Completeness and binding end to end through the real `DnssecDnsHandle`, as in C08.
//! * The NSEC3 chain of the real signer is compared with the chain RFC 5155 7.1 prescribes.

use std::cell::RefCell;
use std::collections::{BTreeMap, BTreeSet, HashMap};
use std::sync::atomic::{AtomicU64, Ordering};
use std::sync::Arc;

use hickory_net::dnssec::verif::verify_nsec3;
use hickory_proto::dnssec::rdata::NSEC3;
use hickory_proto::dnssec::Proof;
use hickory_proto::op::{Message, MessageType, OpCode, Query, ResponseCode};
use hickory_proto::rr::{Name as HName, Record, RecordType};
use serde_json::{json, Value};
use vcore::{fnv_str, Ctx, Local};
use vref::denial::{self as dn, Claim, Nsec3Rec, Proof3, N3};
use vref::zone::{self as rz, Name, NoDataKind, Step, Zone};
use vzone::{Built, E2e, Kind, Signing, Upstream, ZoneSpec};

const QTYPES: [u16; 5] = [rz::T_A, rz::T_TXT, rz::T_DS, rz::T_NS, rz::T_CNAME];
const BIND_SLICE: u64 = 64;
const SOFT: u16 = 100;
const HARD: u16 = 500;

struct World {
    spec: ZoneSpec,
    signing: Signing,
    built: Built,
    rz: Zone,
    origin: HName,
    apex: Name,
    /// genuine NSEC3 records: (owner, rdata, abstract form)
    recs: Vec<(HName, NSEC3, Nsec3Rec)>,
    qnames: Vec<String>,
    text: String,
    hashes: RefCell<HashMap<Name, Vec<u8>>>,
    salt: Vec<u8>,
    iterations: u16,
    /// query types enumerated for this world
    qtypes: Vec<u16>,
    /// subsets larger than this are not enumerated (None: all subsets of up to 7 records)
    max_subset: Option<u32>,
    /// `recs` were produced by the REFERENCE chain builder (vref::denial::nsec3_chain), not by the
    /// real signer: decision level only (there are no signatures to replay end to end)
    ref_chain: bool,
}

fn params(s: &Signing) -> (Vec<u8>, u16, bool) {
    match s {
        Signing::Nsec3 { iterations, salt, opt_out } => (salt.clone(), *iterations, *opt_out),
        _ => (vec![], 0, false),
    }
}

fn build_world(spec: &ZoneSpec, signing: &Signing) -> Result<World, String> {
    world_from_built(spec, signing, vzone::build(spec, signing)?)
}

/// Construction paths: the zone built through `FileZoneHandler::try_from_config` and through both starts of
/// `SqliteZoneHandler::try_from_config`, the NSEC3 parameters DESERIALISED as the configuration file gives them
/// (all four fields of `NxProofKind::Nsec3`, pairwise different non-default values), signed the way the binary's
/// `load_keys` does; the published chain is compared with the chain the reference builds for these parameters
/// (`check_chain`, exact), the NSEC3PARAM with the configured (algorithm, iterations, salt), and the server's own
/// denials are validated end to end (`completeness`).
const CTOR_CASES: usize = 18;

fn ctor_paths(rt: &tokio::runtime::Runtime, l: &mut Local, only: Option<usize>) {
    let mut index = 0usize;
    use vzone::ctor::{self, CtorKnobs, CtorPath};
    let zones = [
        ZoneSpec::new("z.", &[("a.z.", Kind::A), ("*.z.", Kind::A)]),
        ZoneSpec::new("z.", &[("a.z.", Kind::Ns), ("b.z.", Kind::NsDs), ("a.b.z.", Kind::A)]),
        ZoneSpec::new("z.", &[("a.a.a.z.", Kind::A), ("*.a.z.", Kind::A)]),
    ];
    let params = [
        Signing::Nsec3 { iterations: 3, salt: vec![0xab, 0xcd], opt_out: true },
        Signing::Nsec3 { iterations: 2, salt: vec![0x01, 0x02, 0x03], opt_out: false },
    ];
    let base = if std::path::Path::new("/dev/shm").is_dir() { std::path::PathBuf::from("/dev/shm") } else { std::env::temp_dir() };
    let dir = base.join(format!("verif-c09-ctor-{}-{}", std::process::id(), only.map(|i| i.to_string()).unwrap_or_default()));
    for spec in &zones {
        for signing in &params {
            for path in [CtorPath::File, CtorPath::SqliteFirst, CtorPath::SqliteSecond] {
                index += 1;
                if only.map(|o| o != index - 1).unwrap_or(false) {
                    continue;
                }
                let _ = std::fs::remove_dir_all(&dir);
                if std::fs::create_dir_all(&dir).is_err() {
                    l.outcome("ctor:scratch-dir-unavailable");
                    return;
                }
                let case = || json!({"level": "ctor", "zone": spec.to_json(), "signing": signing.tag(), "path": path.tag()});
                let built = vcore::catch(|| ctor::build_via(path, spec, signing, &CtorKnobs::NON_DEFAULT, &dir, rt));
                let _ = std::fs::remove_dir_all(&dir);
                let built = match built {
                    Ok(Ok((b, _))) => b,
                    Ok(Err(e)) => {
                        l.violation(&format!("ctor:{}:build-failed", path.tag()), &e, case);
                        continue;
                    }
                    Err(p) => {
                        l.violation(&format!("panic:{}", vcore::short_loc(&p.loc)), &p.msg, case);
                        continue;
                    }
                };
                let (salt, iterations, _) = params_of(signing);
                let published = ctor::nsec3params(&built.records);
                l.eval();
                if published.len() != 1 || published[0].0 != 1 || published[0].2 != iterations || published[0].3 != salt {
                    l.violation(&format!("ctor:{}:nsec3param:parameters", path.tag()), &format!("published NSEC3PARAM {published:?}, configured (1, {iterations}, {salt:02x?})"), case);
                }
                match world_from_built(spec, signing, built) {
                    Err(e) => l.violation(&format!("ctor:{}:build-failed", path.tag()), &e, case),
                    Ok(w) => {
                        // (a defective chain is reported by check_chain under its usual chain:* key)
                        if check_chain(&w, l) {
                            l.outcome("ctor:chain:as-reference");
                        } else {
                            l.outcome("ctor:chain:differs-from-reference");
                        }
                        // the File path signs at the real clock (its provider is fixed): the signatures are outside the
                        // validity window of the virtual clock, so only the Sqlite paths are validated end to end
                        if path != CtorPath::File {
                            completeness(&w, rt, l, None);
                            l.outcome("ctor:completeness-run");
                        }
                    }
                }
            }
        }
    }
}

fn params_of(s: &Signing) -> (Vec<u8>, u16, bool) {
    params(s)
}

fn world_from_built(spec: &ZoneSpec, signing: &Signing, built: Built) -> Result<World, String> {
    let origin = vzone::hname(&spec.origin);
    let mut recs = vec![];
    for (owner, n) in built.nsec3s() {
        let abs = vzone::ref_nsec3(&origin, &owner, &n).ok_or("NSEC3 owner label is not base32hex")?;
        recs.push((owner, n, abs));
    }
    let mut r = spec.reference();
    r.add(&r.origin.clone(), rz::T_DNSKEY, rz::RData::Other("dnskey".into()));
    let (salt, iterations, _) = params(signing);
    let mut qnames = spec.query_names(3);
    // zones with an owner three labels down are also asked one label below the branch
    if vzone::is_deep(spec) {
        for q in vzone::DEEP_QUERIES {
            if !qnames.iter().any(|x| x == q) {
                qnames.push(q.to_string());
            }
        }
    }
    Ok(World {
        spec: spec.clone(),
        signing: signing.clone(),
        built,
        apex: r.origin.clone(),
        rz: r,
        origin,
        recs,
        qnames,
        text: format!("{spec} [{}]", signing.tag()),
        hashes: RefCell::new(HashMap::new()),
        salt,
        iterations,
        qtypes: QTYPES.to_vec(),
        max_subset: None,
        ref_chain: false,
    })
}

impl World {
    fn hash(&self, n: &Name) -> Vec<u8> {
        if let Some(h) = self.hashes.borrow().get(n) {
            return h.clone();
        }
        let h = dn::nsec3_hash(n, &self.salt, self.iterations);
        self.hashes.borrow_mut().insert(n.clone(), h.clone());
        h
    }
    fn anchors(&self) -> Arc<hickory_proto::dnssec::TrustAnchors> {
        vzone::anchors(&[self.spec.origin.as_str()])
    }
    fn claims(&self, qname: &Name, qtype: u16) -> Vec<Claim> {
        let mut v = vec![Claim::NxDomain, Claim::NoData];
        for (owner, types) in &self.rz.nodes {
            if !owner.is_wildcard() || !qname.strictly_below(&owner.parent()) {
                continue;
            }
            // occluded wildcards below a cut are not zone data (the real signer signs them
            // anyway, but no correctly signed zone offers such an RRSIG)
            if self.rz.cut_on_path(owner).is_some() {
                continue;
            }
            for t in types.keys() {
                if *t == qtype || (*t == rz::T_CNAME && qtype != rz::T_CNAME) {
                    v.push(Claim::Wildcard { source: owner.clone(), rtype: *t });
                }
            }
        }
        v
    }
    fn expanded_answer(&self, claim: &Claim, qname: &HName, mark_secure: bool) -> Vec<Record> {
        let Claim::Wildcard { source, rtype } = claim else { return vec![] };
        let w = vzone::hname(&source.to_string());
        let mut v = self.built.rrset_with_sigs(&w, RecordType::from(*rtype));
        for r in v.iter_mut() {
            r.name = qname.clone();
            r.proof = if mark_secure { Proof::Secure } else { Proof::default() };
        }
        v
    }
    /// The subsets to enumerate: all non-empty ones up to 7 records, else all of size <= 3.
    fn masks(&self) -> Vec<u32> {
        let n = self.recs.len();
        let cap = match self.max_subset {
            Some(c) => c,
            None if n <= 7 => 32,
            None => 3,
        };
        (1u32..(1 << n)).filter(|m| m.count_ones() <= cap).collect()
    }
}

fn rcode_of(claim: &Claim) -> ResponseCode {
    match claim {
        Claim::NxDomain => ResponseCode::NXDomain,
        _ => ResponseCode::NoError,
    }
}

fn claim_json(c: &Claim) -> Value {
    match c {
        Claim::NxDomain => json!({"kind": "NXDOMAIN"}),
        Claim::NoData => json!({"kind": "NODATA"}),
        Claim::Wildcard { source, rtype } => json!({"kind": "WILDCARD", "source": source.to_string(), "rtype": rtype}),
    }
}

fn claim_from_json(v: &Value) -> Claim {
    match v["kind"].as_str() {
        Some("NXDOMAIN") => Claim::NxDomain,
        Some("WILDCARD") => Claim::Wildcard { source: Name::parse(v["source"].as_str().unwrap_or("*.z.")), rtype: v["rtype"].as_u64().unwrap_or(1) as u16 },
        _ => Claim::NoData,
    }
}

// ------------------------------------------------------------------------------------------
// scenes

/// The PRIMARY abstract mechanism by which the accepted NSEC3 set misleads the validator:
///  optout-cover = the set IS the RFC 5155 proof, but the record covering the next closer name has
///                 the Opt-Out flag, which may carry a Secure verdict only for DS (RFC 5155 9.2);
///  anc-deleg    = the record matching the name (or the closest encloser) is a delegation NSEC3
///                 (NS set, SOA clear), RFC 6840 4.1 / RFC 5155 8.3;
///  name-matched = a record matching the query name is in the set although the claim needs the
///                 name not to exist (wildcard expansion for an existing name);
///  wrap-record-covers-all = the last record of the chain (hash > next hash) is in the set: the
///                 wrap-around branch of find_covering_record is true for every target;
///  optout-covers-qname = an Opt-Out record covers the query name itself;
///  apex-without-matching-record = NODATA for the apex without any record matching the apex;
///  nosoa        = no SOA in the response;
///  star         = the query name has a `*` label;
///  plain        = none of these.
fn mechanism(world: &World, sub: &[&Nsec3Rec], qname: &Name, claim: &Claim, soa: &Option<HName>, proves: Proof3) -> &'static str {
    if proves == Proof3::OptOut {
        return "optout-cover";
    }
    // find_covering_record's wrap-around branch (`owner > target || target > next`) is true for
    // EVERY target: the last record of the chain (hash > next hash) "covers" any name
    if sub.iter().any(|r| r.hash >= r.next) {
        return "wrap-record-covers-all";
    }
    let hasher = |n: &Name| world.hash(n);
    let cx = N3 { recs: sub, hasher: &hasher };
    let is_deleg = |r: &Nsec3Rec| r.types.contains(&rz::T_NS) && !r.types.contains(&rz::T_SOA);
    let mut p = qname.clone();
    loop {
        if cx.matching(&p).map(is_deleg).unwrap_or(false) {
            return "anc-deleg";
        }
        if !p.strictly_below(&world.apex) {
            break;
        }
        p = p.parent();
    }
    if matches!(claim, Claim::Wildcard { .. }) && cx.matching(qname).is_some() {
        return "name-matched";
    }
    if sub.iter().any(|r| r.opt_out) && cx.covering(qname).map(|r| r.opt_out).unwrap_or(false) {
        return "optout-covers-qname";
    }
    if *qname == world.apex && matches!(claim, Claim::NoData) && cx.matching(qname).is_none() {
        // validate_nodata_response: `(None, None, None) if query name == SOA name => Secure`
        return "apex-without-matching-record";
    }
    if soa.is_none() {
        return "nosoa";
    }
    if qname.0.iter().any(|l| l.as_slice() == b"*") {
        return "star";
    }
    "plain"
}

fn describe(world: &World, mask: u32) -> Vec<String> {
    // reverse map hash -> name for the names of the zone (incl. ENTs and wildcards at ancestors)
    let mut known: Vec<Name> = world.rz.nodes.keys().cloned().collect();
    for k in known.clone() {
        let mut p = k.parent();
        while p.strictly_below(&world.apex) {
            known.push(p.clone());
            p = p.parent();
        }
    }
    (0..world.recs.len())
        .filter(|i| mask >> i & 1 == 1)
        .map(|i| {
            let r = &world.recs[i].2;
            let owner = known.iter().find(|n| world.hash(n) == r.hash).map(|n| n.to_string()).unwrap_or("?".into());
            let next = known.iter().find(|n| world.hash(n) == r.next).map(|n| n.to_string()).unwrap_or("?".into());
            format!(
                "H({owner})={} -> H({next}) {:?}{}",
                &dn::base32hex(&r.hash)[..8],
                r.types.iter().map(|t| rz::type_name(*t)).collect::<Vec<_>>(),
                if r.opt_out { " OPT-OUT" } else { "" }
            )
        })
        .collect()
}

// ------------------------------------------------------------------------------------------
// end to end

fn dnskey_response(w: &World) -> Message {
    let mut m = Message::new(0, MessageType::Response, OpCode::Query);
    m.add_query(Query::new(w.origin.clone(), RecordType::DNSKEY));
    m.metadata.authoritative = true;
    m.add_answers(w.built.rrset_with_sigs(&w.origin, RecordType::DNSKEY));
    m
}

/// What the validator gets is what came off the wire: every scripted upstream response is encoded
/// and decoded again (the NSEC3 / type-bitmap / RRSIG codecs are on the path of every end-to-end verdict).
static WIRE_FAILURES: AtomicU64 = AtomicU64::new(0);

fn through_the_wire(m: Message) -> Message {
    match m.to_vec().ok().and_then(|b| Message::from_vec(&b).ok()) {
        Some(back) => back,
        None => {
            // reported at the end of the run (a scripted response could not be encoded and decoded again)
            WIRE_FAILURES.fetch_add(1, Ordering::Relaxed);
            m
        }
    }
}

fn e2e_case(world: &World, rt: &tokio::runtime::Runtime, query: &Query, soa: &Option<HName>, claim: &Claim, mask: u32, limits: Option<(u16, u16)>) -> E2e {
    e2e_case_rcode(world, rt, query, soa, claim, mask, limits, None)
}

#[allow(clippy::too_many_arguments)]
fn e2e_case_rcode(world: &World, rt: &tokio::runtime::Runtime, query: &Query, soa: &Option<HName>, claim: &Claim, mask: u32, limits: Option<(u16, u16)>, rcode: Option<ResponseCode>) -> E2e {
    let mut m = Message::new(0, MessageType::Response, OpCode::Query);
    m.add_query(query.clone());
    m.metadata.response_code = rcode.unwrap_or(rcode_of(claim));
    m.metadata.authoritative = true;
    m.add_answers(world.expanded_answer(claim, &query.name, false));
    if soa.is_some() {
        m.add_authorities(world.built.rrset_with_sigs(&world.origin, RecordType::SOA));
    }
    for i in 0..world.recs.len() {
        if mask >> i & 1 == 1 {
            m.add_authorities(world.built.rrset_with_sigs(&world.recs[i].0, RecordType::NSEC3));
        }
    }
    let key = dnskey_response(world);
    let origin = world.origin.clone();
    let main = query.clone();
    let up = Upstream::new(move |q: &Query| {
        if q.query_type == RecordType::DNSKEY && q.name == origin {
            return Some(key.clone());
        }
        if q.name == main.name && q.query_type == main.query_type {
            return Some(through_the_wire(m.clone()));
        }
        None
    });
    vzone::validate(rt, up, world.anchors(), query.clone(), limits)
}

/// Iteration limits through the handle's BUILDER (`DnssecDnsHandle::with_trust_anchor(..).nsec3_iteration_limits(soft,
/// hard)`, the function the resolver's and the recursor's limit options funnel into), not handed to `verify_nsec3`:
/// (soft, hard) in {unset, 0, 20, 40, 100, 150}^2 - hard < soft, hard == soft, only one of them set included - x a zone
/// signed by the real signer with `it` iterations x the server's own NXDOMAIN answer, validated end to end.
/// Oracle (the builder's documentation; an unset limit keeps its default 100 / 500): iterations above the hard limit
/// in force => Bogus, whatever the soft limit is; above the soft limit only => Insecure; otherwise Secure.
const BUILDER_ITERATIONS: [u16; 13] = [0, 19, 20, 21, 39, 40, 41, 99, 100, 101, 149, 150, 151];

fn limits_through_builder(it: u16, rt: &tokio::runtime::Runtime, l: &mut Local) {
    let spec = ZoneSpec::new("z.", &[("a.z.", Kind::A)]);
    let signing = Signing::Nsec3 { iterations: it, salt: vec![0xab], opt_out: false };
    let case = |soft: Option<u16>, hard: Option<u16>| json!({"level": "limits-builder", "zone": spec.to_json(), "signing": signing.tag(), "iterations": it, "soft": soft, "hard": hard, "qname": "b.z.", "qtype": 1});
    let w = match build_world(&spec, &signing) {
        Ok(w) => w,
        Err(e) => {
            l.violation("zone-build-failed", &e, || case(None, None));
            return;
        }
    };
    let answer = match vzone::ask(rt, &w.built.catalog, "b.z.", rz::T_A, true) {
        Ok(m) if m.metadata.response_code == ResponseCode::NXDomain => through_the_wire(m),
        other => {
            l.violation("limits-builder:no-nxdomain-from-server", &format!("{:?}", other.map(|m| m.metadata.response_code)), || case(None, None));
            return;
        }
    };
    let key = dnskey_response(&w);
    let query = Query::new(vzone::hname("b.z."), RecordType::A);
    let values = [None, Some(0u16), Some(20), Some(40), Some(100), Some(150)];
    for soft in values {
        for hard in values {
            let (key, answer, origin) = (key.clone(), answer.clone(), w.origin.clone());
            let up = Upstream::new(move |q: &Query| {
                if q.query_type == RecordType::DNSKEY && q.name == origin {
                    return Some(key.clone());
                }
                if q.query_type == RecordType::A {
                    return Some(answer.clone());
                }
                None
            });
            let handle = hickory_net::dnssec::DnssecDnsHandle::with_trust_anchor(up, w.anchors()).nsec3_iteration_limits(soft, hard);
            l.eval();
            let e = match vcore::catch(|| vzone::validate_with(rt, &handle, query.clone())) {
                Ok(e) => e,
                Err(p) => {
                    l.violation(&format!("panic:{}", vcore::short_loc(&p.loc)), &p.msg, || case(soft, hard));
                    continue;
                }
            };
            let (s_eff, h_eff) = (soft.unwrap_or(SOFT), hard.unwrap_or(HARD));
            let want = if it > h_eff {
                Proof::Bogus
            } else if it > s_eff {
                Proof::Insecure
            } else {
                Proof::Secure
            };
            let relation = if h_eff < s_eff {
                "hard<soft"
            } else if h_eff == s_eff {
                "hard=soft"
            } else {
                "hard>soft"
            };
            let set = match (soft, hard) {
                (None, None) => "none-set",
                (Some(_), None) => "soft-set",
                (None, Some(_)) => "hard-set",
                _ => "both-set",
            };
            if e2e_agrees(want, &e) {
                l.outcome(&format!("limits-builder:{relation}:{set}:{}", format!("{want:?}").to_lowercase()));
            } else {
                let pos = if it > h_eff { "above-hard" } else if it > s_eff { "above-soft" } else { "within-limits" };
                l.violation(
                    &format!("limits-builder:{relation}:{set}:{pos}:expected-{}:got-{}", format!("{want:?}").to_lowercase(), e.class()),
                    &format!("nsec3_iteration_limits({soft:?}, {hard:?}) (in force: soft {s_eff}, hard {h_eff}), NSEC3 records with {it} iterations: the NXDOMAIN comes back as {}, the configured limits say {want:?}", e.class()),
                    || case(soft, hard),
                );
            }
        }
    }
}

fn e2e_agrees(hook: Proof, e: &E2e) -> bool {
    match hook {
        Proof::Secure => e.is_secure(),
        Proof::Bogus => matches!(e, E2e::NsecRejected(Proof::Bogus)),
        Proof::Insecure => matches!(e, E2e::NsecRejected(Proof::Insecure)),
        Proof::Indeterminate => matches!(e, E2e::NsecRejected(Proof::Indeterminate)),
    }
}

// ------------------------------------------------------------------------------------------
// decision level

struct Counters {
    bound: AtomicU64,
    thorough: bool,
}

fn case_json(world: &World, qname: &str, qtype: u16, claim: &Claim, soa: &Option<HName>, mask: u32) -> Value {
    json!({
        "level": "decision",
        "zone": world.spec.to_json(), "signing": world.signing.tag(), "world": world.text,
        "qname": qname, "qtype": qtype, "qtype_name": rz::type_name(qtype),
        "claim": claim_json(claim),
        "soa": soa.as_ref().map(|n| n.to_string()),
        "mask": mask,
        "nsec3s": describe(world, mask),
    })
}

#[allow(clippy::too_many_arguments)]
fn run_claim(
    world: &World,
    qname_s: &str,
    qtype: u16,
    claim: &Claim,
    only: Option<(Option<HName>, u32)>,
    masks: &[u32],
    rt: &tokio::runtime::Runtime,
    l: &mut Local,
    cnt: &Counters,
) {
    let qname = Name::parse(qname_s);
    let hq = vzone::hname(qname_s);
    let query = Query::new(hq.clone(), RecordType::from(qtype));
    let zones = [world.rz.clone()];
    let mut tr = dn::truth(&zones, &qname, qtype, claim);
    // Under opt-out the RFC 5155 8.6 proof for "no DS" asserts only that no SIGNED delegation
    // exists at the name (it cannot tell an insecure delegation from a non-existent name, and
    // the property statement allows opt-out to carry the verdict exactly for DS): the claim
    // "no DS RRset at qname" is then false only if the zone publishes a DS RRset there.
    let (_, _, opt_out) = params(&world.signing);
    if opt_out && qtype == rz::T_DS && matches!(claim, Claim::NoData) {
        if let Err(why) = tr {
            if why != "has-type" && why != "out-of-zone" {
                tr = Ok(());
                l.outcome("truth:optout-no-ds-relaxed");
            }
        }
    }
    let answers = world.expanded_answer(claim, &hq, true);
    let rcode = rcode_of(claim);
    let n = world.recs.len();
    let no_parent = |_: &Name| false;
    let hasher = |x: &Name| world.hash(x);
    let case_id = format!("{}|{qname_s}|{qtype}|{claim:?}", world.text);
    for soa in [Some(world.origin.clone()), None] {
        if let Some((s, _)) = &only {
            if *s != soa {
                continue;
            }
        }
        let mut secure_masks: Vec<u32> = vec![];
        for &mask in masks {
            if let Some((_, m)) = &only {
                if *m != mask {
                    continue;
                }
            }
            let sub: Vec<(&HName, &NSEC3)> = (0..n).filter(|i| mask >> i & 1 == 1).map(|i| (&world.recs[i].0, &world.recs[i].1)).collect();
            let abs: Vec<&Nsec3Rec> = (0..n).filter(|i| mask >> i & 1 == 1).map(|i| &world.recs[i].2).collect();
            l.eval();
            let verdict = match vcore::catch(|| verify_nsec3(&query, soa.as_ref(), rcode, &answers, &sub, SOFT, HARD)) {
                Ok(v) => v,
                Err(p) => {
                    l.violation(&format!("panic:{}", vcore::short_loc(&p.loc)), &p.msg, || case_json(world, qname_s, qtype, claim, &soa, mask));
                    continue;
                }
            };
            let proves = dn::nsec3_proves_with(&abs, &world.apex, &qname, qtype, claim, &no_parent, &hasher);
            if proves == Proof3::Yes && tr.is_err() {
                eprintln!(
                    "REFERENCE-INCONSISTENT: nsec3_proves accepts a claim that is false ({}): {}",
                    tr.unwrap_err(),
                    case_json(world, qname_s, qtype, claim, &soa, mask)
                );
                l.outcome("reference-inconsistent");
                continue;
            }
            let secure = verdict == Proof::Secure;
            l.outcome(&format!("verdict:{}:{}:{}", claim.tag(), format!("{verdict:?}").to_lowercase(), if tr.is_ok() { "true-claim" } else { "false-claim" }));
            if tr.is_err() || (proves != Proof3::No && mask.count_ones() >= 2) {
                // counted per (world, qname, qtype), not per claim/soa/subset (keeps the exact count
                // far below vcore's 40 M cap, so it is the same number on every run)
                l.nontrivial(fnv_str(&format!("{}|{qname_s}|{qtype}", world.text)));
            }
            if proves == Proof3::Yes && !secure && soa.is_some() {
                l.outcome(&format!("obs:valid-proof-not-accepted:{}", claim.tag()));
            }
            let slice = fnv_str(&format!("{case_id}|{soa:?}|{mask}")) % BIND_SLICE == 0;
            let mut bad_key: Option<(String, String)> = None;
            if secure {
                let minimal = !secure_masks.iter().any(|m| m & mask == *m);
                secure_masks.push(mask);
                if let Err(why) = &tr {
                    if minimal {
                        bad_key = Some((
                            format!("unsound:{}:{why}:{}", claim.tag(), mechanism(world, &abs, &qname, claim, &soa, proves)),
                            format!("{} for {qname_s} {} accepted as Secure but the claim is false in the zone ({why})", claim.tag(), rz::type_name(qtype)),
                        ));
                    } else {
                        l.outcome("unsound:superset-of-minimal");
                    }
                } else if proves != Proof3::Yes {
                    if minimal {
                        bad_key = Some((
                            format!("unentailed:{}:{}", claim.tag(), mechanism(world, &abs, &qname, claim, &soa, proves)),
                            format!(
                                "{} for {qname_s} {} accepted as Secure; the claim happens to be true but these NSEC3s are not the RFC 5155 section 8 proof for it{}",
                                claim.tag(),
                                rz::type_name(qtype),
                                if proves == Proof3::OptOut { " (the next-closer cover has the Opt-Out flag)" } else { "" }
                            ),
                        ));
                    } else {
                        l.outcome("unentailed:superset-of-minimal");
                    }
                }
            }
            // quick: 1/4 of the slice and 1/8 of the Secure-but-false cases (deterministic by digest);
            // thorough: every Secure-but-false case and the whole 1/64 slice
            let digest = fnv_str(&format!("{case_id}|{soa:?}|{mask}|bind"));
            let replay = !world.ref_chain && (only.is_some() || if cnt.thorough { bad_key.is_some() || slice } else { (bad_key.is_some() && digest % 8 == 0) || (slice && digest % 4 == 0) });
            if replay {
                let e = e2e_case(world, rt, &query, &soa, claim, mask, None);
                cnt.bound.fetch_add(1, Ordering::Relaxed);
                if !e2e_agrees(verdict, &e) {
                    l.violation(
                        &format!("binding:hook={}:e2e={}", format!("{verdict:?}").to_lowercase(), e.class()),
                        "the decision-level verdict and the verdict of the real DnssecDnsHandle on the same records differ",
                        || case_json(world, qname_s, qtype, claim, &soa, mask),
                    );
                } else {
                    l.outcome(&format!("bound:{}", e.class()));
                }
            }
            if let Some((key, what)) = bad_key {
                l.violation(&key, &what, || case_json(world, qname_s, qtype, claim, &soa, mask));
            }
        }
    }
}

// ------------------------------------------------------------------------------------------
// chain

/// Returns false if the real chain is not the chain RFC 5155 7.1 prescribes for the zone.
fn check_chain(world: &World, l: &mut Local) -> bool {
    let (salt, iterations, opt_out) = params(&world.signing);
    // Exact comparison of every field incl. the RRSIG bit, with ONE tolerated (and counted) difference: the
    // real signer signs the NS RRset of an insecure delegation and therefore sets the RRSIG bit there.
    let ns_only: BTreeSet<u16> = [rz::T_NS].into_iter().collect();
    let tolerated = std::cell::Cell::new(0u64);
    let strip = |t: &BTreeSet<u16>| -> BTreeSet<u16> {
        let without: BTreeSet<u16> = t.iter().copied().filter(|x| *x != rz::T_RRSIG).collect();
        if without == ns_only {
            if t.contains(&rz::T_RRSIG) {
                tolerated.set(tolerated.get() + 1);
            }
            without
        } else {
            t.clone()
        }
    };
    let want = dn::nsec3_chain(&world.rz, &salt, iterations, opt_out);
    let mut got: Vec<&Nsec3Rec> = world.recs.iter().map(|r| &r.2).collect();
    got.sort_by(|a, b| a.hash.cmp(&b.hash));
    // hickory's RDATA octets = the reference encoder's octets, for every genuine record
    {
        use hickory_proto::serialize::binary::BinEncodable;
        for (owner, n3, abs) in &world.recs {
            let want = dn::nsec3_rdata_wire(1, abs.opt_out as u8, abs.iterations, &abs.salt, &abs.next, &abs.types);
            match n3.to_bytes() {
                Ok(got) if got == want => l.outcome("codec:genuine-nsec3-emit:as-reference"),
                other => l.violation("codec:genuine-nsec3-emit-differs", &format!("{owner} NSEC3: emitted {other:02x?}, reference {want:02x?}"), || json!({"level": "chain", "zone": world.spec.to_json(), "signing": world.signing.tag()})),
            }
        }
    }
    let same = want.len() == got.len()
        && want.iter().zip(got.iter()).all(|(w, g)| w.hash == g.hash && w.next == g.next && strip(&w.types) == strip(&g.types) && w.opt_out == g.opt_out && w.salt == g.salt && w.iterations == g.iterations);
    if same {
        l.outcome("chain:as-rfc5155");
        if tolerated.get() > 0 {
            l.outcome("obs:chain:rrsig-bit-at-insecure-delegation");
        }
        return true;
    }
    let wo: BTreeSet<&Vec<u8>> = want.iter().map(|r| &r.hash).collect();
    let go: BTreeSet<&Vec<u8>> = got.iter().map(|r| &r.hash).collect();
    let key = if wo != go {
        // which names are missing from the real chain?
        let mut kinds: BTreeSet<&str> = BTreeSet::new();
        let mut names: Vec<Name> = world.rz.nodes.keys().cloned().collect();
        for k in names.clone() {
            let mut p = k.parent();
            while p.strictly_below(&world.apex) {
                names.push(p.clone());
                p = p.parent();
            }
        }
        for h in wo.difference(&go) {
            let n = names.iter().find(|n| &world.hash(n) == *h);
            kinds.insert(match n {
                Some(n) if world.rz.status(n) == rz::NodeStatus::Ent && n.is_wildcard() => "ent-with-star-label",
                Some(n) if world.rz.status(n) == rz::NodeStatus::Ent => "ent",
                Some(n) if world.rz.is_cut(n) => "delegation",
                Some(_) => "data",
                None => "?",
            });
        }
        format!("chain:owners-differ:missing=[{}]:extra={}", kinds.into_iter().collect::<Vec<_>>().join(","), go.difference(&wo).count().min(1))
    } else if want.iter().zip(got.iter()).any(|(w, g)| w.next != g.next) {
        "chain:order-differs".to_string()
    } else if want.iter().zip(got.iter()).any(|(w, g)| w.opt_out != g.opt_out || w.salt != g.salt || w.iterations != g.iterations) {
        "chain:parameters-differ".to_string()
    } else {
        let mut kinds = BTreeSet::new();
        for (w, g) in want.iter().zip(got.iter()) {
            for t in strip(&w.types).symmetric_difference(&strip(&g.types)) {
                kinds.insert(format!("{}{}", if w.types.contains(t) { "-" } else { "+" }, rz::type_name(*t)));
            }
        }
        format!("chain:bitmap-differs:{}", kinds.into_iter().collect::<Vec<_>>().join(","))
    };
    l.violation(&key, "the NSEC3 chain produced by the real signer differs from RFC 5155 7.1", || {
        json!({"level": "chain", "zone": world.spec.to_json(), "signing": world.signing.tag(),
               "expected": want.iter().map(|r| format!("{} -> {} {:?}", dn::base32hex(&r.hash), dn::base32hex(&r.next), r.types)).collect::<Vec<_>>(),
               "got": got.iter().map(|r| format!("{} -> {} {:?}", dn::base32hex(&r.hash), dn::base32hex(&r.next), r.types)).collect::<Vec<_>>()})
    });
    false
}

// ------------------------------------------------------------------------------------------
// completeness

fn ref_class(s: &Step, qname: &Name, qtype: u16, zone: &Zone) -> Option<String> {
    match s {
        Step::NxDomain { .. } => Some("NXDOMAIN".into()),
        Step::NoData(NoDataKind::OtherData) => {
            if qtype == rz::T_DS && zone.is_cut(qname) {
                Some("NODATA-ds-at-delegation".into())
            } else {
                Some("NODATA-other".into())
            }
        }
        Step::NoData(NoDataKind::Ent) => Some("NODATA-ent".into()),
        Step::NoData(NoDataKind::Wildcard { .. }) => Some("NODATA-wild".into()),
        Step::NoData(NoDataKind::WildcardEnt { .. }) => Some("NODATA-wildent".into()),
        Step::Data { source, .. } if source != qname => Some("WILDCARD".into()),
        Step::Cname { source, .. } if source != qname => Some("WILDCARD-CNAME".into()),
        // ordinary positive answers: "for every zone and QUERY the server's own proof is accepted" -
        // whatever the server attaches to them must not make the validator reject them
        Step::Data { .. } => Some("POSITIVE".into()),
        Step::Cname { .. } if qtype != rz::T_CNAME => Some("POSITIVE-CNAME".into()),
        _ => None,
    }
}

/// The denial claim a response makes about (qname, qtype), read off its shape: NXDOMAIN / NODATA
/// (empty answer, not a referral) / "the answer RRset owned by qname is the expansion of the
/// wildcard `*.<Labels-suffix of qname>`" (an RRSIG at qname whose Labels field is smaller than
/// the owner's label count). None for ordinary positive answers and referrals.
fn observed_claim(m: &Message, qname: &Name) -> Option<Claim> {
    let hq = vzone::hname(&qname.to_string());
    if m.answers.is_empty() {
        if m.metadata.response_code == ResponseCode::NXDomain {
            return Some(Claim::NxDomain);
        }
        let has_soa = m.authorities.iter().any(|r| r.record_type() == RecordType::SOA);
        let has_ns = m.authorities.iter().any(|r| r.record_type() == RecordType::NS);
        if m.metadata.response_code == ResponseCode::NoError && (has_soa || !has_ns) {
            return Some(Claim::NoData);
        }
        return None;
    }
    for r in &m.answers {
        if r.name != hq {
            continue;
        }
        if let hickory_proto::rr::RData::DNSSEC(hickory_proto::dnssec::rdata::DNSSECRData::RRSIG(s)) = &r.data {
            let labels = s.input().num_labels as usize;
            if labels < qname.num_labels() - qname.is_wildcard() as usize {
                return Some(Claim::Wildcard { source: qname.suffix(labels).wildcard_child(), rtype: s.input().type_covered.into() });
            }
        }
    }
    None
}

fn completeness(world: &World, rt: &tokio::runtime::Runtime, l: &mut Local, only: Option<(&str, u16)>) {
    let zone = &world.rz;
    let mut table: HashMap<(HName, RecordType), Message> = HashMap::new();
    let mut todo: Vec<(String, u16, String)> = vec![];
    let mut deviations: Vec<(String, u16)> = vec![];
    for qn in &world.qnames {
        let name = Name::parse(qn);
        if !name.at_or_below(&zone.origin) {
            continue;
        }
        for &t in &world.qtypes {
            if let Some((oq, ot)) = only {
                if oq != qn || ot != t {
                    continue;
                }
            }
            let Ok(m) = vzone::ask(rt, &world.built.catalog, qn, t, true) else {
                l.violation("completeness:no-response", "the server gave no single decodable response", || json!({"level": "completeness", "zone": world.spec.to_json(), "signing": world.signing.tag(), "qname": qn, "qtype": t}));
                continue;
            };
            let s = rz::step(zone, &name, t);
            let (_, _, opt_out) = params(&world.signing);
            let ce = zone.closest_encloser_or_self(&name);
            if opt_out && ce.strictly_below(&zone.origin) && !world.recs.iter().any(|r| r.2.hash == world.hash(&ce)) && !matches!(s, Step::Referral { .. }) {
                // the name (or its closest encloser) is an empty non-terminal that exists only because
                // of opted-out insecure delegations: it has no NSEC3, and RFC 5155 (erratum 3441) has no
                // NODATA / name-error proof that is consistent with the zone's content: not judged
                l.outcome("completeness:skipped-optout-only-ent");
                table.insert((vzone::hname(qn), RecordType::from(t)), m);
                continue;
            }
            let mut handled = false;
            if let Some(class) = ref_class(&s, &name, t, zone) {
                let shape_ok = match &s {
                    Step::NxDomain { .. } => m.metadata.response_code == ResponseCode::NXDomain && m.answers.is_empty(),
                    Step::NoData(_) => m.metadata.response_code == ResponseCode::NoError && m.answers.is_empty(),
                    Step::Data { rdata, .. } => {
                        m.metadata.response_code == ResponseCode::NoError && {
                            let got: BTreeSet<rz::RData> = m.answers.iter().filter(|r| u16::from(r.record_type()) == t).map(|r| vzone::ref_rr(r).rdata).collect();
                            got == *rdata
                        }
                    }
                    Step::Cname { target, .. } => {
                        m.metadata.response_code == ResponseCode::NoError
                            && m.answers.iter().any(|r| r.name == vzone::hname(qn) && vzone::ref_rr(r).rdata == rz::RData::Cname(target.clone()))
                    }
                    _ => false,
                };
                if shape_ok {
                    todo.push((qn.clone(), t, class));
                    handled = true;
                } else {
                    l.outcome("completeness:skipped-c10-deviation");
                }
            }
            // any other response that has the SHAPE of a denial / wildcard expansion (also where the
            // reference expects a referral or plain data) is judged as a deviation below
            if !handled && observed_claim(&m, &name).is_some() {
                deviations.push((qn.clone(), t));
            }
            table.insert((vzone::hname(qn), RecordType::from(t)), m);
        }
    }
    let dnskey = dnskey_response(world);
    let origin = world.origin.clone();
    let table = Arc::new(table);
    let t2 = table.clone();
    let up = Upstream::new(move |q: &Query| {
        if q.query_type == RecordType::DNSKEY && q.name == origin {
            return Some(dnskey.clone());
        }
        t2.get(&(q.name.clone(), q.query_type)).cloned().map(through_the_wire)
    });
    let handle = vzone::validator(up, world.anchors(), None);
    let hasher = |x: &Name| world.hash(x);
    // The answers that do NOT have the shape the reference expects (C10's deviations): what does
    // the validator make of them? A response whose own claim (read off its shape) is FALSE in the
    // zone must not come back Secure - server and validator must not agree on a wrong answer.
    for (qn, t) in &deviations {
        let (qn, t) = (qn.clone(), *t);
        let name = Name::parse(&qn);
        let m = &table[&(vzone::hname(&qn), RecordType::from(t))];
        let Some(claim) = observed_claim(m, &name) else {
            l.outcome("deviation:positive-or-referral-shape");
            continue;
        };
        let mut tr = dn::truth(&[world.rz.clone()], &name, t, &claim);
        let (_, _, opt_out) = params(&world.signing);
        if opt_out && t == rz::T_DS && matches!(claim, Claim::NoData) && matches!(tr, Err(w) if w != "has-type" && w != "out-of-zone") {
            tr = Ok(()); // under opt-out "no DS" only asserts that no signed delegation exists (see run_claim)
        }
        l.eval();
        let e = vzone::validate_with(rt, &handle, Query::new(vzone::hname(&qn), RecordType::from(t)));
        match (&tr, e.is_secure()) {
            (Ok(()), true) => l.outcome(&format!("deviation:true-claim:{}:secure", claim.tag())),
            (Ok(()), false) => l.outcome(&format!("deviation:true-claim:{}:{}", claim.tag(), e.class())),
            (Err(why), false) => l.outcome(&format!("deviation:false-claim:{}:{why}:{}", claim.tag(), e.class())),
            (Err(why), true) => {
                l.violation(
                    &format!("unsound-e2e:server-answer:{}:{why}", claim.tag()),
                    &format!("the server's (wrong) DO=1 answer for {qn} {} claims {} although that is false in the zone ({why}), and the validator accepts it as Secure", rz::type_name(t), claim.tag()),
                    || json!({"level": "completeness", "zone": world.spec.to_json(), "signing": world.signing.tag(), "world": world.text, "qname": qn, "qtype": t, "qtype_name": rz::type_name(t), "claim": claim_json(&claim)}),
                );
            }
        }
    }
    for (qn, t, class) in todo {
        l.eval();
        let e = vzone::validate_with(rt, &handle, Query::new(vzone::hname(&qn), RecordType::from(t)));
        // second step: the same query again on the same handle (validation cache filled by the first
        // pass, by the other queries and by rejected ones): same verdict
        let again = vzone::validate_with(rt, &handle, Query::new(vzone::hname(&qn), RecordType::from(t)));
        if again.class() != e.class() {
            l.violation(
                &format!("second-validation-differs:{}->{}", e.class(), again.class()),
                &format!("{qn} {}: validating the same server answer a second time on the same DnssecDnsHandle gives another verdict", rz::type_name(t)),
                || json!({"level": "completeness", "zone": world.spec.to_json(), "signing": world.signing.tag(), "qname": qn, "qtype": t}),
            );
        } else {
            l.outcome("second-validation:same-verdict");
        }
        if e.is_secure() {
            l.outcome(&format!("complete:{class}"));
            l.nontrivial(fnv_str(&format!("complete|{}|{qn}|{t}", world.text)));
            continue;
        }
        let m = &table[&(vzone::hname(&qn), RecordType::from(t))];
        let name = Name::parse(&qn);
        if class.starts_with("POSITIVE") {
            let denial = m.authorities.iter().any(|r| r.record_type() == RecordType::NSEC3);
            let chained = m.answers.iter().any(|r| r.record_type() != RecordType::RRSIG && r.name != vzone::hname(&qn));
            let key = format!("incomplete:{class}:{}:{}{}", e.class(), if denial { "nsec3-attached-to-positive-answer" } else { "no-denial-records" }, if chained { ":chained-answer" } else { "" });
            l.violation(&key, &format!("the server's own DO=1 POSITIVE answer for {qn} {} is not accepted as Secure by the validator: {}", rz::type_name(t), e.class()), || {
                json!({"level": "completeness", "zone": world.spec.to_json(), "signing": world.signing.tag(), "world": world.text, "qname": qn, "qtype": t, "qtype_name": rz::type_name(t),
                       "answer": m.answers.iter().filter(|r| r.record_type() != RecordType::RRSIG).map(|r| format!("{} {} {}", r.name, r.record_type(), r.data)).collect::<Vec<_>>(),
                       "authority": m.authorities.iter().filter(|r| r.record_type() != RecordType::RRSIG).map(|r| format!("{} {} {}", r.name, r.record_type(), r.data)).collect::<Vec<_>>()})
            });
            continue;
        }
        let attached: Vec<Nsec3Rec> = m
            .authorities
            .iter()
            .filter_map(|r| match &r.data {
                hickory_proto::rr::RData::DNSSEC(hickory_proto::dnssec::rdata::DNSSECRData::NSEC3(n)) => vzone::ref_nsec3(&world.origin, &r.name, n),
                _ => None,
            })
            .collect();
        let attached_refs: Vec<&Nsec3Rec> = attached.iter().collect();
        let claim = match rz::step(zone, &name, t) {
            Step::NxDomain { .. } => Claim::NxDomain,
            Step::NoData(_) => Claim::NoData,
            Step::Data { source, rtype, .. } => Claim::Wildcard { source, rtype },
            Step::Cname { source, .. } => Claim::Wildcard { source, rtype: rz::T_CNAME },
            _ => Claim::NoData,
        };
        let valid = dn::nsec3_proves_with(&attached_refs, &world.apex, &name, t, &claim, &|_| false, &hasher);
        if valid == Proof3::OptOut && matches!(e, E2e::NsecRejected(Proof::Insecure)) {
            // the server's proof is the RFC 5155 proof, but its next-closer cover has the Opt-Out flag:
            // by the soundness clause it may not be Secure; "accepted" then means "valid, insecure"
            l.outcome(&format!("complete-as-insecure:optout-cover:{class}"));
            continue;
        }
        let has_soa = m.authorities.iter().any(|r| r.record_type() == RecordType::SOA);
        let star = name.0.iter().any(|l| l.as_slice() == b"*");
        let depth = name.num_labels() - zone.closest_encloser_or_self(&name).num_labels();
        let key = format!(
            "incomplete:{class}:{}:{}:{}{}{}",
            e.class(),
            match valid {
                Proof3::Yes => "validator-rejects-valid-proof",
                Proof3::OptOut => "proof-relies-on-optout-cover",
                Proof3::No => "server-proof-insufficient",
            },
            if has_soa { "soa" } else { "nosoa" },
            if star { "+star" } else { "" },
            if depth >= 2 { "+ce-above-parent" } else { "" },
        ) + if t == rz::T_DS { ":t=DS" } else { "" };
        l.violation(&key, &format!("the server's own DO=1 answer for {qn} {} ({class}) is not accepted as Secure by the validator: {}", rz::type_name(t), e.class()), || {
            json!({"level": "completeness", "zone": world.spec.to_json(), "signing": world.signing.tag(), "world": world.text,
                   "qname": qn, "qtype": t, "qtype_name": rz::type_name(t),
                   "authority": m.authorities.iter().filter(|r| r.record_type() != RecordType::RRSIG).map(|r| format!("{} {} {}", r.name, r.record_type(), r.data)).collect::<Vec<_>>()})
        });
    }
}

// ------------------------------------------------------------------------------------------
// parameter mixtures, wrong-zone owners, iteration limits

/// Subsets that mix records of the same zone signed under two parameter sets, and records whose
/// owner was moved below another name, must never give Secure.
fn mixtures(spec: &ZoneSpec, a: &World, b: &World, l: &mut Local) {
    let na = a.recs.len().min(4);
    let nb = b.recs.len().min(4);
    for qn in &a.qnames {
        let qname = Name::parse(qn);
        if !qname.at_or_below(&a.apex) {
            continue;
        }
        let hq = vzone::hname(qn);
        for t in [rz::T_A, rz::T_DS] {
            let query = Query::new(hq.clone(), RecordType::from(t));
            for claim in [Claim::NxDomain, Claim::NoData] {
                for ma in 1u32..(1 << na) {
                    for mb in 1u32..(1 << nb) {
                        if ma.count_ones() + mb.count_ones() > 3 {
                            continue;
                        }
                        let mut sub: Vec<(&HName, &NSEC3)> = (0..na).filter(|i| ma >> i & 1 == 1).map(|i| (&a.recs[i].0, &a.recs[i].1)).collect();
                        sub.extend((0..nb).filter(|i| mb >> i & 1 == 1).map(|i| (&b.recs[i].0, &b.recs[i].1)));
                        for soa in [Some(a.origin.clone()), None] {
                            l.eval();
                            let v = verify_nsec3(&query, soa.as_ref(), rcode_of(&claim), &[], &sub, SOFT, HARD);
                            l.outcome(&format!("mixture:{}", format!("{v:?}").to_lowercase()));
                            if v == Proof::Secure {
                                l.violation(&format!("unsound:mixed-parameters:{}", claim.tag()), "a set of NSEC3 records with different salt/iterations gives Secure", || {
                                    json!({"level": "mixture", "zone": spec.to_json(), "a": a.signing.tag(), "b": b.signing.tag(), "qname": qn, "qtype": t, "claim": claim_json(&claim), "ma": ma, "mb": mb})
                                });
                            }
                        }
                    }
                }
            }
        }
    }
}

/// Records that do not belong to the response's zone: the zone's genuine NSEC3 records re-owned
/// as `<hash>.<base>` for bases that are strict DESCENDANTS of the SOA owner (what a securely
/// delegated child zone could sign), its strict ancestor (the root) and unrelated zones — every
/// subset with all members re-owned, and every subset of >= 2 records with exactly one member
/// re-owned — for every claim, with the zone's SOA and without SOA. Never Secure:
///  * SOA present: every record must be owned directly below the SOA owner (RFC 5155 8.2 / the
///    statement's "belonging to the response's zone");
///  * SOA absent: judged where the records' zone `<base>` does not even enclose the query name
///    (a zone cannot deny names outside itself).
/// This clause is evaluated on its own (key `record-not-in-soa-zone` / `record-zone-does-not-
/// enclose-qname`), before any truth/entailment reasoning, so the wrap-around defect cannot mask it.
fn reowned(spec: &ZoneSpec, w: &World, l: &mut Local) {
    let mut bases: Vec<(HName, Name, &'static str)> = vec![];
    for d in ["a.", "b.", "a.a.", "*."] {
        let s = format!("{d}{}", spec.origin);
        bases.push((vzone::hname(&s), Name::parse(&s), "descendant"));
    }
    bases.push((HName::root(), Name::root(), "ancestor"));
    bases.push((vzone::hname("o."), Name::parse("o."), "unrelated"));
    let n = w.recs.len();
    let masks: Vec<u32> = (1u32..(1 << n)).filter(|m| n <= 4 || m.count_ones() <= 3).collect();
    let moved: Vec<Vec<HName>> = bases
        .iter()
        .map(|(b, _, _)| w.recs.iter().map(|(o, _, _)| b.prepend_label(o.iter().next().unwrap()).unwrap()).collect())
        .collect();
    for qn in spec.query_names(2) {
        let qname = Name::parse(&qn);
        if !qname.at_or_below(&w.apex) {
            continue;
        }
        let hq = vzone::hname(&qn);
        for t in [rz::T_A, rz::T_DS] {
            let query = Query::new(hq.clone(), RecordType::from(t));
            for claim in w.claims(&qname, t) {
                let answers = w.expanded_answer(&claim, &hq, true);
                // an NSEC3 record owned by the ROOT name itself (no hash label to split off): Bogus, no panic
                for i in 0..n {
                    let root = HName::root();
                    for soa in [Some(w.origin.clone()), None] {
                        l.eval();
                        match vcore::catch(|| verify_nsec3(&query, soa.as_ref(), rcode_of(&claim), &answers, &[(&root, &w.recs[i].1)], SOFT, HARD)) {
                            Ok(v) => {
                                l.outcome(&format!("reowned:root-owner:{}", format!("{v:?}").to_lowercase()));
                                if v == Proof::Secure {
                                    l.violation(&format!("unsound:{}:record-owned-by-root", claim.tag()), "an NSEC3 record owned by the root name gives Secure", || {
                                        json!({"level": "reowned", "zone": spec.to_json(), "signing": w.signing.tag(), "qname": qn, "qtype": t, "claim": claim_json(&claim)})
                                    });
                                }
                            }
                            Err(p) => l.violation(&format!("panic:{}", vcore::short_loc(&p.loc)), &p.msg, || json!({"level": "reowned", "zone": spec.to_json(), "signing": w.signing.tag(), "qname": qn, "qtype": t})),
                        }
                    }
                }
                for (bi, (_, rbase, rel)) in bases.iter().enumerate() {
                    for soa in [Some(w.origin.clone()), None] {
                        let judged = soa.is_some() || !qname.at_or_below(rbase);
                        for &mask in &masks {
                            // variant usize::MAX: every member re-owned; variant j: only member j re-owned
                            let members: Vec<usize> = (0..n).filter(|i| mask >> i & 1 == 1).collect();
                            let mut variants: Vec<usize> = vec![usize::MAX];
                            if members.len() >= 2 {
                                variants.extend(members.iter().copied());
                            }
                            for var in variants {
                                let sub: Vec<(&HName, &NSEC3)> =
                                    members.iter().map(|&i| (if var == usize::MAX || var == i { &moved[bi][i] } else { &w.recs[i].0 }, &w.recs[i].1)).collect();
                                l.eval();
                                let v = verify_nsec3(&query, soa.as_ref(), rcode_of(&claim), &answers, &sub, SOFT, HARD);
                                l.outcome(&format!("reowned:{rel}:{}:{}", if soa.is_some() { "soa" } else { "nosoa" }, format!("{v:?}").to_lowercase()));
                                if v == Proof::Secure && judged {
                                    let key = if soa.is_some() {
                                        format!("unsound:{}:record-not-in-soa-zone:{rel}", claim.tag())
                                    } else {
                                        format!("unsound:{}:record-zone-does-not-enclose-qname:{rel}:nosoa", claim.tag())
                                    };
                                    l.violation(&key, &format!("{} for {qn} {} is Secure on NSEC3 records owned below {rbase}, which is not the response's zone", claim.tag(), rz::type_name(t)), || {
                                        json!({"level": "reowned", "zone": spec.to_json(), "signing": w.signing.tag(), "qname": qn, "qtype": t, "claim": claim_json(&claim),
                                               "soa": soa.as_ref().map(|x| x.to_string()), "records_reowned_below": rbase.to_string(), "relation": rel,
                                               "mask": mask, "only_member_reowned": if var == usize::MAX { json!("all") } else { json!(var) },
                                               "owners": sub.iter().map(|(o, _)| o.to_string()).collect::<Vec<_>>()})
                                    });
                                }
                            }
                        }
                    }
                }
            }
        }
    }
}

/// End-to-end confirmation of the `record-zone-does-not-enclose-qname:*:nosoa` findings: the
/// operator of an UNRELATED signed zone `o.` publishes and signs (with o.'s own key, through the
/// real `RRSIG::from_rrset`) the NSEC3 record `<H(z.)>.o.` with an empty-ish bitmap; a response to
/// `z. A` without SOA that carries this record (and its RRSIG) goes through the real
/// `DnssecDnsHandle` with both zone keys as trust anchors. The apex `z.` exists and owns NS/SOA;
/// the response claims NODATA for `z. NS` — false — on the strength of another zone's record.
fn e2e_foreign_zone_nsec3(rt: &tokio::runtime::Runtime, l: &mut Local) {
    use hickory_proto::dnssec::rdata::{DNSSECRData, RRSIG};
    use hickory_proto::rr::{DNSClass, RData, RecordSet};
    let Ok(o_zone) = vzone::build(&ZoneSpec::new("o.", &[]), &Signing::Nsec3 { iterations: 0, salt: vec![], opt_out: false }) else { return };
    let o = vzone::hname("o.");
    let (signer, _) = vzone::zone_key("o.");
    let target = Name::parse("z.");
    let h = dn::nsec3_hash(&target, &[], 0);
    let owner = o.prepend_label(dn::base32hex(&h)).unwrap();
    let mut next = h.clone();
    *next.last_mut().unwrap() ^= 1;
    let n3 = NSEC3::new(Default::default(), false, 0, vec![], next, [RecordType::TXT, RecordType::RRSIG]);
    let mut rrset = RecordSet::with_ttl(owner.clone(), RecordType::NSEC3, 300);
    rrset.add_rdata(RData::DNSSEC(DNSSECRData::NSEC3(n3)));
    let inception = time::OffsetDateTime::from_unix_timestamp(vsim::unix() as i64).unwrap();
    let Ok(sig) = RRSIG::from_rrset(&rrset, DNSClass::IN, inception, &signer) else { return };
    let mut auth: Vec<Record> = rrset.records_without_rrsigs().cloned().collect();
    auth.push(Record::from_rdata(owner.clone(), 300, RData::DNSSEC(DNSSECRData::RRSIG(sig))));
    let query = Query::new(vzone::hname("z."), RecordType::NS);
    let mut m = Message::new(0, MessageType::Response, OpCode::Query);
    m.add_query(query.clone());
    m.metadata.authoritative = true;
    m.add_authorities(auth);
    let mut key = Message::new(0, MessageType::Response, OpCode::Query);
    key.add_query(Query::new(o.clone(), RecordType::DNSKEY));
    key.add_answers(o_zone.rrset_with_sigs(&o, RecordType::DNSKEY));
    let main = query.clone();
    let up = Upstream::new(move |q: &Query| {
        if q.query_type == RecordType::DNSKEY && q.name == o {
            return Some(key.clone());
        }
        if q.name == main.name && q.query_type == main.query_type {
            return Some(m.clone());
        }
        None
    });
    l.eval();
    let e = vzone::validate(rt, up, vzone::anchors(&["z.", "o."]), query, None);
    l.outcome(&format!("e2e:foreign-zone-nsec3:{}", e.class()));
    if e.is_secure() {
        l.violation(
            "unsound-e2e:NODATA:record-zone-does-not-enclose-qname:unrelated:nosoa",
            "NODATA for `z. NS` (false: the apex owns NS) is accepted as Secure end to end on an NSEC3 record `<H(z.)>.o.` published and signed by the unrelated zone o. (response without SOA)",
            || json!({"level": "e2e-foreign", "zone": ZoneSpec::new("z.", &[]).to_json(), "qname": "z.", "qtype": 2, "nsec3_owner": owner.to_string(), "signed_by": "o.", "soa": null}),
        );
    }
}

/// iterations 0..3 x (soft, hard) in {(1,2),(0,0),(2,2)}: above soft never Secure, above hard Bogus.
fn iteration_limits(spec: &ZoneSpec, rt: &tokio::runtime::Runtime, l: &mut Local, cnt: &Counters) {
    for it in 0u16..=3 {
        let signing = Signing::Nsec3 { iterations: it, salt: vec![0xab], opt_out: false };
        let Ok(w) = build_world(spec, &signing) else { continue };
        let masks = w.masks();
        for (soft, hard) in [(1u16, 2u16), (0, 0), (2, 2)] {
            for qn in &w.qnames {
                let qname = Name::parse(qn);
                if !qname.at_or_below(&w.apex) {
                    continue;
                }
                let hq = vzone::hname(qn);
                for t in [rz::T_A, rz::T_DS] {
                    let query = Query::new(hq.clone(), RecordType::from(t));
                    for claim in w.claims(&qname, t) {
                        let answers = w.expanded_answer(&claim, &hq, true);
                        for &mask in &masks {
                            let sub: Vec<(&HName, &NSEC3)> = (0..w.recs.len()).filter(|i| mask >> i & 1 == 1).map(|i| (&w.recs[i].0, &w.recs[i].1)).collect();
                            l.eval();
                            let v = verify_nsec3(&query, Some(&w.origin), rcode_of(&claim), &answers, &sub, soft, hard);
                            let class = if it > hard { "above-hard" } else if it > soft { "above-soft" } else { "within" };
                            l.outcome(&format!("limits:{class}:{}", format!("{v:?}").to_lowercase()));
                            let bad = if it > hard && v != Proof::Bogus {
                                Some(format!("iterations:above-hard-limit:not-bogus:{}", format!("{v:?}").to_lowercase()))
                            } else if it > soft && v == Proof::Secure {
                                Some("iterations:above-soft-limit:secure".to_string())
                            } else {
                                None
                            };
                            let full = mask == *masks.last().unwrap();
                            if bad.is_some() || (full && fnv_str(&format!("{}|{qn}|{t}|{claim:?}|{soft}", w.text)) % 8 == 0) {
                                // the same configuration through the real handle
                                let e = e2e_case(&w, rt, &query, &Some(w.origin.clone()), &claim, mask, Some((soft, hard)));
                                cnt.bound.fetch_add(1, Ordering::Relaxed);
                                if !e2e_agrees(v, &e) {
                                    l.violation(
                                        &format!("binding:limits:hook={}:e2e={}", format!("{v:?}").to_lowercase(), e.class()),
                                        "iteration limits: decision-level verdict and real handle differ",
                                        || json!({"level": "limits", "zone": spec.to_json(), "iterations": it, "soft": soft, "hard": hard, "qname": qn, "qtype": t, "claim": claim_json(&claim), "mask": mask}),
                                    );
                                } else {
                                    l.outcome(&format!("bound:limits:{}", e.class()));
                                }
                            }
                            if let Some(k) = bad {
                                l.violation(&k, &format!("iterations={it} soft={soft} hard={hard}: verdict {v:?}"), || {
                                    json!({"level": "limits", "zone": spec.to_json(), "iterations": it, "soft": soft, "hard": hard, "qname": qn, "qtype": t, "claim": claim_json(&claim), "mask": mask})
                                });
                            }
                        }
                    }
                }
            }
        }
    }
}

// ------------------------------------------------------------------------------------------

/// Parameters at the boundaries of their integer widths and of the DEFAULT limits (soft 100,
/// hard 500, RFC 9276): iterations 100 / 101 / 500 / 501 / 65535 and a 255-octet salt, zones
/// signed by the real `nsec3_zone` with exactly those parameters.
///  * iterations <= 100 (and the 255-octet salt): the full decision-level enumeration (`run_claim`);
///  * 101..=500: never Secure; 501 and 65535: Bogus — every subset, every claim;
///  * limits (65535, 65535) with iterations 65535: not above any limit, judged like any other
///    zone (Secure => claim true), full chain only (each call hashes ~6 names 65536 times).
const BOUNDARY_SETS: usize = 7;

/// `which`: one of the [`BOUNDARY_SETS`] parameter sets (None: all, replay). `top_all_qnames`: the
/// limits-65535 part asks every query name (thorough) or only the apex, U(1) and a.a.z. (quick; the
/// ~400,000 SHA-1 rounds per call make this the longest serial stretch of the whole check).
fn boundary_params(spec: &ZoneSpec, top_limits: bool, top_all_qnames: bool, which: Option<usize>, rt: &tokio::runtime::Runtime, l: &mut Local, cnt: &Counters) {
    let long_salt: Vec<u8> = (0..255u32).map(|i| (i * 7 + 1) as u8).collect();
    let sets: [(u16, Vec<u8>); BOUNDARY_SETS] = [(100u16, vec![]), (0, long_salt.clone()), (1, long_salt), (101, vec![]), (500, vec![]), (501, vec![]), (65535, vec![0xab])];
    for (it, salt) in sets.into_iter().enumerate().filter(|(i, _)| which.map(|w| w == *i).unwrap_or(true)).map(|(_, s)| s) {
        let signing = Signing::Nsec3 { iterations: it, salt: salt.clone(), opt_out: false };
        let Ok(mut w) = build_world(spec, &signing) else {
            l.violation("zone-build-failed", "boundary parameters", || json!({"zone": spec.to_json(), "signing": signing.tag()}));
            continue;
        };
        l.outcome(&format!("boundary:zone:iterations={it}:salt-len={}", salt.len()));
        w.qtypes = vec![rz::T_A, rz::T_DS];
        if it <= SOFT {
            if !check_chain(&w, l) {
                continue;
            }
            let masks = w.masks();
            for qn in w.qnames.clone() {
                let name = Name::parse(&qn);
                for t in [rz::T_A, rz::T_DS] {
                    for claim in w.claims(&name, t) {
                        run_claim(&w, &qn, t, &claim, None, &masks, rt, l, cnt);
                    }
                }
            }
            continue;
        }
        let masks = w.masks();
        for qn in &w.qnames {
            let qname = Name::parse(qn);
            if !qname.at_or_below(&w.apex) {
                continue;
            }
            let hq = vzone::hname(qn);
            for t in [rz::T_A, rz::T_DS] {
                let query = Query::new(hq.clone(), RecordType::from(t));
                for claim in w.claims(&qname, t) {
                    let answers = w.expanded_answer(&claim, &hq, true);
                    for &mask in &masks {
                        let sub: Vec<(&HName, &NSEC3)> = (0..w.recs.len()).filter(|i| mask >> i & 1 == 1).map(|i| (&w.recs[i].0, &w.recs[i].1)).collect();
                        l.eval();
                        let v = match vcore::catch(|| verify_nsec3(&query, Some(&w.origin), rcode_of(&claim), &answers, &sub, SOFT, HARD)) {
                            Ok(v) => v,
                            Err(p) => {
                                l.violation(&format!("panic:{}", vcore::short_loc(&p.loc)), &p.msg, || json!({"level": "boundary", "zone": spec.to_json(), "iterations": it, "qname": qn, "qtype": t, "mask": mask}));
                                continue;
                            }
                        };
                        l.outcome(&format!("boundary:iterations={it}:{}", format!("{v:?}").to_lowercase()));
                        let bad = if it > HARD && v != Proof::Bogus {
                            Some(format!("iterations:above-hard-limit:not-bogus:{}", format!("{v:?}").to_lowercase()))
                        } else if it > SOFT && v == Proof::Secure {
                            Some("iterations:above-soft-limit:secure".to_string())
                        } else {
                            None
                        };
                        if let Some(k) = bad {
                            l.violation(&k, &format!("iterations={it} with the default limits soft={SOFT} hard={HARD}: verdict {v:?}"), || {
                                json!({"level": "boundary", "zone": spec.to_json(), "iterations": it, "soft": SOFT, "hard": HARD, "qname": qn, "qtype": t, "claim": claim_json(&claim), "mask": mask})
                            });
                        }
                    }
                    // limits at the top of u16: iterations 65535 is not above them
                    if it == 65535 && top_limits && (top_all_qnames || qname.num_labels() <= w.apex.num_labels() + 1 || qn == "a.a.z.") {
                        let mask = *masks.last().unwrap();
                        let sub: Vec<(&HName, &NSEC3)> = (0..w.recs.len()).filter(|i| mask >> i & 1 == 1).map(|i| (&w.recs[i].0, &w.recs[i].1)).collect();
                        l.eval();
                        match vcore::catch(|| verify_nsec3(&query, Some(&w.origin), rcode_of(&claim), &answers, &sub, 65535, 65535)) {
                            Err(p) => l.violation(&format!("panic:{}", vcore::short_loc(&p.loc)), &p.msg, || json!({"level": "boundary", "zone": spec.to_json(), "iterations": it, "soft": 65535, "hard": 65535, "qname": qn, "qtype": t})),
                            Ok(v) => {
                                l.outcome(&format!("boundary:limits=65535:{}", format!("{v:?}").to_lowercase()));
                                let tr = dn::truth(&[w.rz.clone()], &qname, t, &claim);
                                if v == Proof::Secure && tr.is_err() {
                                    // (a false claim accepted here is the same defect as in the main enumeration, where it
                                    // is keyed by its mechanism; only the count is kept)
                                    l.outcome("boundary:limits=65535:secure-false-claim");
                                }
                            }
                        }
                    }
                }
            }
        }
    }
}

/// Response codes other than NOERROR / NXDOMAIN and NXDOMAIN next to a wildcard-expanded answer:
/// never Secure, whatever NSEC3 set comes along.
fn rcode_variants(world: &World, rt: &tokio::runtime::Runtime, l: &mut Local, cnt: &Counters) {
    let n = world.recs.len();
    let masks = world.masks();
    let rcodes = [ResponseCode::ServFail, ResponseCode::Refused, ResponseCode::FormErr, ResponseCode::NotImp, ResponseCode::YXDomain, ResponseCode::NotAuth, ResponseCode::BADVERS];
    for qn in &world.qnames {
        let qname = Name::parse(qn);
        let hq = vzone::hname(qn);
        for t in [rz::T_A, rz::T_DS] {
            let query = Query::new(hq.clone(), RecordType::from(t));
            for claim in world.claims(&qname, t) {
                let answers = world.expanded_answer(&claim, &hq, true);
                let mut variants: Vec<(String, ResponseCode)> = rcodes.iter().map(|r| (format!("rcode-{r:?}").to_uppercase(), *r)).collect();
                if matches!(claim, Claim::Wildcard { .. }) {
                    variants.push(("NXDOMAIN-WITH-ANSWER".into(), ResponseCode::NXDomain));
                }
                for (tag, rcode) in &variants {
                    for soa in [Some(world.origin.clone()), None] {
                        for &mask in &masks {
                            let sub: Vec<(&HName, &NSEC3)> = (0..n).filter(|i| mask >> i & 1 == 1).map(|i| (&world.recs[i].0, &world.recs[i].1)).collect();
                            l.eval();
                            let v = match vcore::catch(|| verify_nsec3(&query, soa.as_ref(), *rcode, &answers, &sub, SOFT, HARD)) {
                                Ok(v) => v,
                                Err(p) => {
                                    l.violation(&format!("panic:{}", vcore::short_loc(&p.loc)), &p.msg, || case_json(world, qn, t, &claim, &soa, mask));
                                    continue;
                                }
                            };
                            l.outcome(&format!("variant:{}:{}", if tag.starts_with("RCODE") { "other-rcode" } else { tag.as_str() }, format!("{v:?}").to_lowercase()));
                            if v == Proof::Secure {
                                // confirm end to end (the first per worker and key only: the verdict is part of the key)
                                let e2e = if world.ref_chain { "n/a".to_string() } else { e2e_case_rcode(world, rt, &query, &soa, &claim, mask, None, Some(*rcode)).class() };
                                l.violation(&format!("unsound:{tag}:{}", claim.tag()), &format!("{tag}: a response for {qn} {} with this rcode is Secure on NSEC3 records (end to end: {e2e})", rz::type_name(t)), || {
                                    let mut j = case_json(world, qn, t, &claim, &soa, mask);
                                    j["level"] = json!("variant");
                                    j["variant"] = json!(tag);
                                    j
                                });
                            }
                        }
                    }
                }
                if !world.ref_chain && fnv_str(&format!("{}|{qn}|{t}|{claim:?}|variant", world.text)) % 16 == 0 {
                    let e = e2e_case_rcode(world, rt, &query, &Some(world.origin.clone()), &claim, (1u32 << n) - 1, None, Some(ResponseCode::ServFail));
                    cnt.bound.fetch_add(1, Ordering::Relaxed);
                    l.outcome(&format!("variant:e2e-servfail:{}", if e.is_secure() { "secure" } else { "not-secure" }));
                    if e.is_secure() {
                        l.violation(&format!("unsound-e2e:RCODE-SERVFAIL:{}", claim.tag()), "a SERVFAIL response with NSEC3 records is accepted as Secure end to end", || case_json(world, qn, t, &claim, &None, (1u32 << n) - 1));
                    }
                }
            }
        }
    }
}

/// Codec family (producer independence): NSEC3 RDATA octets of the reference encoder
/// (`vref::denial::nsec3_rdata_wire`, RFC 5155 3.2) versus hickory's: hickory must emit exactly
/// those octets and decode them (inside a reference-built message) to the same fields. Flags
/// 0/1, iterations 0/1/65535, salt lengths 0/1/255, type sets reaching windows 0/1/4/128/255.
fn codec_family(l: &mut Local) {
    use hickory_proto::serialize::binary::BinEncodable;
    let alphabet: [u16; 12] = [1, 2, 5, 6, 43, 46, 51, 255, 256, 1234, 32768, 65535];
    let mut sets: Vec<BTreeSet<u16>> = vec![BTreeSet::new()];
    for a in alphabet {
        sets.push([a].into_iter().collect());
        for b in alphabet {
            if a < b {
                sets.push([a, b].into_iter().collect());
            }
        }
    }
    for m in 0u32..64 {
        sets.push((0..6).filter(|i| m >> i & 1 == 1).map(|i| alphabet[i * 2]).collect());
    }
    let long_salt: Vec<u8> = (0..255u32).map(|i| (i * 3 + 5) as u8).collect();
    let next: Vec<u8> = (1..=20u8).collect();
    for flags in [0u8, 1] {
        for iterations in [0u16, 1, 65535] {
            for salt in [vec![], vec![0xab], long_salt.clone()] {
                for types in &sets {
                    l.eval();
                    let want = dn::nsec3_rdata_wire(1, flags, iterations, &salt, &next, types);
                    let n3 = NSEC3::new(Default::default(), flags == 1, iterations, salt.clone(), next.clone(), types.iter().map(|t| RecordType::from(*t)));
                    let case = || json!({"level": "codec", "flags": flags, "iterations": iterations, "salt_len": salt.len(), "types": types.iter().collect::<Vec<_>>()});
                    match n3.to_bytes() {
                        Ok(got) if got == want => l.outcome("codec:nsec3-emit:as-reference"),
                        Ok(got) => l.violation("codec:nsec3-emit-differs", &format!("NSEC3 RDATA emitted as {got:02x?}, RFC 5155 3.2 gives {want:02x?}"), case),
                        Err(e) => l.violation("codec:nsec3-emit-fails", &e.to_string(), case),
                    }
                    let owner = [b"0p9mhaveqvm6t7vbl5lop2u3t2rp3tom".to_vec(), b"z".to_vec()];
                    let msg = dn::message_with_authority_record(&[b"q".to_vec(), b"z".to_vec()], 1, &owner, rz::T_NSEC3, 300, &want);
                    match Message::from_vec(&msg) {
                        Err(e) => l.violation("codec:nsec3-decode-fails", &e.to_string(), case),
                        Ok(m) => {
                            let ok = m.authorities.len() == 1
                                && match &m.authorities[0].data {
                                    hickory_proto::rr::RData::DNSSEC(hickory_proto::dnssec::rdata::DNSSECRData::NSEC3(d)) => {
                                        let got: BTreeSet<u16> = d.type_set().iter().map(u16::from).collect();
                                        got == *types && d.opt_out() == (flags == 1) && d.iterations() == iterations && d.salt() == salt.as_slice() && d.next_hashed_owner_name() == next.as_slice()
                                    }
                                    _ => false,
                                };
                            if ok {
                                l.outcome("codec:nsec3-decode:as-reference");
                            } else {
                                l.violation("codec:nsec3-decode-differs", &format!("reference NSEC3 RDATA decodes to {:?}", m.authorities.first().map(|r| r.data.to_string())), case);
                            }
                        }
                    }
                }
            }
        }
    }
}

fn run_world(world: &mut World, rt: &tokio::runtime::Runtime, l: &mut Local, cnt: &Counters, sample: bool) {
    if !check_chain(world, l) {
        // The records the real signer published do not describe the zone (a signer defect, reported above).
        // The decision procedure is still exercised on this zone: with the chain the REFERENCE builder
        // (vref::denial::nsec3_chain, RFC 5155 7.1) produces for it - an input hickory did not produce.
        // Decision level only: there are no signatures for these records.
        if !cnt.thorough && world.spec.owners.len() > 1 {
            // quick: only the zones with <= 1 owner are run on the reference chain
            l.outcome("skipped:defective-chain");
            return;
        }
        l.outcome("defective-chain:replaced-by-reference-chain");
        let (salt, iterations, opt_out) = params(&world.signing);
        world.recs = dn::nsec3_chain(&world.rz, &salt, iterations, opt_out)
            .into_iter()
            .map(|r| {
                let owner = world.origin.prepend_label(dn::base32hex(&r.hash)).unwrap();
                let n3 = NSEC3::new(Default::default(), r.opt_out, r.iterations, r.salt.clone(), r.next.clone(), r.types.iter().map(|t| RecordType::from(*t)));
                (owner, n3, r)
            })
            .collect();
        world.ref_chain = true;
    }
    let world: &World = world;
    for sh in world.rz.deep_shapes() {
        l.outcome(sh);
    }
    let masks = world.masks();
    if world.recs.len() > 7 || world.max_subset.is_some() {
        l.outcome("subsets-capped-at-size-3");
    }
    // do the hash order and the canonical name order differ for the names of this zone?
    {
        let mut names: Vec<Name> = world.rz.nodes.keys().filter(|n| n.at_or_below(&world.apex)).cloned().collect();
        names.sort();
        let by_hash: Vec<Vec<u8>> = names.iter().map(|n| world.hash(n)).collect();
        let mut sorted = by_hash.clone();
        sorted.sort();
        l.outcome(if sorted != by_hash { "zone:hash-order-differs-from-name-order" } else { "zone:hash-order-equals-name-order" });
    }
    for qn in &world.qnames {
        let name = Name::parse(qn);
        for &t in &world.qtypes {
            for claim in world.claims(&name, t) {
                run_claim(world, qn, t, &claim, None, &masks, rt, l, cnt);
            }
        }
    }
    if !world.ref_chain {
        completeness(world, rt, l, None);
    }
    // other rcodes / NXDOMAIN with answer: zones with <= 1 owner (quick), every zone of the full-treatment family (thorough)
    if world.spec.owners.len() <= 1 || (cnt.thorough && world.max_subset.is_none()) {
        rcode_variants(world, rt, l, cnt);
    }
    if sample {
        l.sample(json!({"world": world.text, "nsec3s": describe(world, (1u32 << world.recs.len()) - 1), "qnames": world.qnames.len(), "subsets": masks.len()}));
    }
}

/// quick: (0,-) without opt-out for every zone, (1,ab) with opt-out for zones with an insecure
/// delegation; thorough: both parameter sets, each with and (where applicable) without opt-out.
fn signings_for(spec: &ZoneSpec, thorough: bool) -> Vec<Signing> {
    let insecure = spec.owners.iter().any(|(_, k)| matches!(k, Kind::Ns | Kind::NsGlue));
    let mut v = vec![Signing::Nsec3 { iterations: 0, salt: vec![], opt_out: false }];
    if thorough {
        v.push(Signing::Nsec3 { iterations: 1, salt: vec![0xab], opt_out: false });
    }
    if insecure {
        v.push(Signing::Nsec3 { iterations: 1, salt: vec![0xab], opt_out: true });
        if thorough {
            v.push(Signing::Nsec3 { iterations: 0, salt: vec![], opt_out: true });
        }
    }
    v
}

/// Query types of a two-owner zone in the quick tier: A, TXT and DS always; NS only if the zone has a
/// delegation, CNAME only if it has a CNAME (otherwise both behave like TXT everywhere but at the apex,
/// and the apex is covered by the zones with <= 1 owner).
fn quick_qtypes(spec: &ZoneSpec) -> Vec<u16> {
    let mut v = vec![rz::T_A, rz::T_TXT, rz::T_DS];
    if spec.owners.iter().any(|(_, k)| k.is_delegation()) {
        v.push(rz::T_NS);
    }
    if spec.owners.iter().any(|(_, k)| matches!(k, Kind::CnameA | Kind::CnameB | Kind::CnameAA | Kind::CnameOut)) {
        v.push(rz::T_CNAME);
    }
    v
}

fn main() {
    // a stack overflow / abort in the code under test must become a verdict, not a dead check
    vcore::supervise("C09");
    vcore::install_log_evaluation(); // logging is part of the environment: log arguments are evaluated as under a real subscriber
    let ctx = Ctx::from_args("C09", "exploration");
    let thorough = !ctx.quick();

    let mut bad = rz::self_test();
    bad.extend(dn::self_test());
    if !bad.is_empty() {
        for b in &bad {
            eprintln!("reference self-test failed: {b}");
        }
        vcore::machinery_exit("vref::zone / vref::denial self-test against the RFC examples failed");
    }
    let cnt = Counters { bound: AtomicU64::new(0), thorough };

    if let Some((_key, case)) = ctx.replay_case() {
        let spec = ZoneSpec::from_json(&case["zone"]).unwrap_or_else(|| vcore::machinery_exit("replay without zone"));
        let rt = vsim::rt();
        ctx.with_local(|l| match case["level"].as_str() {
            Some("limits") => iteration_limits(&spec, &rt, l, &cnt),
            Some("boundary") => boundary_params(&spec, true, true, None, &rt, l, &cnt),
            Some("e2e-foreign") => e2e_foreign_zone_nsec3(&rt, l),
            Some("ctor") => ctor_paths(&rt, l, None),
            Some("limits-builder") => limits_through_builder(case["iterations"].as_u64().unwrap_or(0) as u16, &rt, l),
            Some("reowned") => {
                let w = build_world(&spec, &Signing::from_tag(case["signing"].as_str().unwrap_or("nsec3:i0:s-:noopt")).unwrap()).unwrap();
                reowned(&spec, &w, l);
            }
            Some("mixture") => {
                let a = build_world(&spec, &Signing::from_tag(case["a"].as_str().or(case["signing"].as_str()).unwrap_or("nsec3:i0:s-:noopt")).unwrap()).unwrap();
                let b = build_world(&spec, &Signing::from_tag(case["b"].as_str().unwrap_or("nsec3:i1:sab:noopt")).unwrap()).unwrap();
                mixtures(&spec, &a, &b, l);
            }
            level => {
                let signing = Signing::from_tag(case["signing"].as_str().unwrap_or("nsec3:i0:s-:noopt")).unwrap_or_else(|| vcore::machinery_exit("bad signing tag"));
                let world = build_world(&spec, &signing).unwrap_or_else(|e| vcore::machinery_exit(&e));
                match level {
                    Some("chain") => {
                        check_chain(&world, l);
                    }
                    Some("completeness") => {
                        let q = case["qname"].as_str().unwrap_or("z.").to_string();
                        completeness(&world, &rt, l, Some((&q, case["qtype"].as_u64().unwrap_or(1) as u16)));
                    }
                    _ => {
                        let claim = claim_from_json(&case["claim"]);
                        let qtype = case["qtype"].as_u64().unwrap_or(1) as u16;
                        let soa = case["soa"].as_str().map(vzone::hname);
                        let mask = case["mask"].as_u64().unwrap_or(1) as u32;
                        run_claim(&world, case["qname"].as_str().unwrap_or("z."), qtype, &claim, Some((soa, mask)), &[mask], &rt, l, &cnt);
                    }
                }
            }
        });
        ctx.finish(false);
    }

    ctx.set_rule(
        "every zone of the universe (apex + <=K owners of U(d), labels {a,b,*}; kinds A, A+TXT, CNAME->a.z., NS, NS+glue, NS+DS [quick, d=2,K<=2]; thorough: + TXT, CNAME->a.a.z. for d=2,K<=2, \
         and the larger zones d=2,K=3 over {A,CNAME,NS} and d=3,K<=2 over {A,CNAME,NS,NS+DS} with qtypes {A,DS} and subsets of size <=3; both tiers, same treatment: the deep slice over {a.z,a.a.z,a.a.a.z,b.a.a.z,*.a.z,*.a.a.z} with an owner 3 labels down - quick K<=2 over {A,NS,NS+DS} and K=3 of kind A, thorough K=3 over {A,NS,NS+DS}; \
         deep zones are also asked 4 names one label below the branch; quick thins the two-owner zones: qtypes NS/CNAME only where the zone has a delegation/CNAME) signed by the real nsec3_zone: quick (0,-) without opt-out and, for zones with an insecure delegation, (1,ab) with opt-out; \
         thorough both parameter sets with and without opt-out; x every qname of {apex, U(3), x.o., names below cuts} x qtype {A,TXT,DS,NS,CNAME} x claim {NXDOMAIN, NODATA, expansion of each \
         published wildcard RRset} x soa {apex, absent} x EVERY non-empty subset of the zone's NSEC3 records (>7 records: subsets of size <=3) -> verify_nsec3; \
         oracle: Secure => claim true in the zone (vref::denial::truth) and the subset is the RFC 5155 section 8 proof with opt-out only for DS (nsec3_proves). \
         Plus rcodes other than NOERROR/NXDOMAIN and NXDOMAIN next to a wildcard answer (never Secure), an NSEC3 codec family (reference octets vs hickory: emit and decode), \
         zones whose real chain is defective run on the REFERENCE-produced chain (decision level), parameter mixtures (iterations only / salt only / both) and records re-owned below descendants {a.z.,b.z.,a.a.z.,*.z.} / the ancestor (root) / an unrelated zone of the SOA owner, whole subsets and single members (never Secure), iterations 0..3 x limits {(1,2),(0,0),(2,2)}, boundary parameters (iterations 100/101/500/501/65535 against the default limits 100/500, 255-octet salt, limits 65535/65535), completeness of EVERY DO=1 \
         server answer (negative, wildcard, positive, CNAME chains) through the real DnssecDnsHandle (via the wire codec), each validated twice on the same handle. Non-trivial = distinct (world, qname, qtype) for which some enumerated (claim, soa, subset) has a false claim or a valid proof of >= 2 records, plus each completeness case.",
    );
    ctx.assume("vref::zone + vref::denial (self-tested on every run against RFC 4592, RFC 4034 6.1, RFC 4035 app. A/B, RFC 5155 app. A hash vectors and app. B)");
    ctx.assume("the attacker only has genuine signed records of the zone (forged signatures are C06's business); SHA-1 and Ed25519 via ring; no hash collisions among the <= 60 names involved");
    ctx.assume("completeness is judged only where the server's answer has the shape the reference lookup expects (C10 owns the other cases)");

    let kinds8 = [Kind::A, Kind::Txt, Kind::ATxt, Kind::CnameA, Kind::CnameAA, Kind::Ns, Kind::NsGlue, Kind::NsDs];
    let kinds6 = [Kind::A, Kind::ATxt, Kind::CnameA, Kind::Ns, Kind::NsGlue, Kind::NsDs];
    let kinds4 = [Kind::A, Kind::CnameA, Kind::Ns, Kind::NsDs];
    let kinds3 = [Kind::A, Kind::CnameA, Kind::Ns];
    // (family id, zone): family 0 = full treatment (all 5 qtypes, all subsets); family 1 = the larger
    // zones of the thorough tier (qtypes {A, DS}, subsets of size <= 3: the decision procedure uses at
    // most three records - closest encloser, next closer, wildcard - so every minimal accepted set has <= 3)
    let mut specs: Vec<ZoneSpec> = vzone::family("z.", &vzone::universe(2), 2, if thorough { &kinds8[..] } else { &kinds6[..] });
    let full = specs.len();
    if thorough {
        specs.extend(vzone::family("z.", &vzone::universe(2), 3, &kinds3).into_iter().filter(|s| s.owners.len() == 3));
        specs.extend(vzone::family("z.", &vzone::universe(3), 2, &kinds4).into_iter().filter(|s| s.owners.iter().any(|(o, _)| o.matches('.').count() == 4)));
    }
    // the deep slice (both tiers, family-1 treatment): one branch three labels deep - empty non-terminals whose first
    // descendant is two or more labels below them, an empty non-terminal above another, wildcards below them
    // (closest-encloser arithmetic over >= 2 missing levels). quick: <= 2 owners over {A, NS, NS+DS} and 3 owners of
    // kind A; thorough (which has the <= 2 owner zones in the d=3 family above): 3 owners over {A, NS, NS+DS}
    {
        let deep_kinds = [Kind::A, Kind::Ns, Kind::NsDs];
        let deep = if thorough { vzone::deep_family(&[], Some(&deep_kinds)) } else { vzone::deep_family(&deep_kinds, Some(&[Kind::A])) };
        ctx.set("zones_deep_slice", json!(deep.len()));
        specs.extend(deep);
    }
    let mut jobs: Vec<(usize, Signing)> = vec![];
    for (i, s) in specs.iter().enumerate() {
        // the larger zones: one parameter set (plus opt-out where there is an insecure delegation)
        for sg in signings_for(s, thorough && i < full) {
            jobs.push((i, sg));
        }
    }
    ctx.set("zones", json!(specs.len()));
    ctx.set("signed_worlds", json!(jobs.len()));

    let n = jobs.len() as u64;
    let stride = (n / 10).max(1);
    ctx.case_timeout_s.store(600, Ordering::Relaxed);
    let t0 = std::time::Instant::now();
    let mut phases: Vec<(&str, f64)> = vec![];
    ctx.par_run_init(
        n,
        1,
        |_| vsim::rt(),
        |i, l, rt| {
            let (si, sg) = &jobs[i as usize];
            match build_world(&specs[*si], sg) {
                Ok(mut w) => {
                    if *si >= full {
                        w.qtypes = vec![rz::T_A, rz::T_DS];
                        w.max_subset = Some(3);
                    } else if !thorough && specs[*si].owners.len() >= 2 {
                        // quick, two-owner zones: depth moved to thorough, no dimension dropped - the query types
                        // that no record of the zone can tell apart from TXT are left out (zones with <= 1 owner: all five)
                        w.qtypes = quick_qtypes(&specs[*si]);
                    }
                    run_world(&mut w, rt, l, &cnt, i % stride == 0 || i == n - 1)
                }
                Err(e) => l.violation("zone-build-failed", &e, || json!({"zone": specs[*si].to_json(), "signing": sg.tag()})),
            }
        },
    );

    phases.push(("worlds", t0.elapsed().as_secs_f64()));
    // parameter mixtures and wrong-zone owners: zones with <= 1 owner (quick) / <= 2 owners, every 3rd (thorough)
    let mix: Vec<&ZoneSpec> = specs.iter().enumerate().filter(|(i, s)| s.owners.len() <= 1 || (thorough && s.owners.len() == 2 && i % 3 == 0)).map(|(_, s)| s).collect();
    ctx.set("mixture_zones", json!(mix.len()));
    ctx.par_run(mix.len() as u64, 1, |i, l| {
        let s = mix[i as usize];
        let a = build_world(s, &Signing::Nsec3 { iterations: 0, salt: vec![], opt_out: false });
        let b = build_world(s, &Signing::Nsec3 { iterations: 1, salt: vec![0xab], opt_out: false });
        let c = build_world(s, &Signing::Nsec3 { iterations: 1, salt: vec![], opt_out: false });
        if let (Ok(a), Ok(b), Ok(c)) = (a, b, c) {
            mixtures(s, &a, &b, l);
            mixtures(s, &b, &c, l); // same iterations, different salt
            mixtures(s, &a, &c, l); // same salt, different iterations
            reowned(s, &a, l);
            reowned(s, &b, l);
        }
    });

    phases.push(("mixtures+reowned", t0.elapsed().as_secs_f64()));
    // one end-to-end confirmation of the "records of a zone that does not enclose the query name" findings
    {
        let rt = vsim::rt();
        ctx.with_local(|l| e2e_foreign_zone_nsec3(&rt, l));
    }

    // iteration limits: zones with <= 1 owner
    let lim: Vec<&ZoneSpec> = specs.iter().filter(|s| s.owners.len() <= 1).collect();
    ctx.set("limit_zones", json!(lim.len()));
    ctx.par_run_init(lim.len() as u64, 1, |_| vsim::rt(), |i, l, rt| iteration_limits(lim[i as usize], rt, l, &cnt));

    phases.push(("limits", t0.elapsed().as_secs_f64()));
    // parameters at the integer-width / default-limit boundaries: the empty zone and the zones with one
    // owner of kind A (quick), every zone with <= 1 owner (thorough)
    let bnd: Vec<&ZoneSpec> = specs.iter().filter(|s| s.owners.is_empty() || (s.owners.len() == 1 && (thorough || s.owners[0].1 == Kind::A))).collect();
    ctx.set("boundary_zones", json!(bnd.len()));
    // (the limits-65535 part hashes ~6 names 65536 times per call: the empty zone only; thorough: also the one-owner A zones)
    // one task per (zone, parameter set), the slow 65535 set first
    ctx.par_run_init((bnd.len() * BOUNDARY_SETS) as u64, 1, |_| vsim::rt(), |i, l, rt| {
        let s = bnd[i as usize % bnd.len()];
        let set = BOUNDARY_SETS - 1 - i as usize / bnd.len();
        boundary_params(s, s.owners.is_empty() || (thorough && s.owners[0].1 == Kind::A), thorough, Some(set), rt, l, &cnt)
    });

    phases.push(("boundary", t0.elapsed().as_secs_f64()));
    ctx.set("phase_end_s", json!(phases.iter().map(|(n, t)| json!([n, (t * 10.0).round() / 10.0])).collect::<Vec<_>>()));
    // construction paths (3 zones x 2 parameter sets x 3 from-config paths)
    ctx.par_run_init(CTOR_CASES as u64, 1, |_| vsim::rt(), |i, l, rt| ctor_paths(rt, l, Some(i as usize)));
    // iteration limits through the validator's builder (13 iteration counts x 36 limit pairs, end to end)
    ctx.par_run_init(BUILDER_ITERATIONS.len() as u64, 1, |_| vsim::rt(), |i, l, rt| limits_through_builder(BUILDER_ITERATIONS[i as usize], rt, l));
    ctx.with_local(codec_family);
    if WIRE_FAILURES.load(Ordering::Relaxed) > 0 {
        ctx.with_local(|l| {
            l.violation("codec:response-does-not-survive-the-wire", &format!("{} scripted responses built from genuine records could not be encoded and decoded again by hickory's own codec", WIRE_FAILURES.load(Ordering::Relaxed)), || json!({"level": "codec"}))
        });
    }
    ctx.set("traces_validated_against_impl", json!(cnt.bound.load(Ordering::Relaxed)));
    if ctx.outcome_count("reference-inconsistent") > 0 {
        ctx.machinery_failure("vref::denial is inconsistent: nsec3_proves accepted a claim that truth() calls false (see stderr)");
    }
    let mut need: BTreeMap<&str, &str> = BTreeMap::new();
    need.insert("verdict:NXDOMAIN:secure:true-claim", "no true NXDOMAIN was ever accepted");
    need.insert("verdict:NODATA:secure:true-claim", "no true NODATA was ever accepted");
    need.insert("verdict:WILDCARD:secure:true-claim", "no true wildcard expansion was ever accepted");
    need.insert("verdict:NXDOMAIN:bogus:false-claim", "no false NXDOMAIN was ever rejected");
    need.insert("verdict:NODATA:bogus:false-claim", "no false NODATA was ever rejected");
    need.insert("complete:NXDOMAIN", "no server NXDOMAIN proof was accepted end to end");
    need.insert("complete:NODATA-other", "no server NODATA proof was accepted end to end");
    need.insert("bound:secure", "no Secure decision was replayed end to end");
    need.insert("chain:as-rfc5155", "no chain matched the reference chain");
    need.insert("mixture:bogus", "no parameter mixture was exercised");
    need.insert("variant:other-rcode:bogus", "no response code other than NOERROR/NXDOMAIN was exercised");
    need.insert("variant:e2e-servfail:not-secure", "no SERVFAIL response was replayed end to end");
    need.insert("codec:nsec3-emit:as-reference", "the NSEC3 codec family did not run");
    need.insert("codec:nsec3-decode:as-reference", "the NSEC3 codec family did not run");
    need.insert("codec:genuine-nsec3-emit:as-reference", "no genuine NSEC3 was compared with the reference octets");
    need.insert("second-validation:same-verdict", "no server answer was validated a second time");
    need.insert("defective-chain:replaced-by-reference-chain", "no zone was run on the reference-produced chain");
    need.insert("limits-builder:hard<soft:hard-set:bogus", "no hard limit below the default soft limit was configured through the builder");
    need.insert("limits-builder:hard<soft:both-set:bogus", "no hard limit below a configured soft limit was configured through the builder");
    need.insert("limits-builder:hard>soft:both-set:insecure", "no iteration count between the configured limits was validated through the builder");
    need.insert("limits-builder:hard>soft:none-set:secure", "the default limits were never exercised through the builder");
    need.insert("ctor:chain:as-reference", "no chain of a zone built through a from-config path matched the reference chain");
    need.insert("ctor:completeness-run", "no zone built through a from-config path was validated end to end");
    need.insert("shape:ent-first-descendant-2-below", "no zone had an empty non-terminal whose first descendant is two or more labels below it");
    need.insert("shape:ent-above-ent", "no zone had an empty non-terminal directly above another one");
    need.insert("shape:wildcard-below-ent-chain", "no zone had a wildcard below a chain of two empty non-terminals");
    need.insert("reowned:root-owner:bogus", "an NSEC3 record owned by the root name was never exercised");
    need.insert("reowned:descendant:soa:bogus", "no record re-owned below a descendant of the SOA owner was exercised");
    need.insert("reowned:ancestor:soa:bogus", "no record re-owned below an ancestor of the SOA owner was exercised");
    need.insert("reowned:unrelated:soa:bogus", "no record re-owned below an unrelated zone was exercised");
    need.insert("limits:above-hard:bogus", "the hard iteration limit was never exceeded");
    need.insert("limits:above-soft:insecure", "the soft iteration limit was never exceeded");
    need.insert("limits:within:secure", "no proof within the limits was accepted");
    need.insert("boundary:iterations=101:insecure", "iterations just above the default soft limit were never exercised");
    need.insert("boundary:iterations=501:bogus", "iterations just above the default hard limit were never exercised");
    need.insert("boundary:iterations=65535:bogus", "iterations = u16::MAX were never exercised");
    need.insert("boundary:zone:iterations=1:salt-len=255", "the 255-octet salt was never exercised");
    need.insert("zone:hash-order-differs-from-name-order", "no zone whose hash order differs from its name order");
    for (class, why) in need {
        if ctx.outcome_count(class) == 0 {
            ctx.machinery_failure(&format!("vacuous run: {why} ({class})"));
        }
    }
    ctx.finish(true);
}
