//! C11 — every accepted request gets exactly one matching response from the right zone.
//!
//! Seam: `Server::verif_handle_raw_request` (the private `ServerContext::handle_request` front
//! door: header gate, response gate, opcode gate, question parsing, access lists, full parse,
//! dispatch to a real `Catalog` of real `InMemoryZoneHandler`s). Raw request bytes go in, the raw
//! datagrams/frames that arrive on the `BufDnsStreamHandle` receiver are counted and decoded by an
//! independent wire walker (and cross-checked with hickory's decoder).
//!
//! E-ENUM over six declared families (see `main`): dispatch product, class/type/EDNS product,
//! header product, complete prefix + single-byte-substitution neighbourhoods of representative
//! requests, all short strings over the structural alphabet (whole messages and bodies behind
//! fixed headers). Every request is followed by a fixed probe query on the SAME server object.
//!
//! Oracle: `frontdoor::expect` (reference front door written from the statement).

mod frontdoor;

use std::net::SocketAddr;
use std::str::FromStr;
use std::sync::Arc;

use frontdoor as fd;
use futures_util::StreamExt;
use hickory_net::runtime::TokioRuntimeProvider;
use hickory_net::xfer::Protocol;
use hickory_net::BufDnsStreamHandle;
use hickory_proto::op::{Message, SerialMessage};
use hickory_proto::rr::rdata::tsig::TsigAlgorithm;
use hickory_proto::rr::rdata::{NS, SOA, TXT};
use hickory_proto::rr::{LowerName, Name, RData, Record, RecordType, TSigner};
use hickory_server::store::sqlite::SqliteZoneHandler;
use hickory_server::dnssec::NxProofKind;
use hickory_server::server::RequestInfo;
use hickory_server::store::in_memory::InMemoryZoneHandler;
use hickory_server::zone_handler::{
    AuthLookup, AxfrPolicy, Catalog, LookupControlFlow, LookupOptions, Nsec3QueryInfo, ZoneHandler, ZoneType,
};
use hickory_server::Server;
use serde_json::{json, Value};
use vcore::{catch, fnv64, hex, Ctx, Local, Odometer};

// ------------------------------------------------------------------------------------------
// independent wire builder

fn name_wire(s: &str) -> Vec<u8> {
    let mut out = vec![];
    for l in s.split('.') {
        if l.is_empty() {
            continue;
        }
        out.push(l.len() as u8);
        out.extend_from_slice(l.as_bytes());
    }
    out.push(0);
    out
}

/// A name of exactly `total` wire octets ending in `suffix` (a wire name), filled with labels of
/// up to 63 `fill` octets.
fn long_name(total: usize, suffix: &[u8], fill: u8) -> Vec<u8> {
    let mut rest = total - suffix.len();
    let mut out = vec![];
    while rest > 0 {
        let chunk = rest.min(64);
        // a chunk of n octets = 1 length octet + n-1 label octets; avoid a 1-octet leftover
        let chunk = if rest - chunk == 1 { chunk - 1 } else { chunk };
        out.push((chunk - 1) as u8);
        out.extend(std::iter::repeat(fill).take(chunk - 1));
        rest -= chunk;
    }
    out.extend_from_slice(suffix);
    out
}

fn hdr(id: u16, flags: u16, c: [u16; 4]) -> Vec<u8> {
    let mut v = Vec::with_capacity(64);
    v.extend_from_slice(&id.to_be_bytes());
    v.extend_from_slice(&flags.to_be_bytes());
    for x in c {
        v.extend_from_slice(&x.to_be_bytes());
    }
    v
}

fn question(qname: &[u8], qtype: u16, qclass: u16) -> Vec<u8> {
    let mut v = qname.to_vec();
    v.extend_from_slice(&qtype.to_be_bytes());
    v.extend_from_slice(&qclass.to_be_bytes());
    v
}

fn rr(owner: &[u8], t: u16, c: u16, ttl: u32, rdata: &[u8]) -> Vec<u8> {
    let mut v = owner.to_vec();
    v.extend_from_slice(&t.to_be_bytes());
    v.extend_from_slice(&c.to_be_bytes());
    v.extend_from_slice(&ttl.to_be_bytes());
    v.extend_from_slice(&(rdata.len() as u16).to_be_bytes());
    v.extend_from_slice(rdata);
    v
}

fn opt_rr(payload: u16, ext: u8, ver: u8, dnssec_ok: bool, rdata: &[u8]) -> Vec<u8> {
    let ttl = ((ext as u32) << 24) | ((ver as u32) << 16) | if dnssec_ok { 0x8000 } else { 0 };
    rr(&[0], 41, payload, ttl, rdata)
}

/// Records (answer, authority, additional) contributed by an EDNS variant.
#[derive(Default, Clone)]
struct Extra {
    an: Vec<u8>,
    an_n: u16,
    ns: Vec<u8>,
    ns_n: u16,
    ar: Vec<u8>,
    ar_n: u16,
}

const EDNS_NAMES: [&str; 17] = [
    "none", "v0", "v1", "v255", "v0-payload0", "v0-payload512", "v0-payload65535", "v0-do", "v0-unknown-option",
    "v0-nsid", "two-opts-v0-v0", "two-opts-v0-v1", "opt-in-answer", "opt-v1-in-authority", "opt-owner-not-root",
    "v0-option-overruns", "v0-extended-rcode-bits-set-in-request",
];

fn edns_variant(i: usize) -> Extra {
    let mut e = Extra::default();
    let ar = |b: Vec<u8>, e: &mut Extra| {
        e.ar.extend(b);
        e.ar_n += 1;
    };
    match i {
        0 => {}
        1 => ar(opt_rr(1232, 0, 0, false, &[]), &mut e),
        2 => ar(opt_rr(1232, 0, 1, false, &[]), &mut e),
        3 => ar(opt_rr(1232, 0, 255, false, &[]), &mut e),
        4 => ar(opt_rr(0, 0, 0, false, &[]), &mut e),
        5 => ar(opt_rr(512, 0, 0, false, &[]), &mut e),
        6 => ar(opt_rr(65535, 0, 0, false, &[]), &mut e),
        7 => ar(opt_rr(1232, 0, 0, true, &[]), &mut e),
        8 => ar(opt_rr(1232, 0, 0, false, &[0xff, 0x01, 0, 2, 0xab, 0xcd]), &mut e),
        9 => ar(opt_rr(1232, 0, 0, false, &[0, 3, 0, 0]), &mut e),
        10 => {
            ar(opt_rr(1232, 0, 0, false, &[]), &mut e);
            ar(opt_rr(1232, 0, 0, false, &[]), &mut e);
        }
        11 => {
            ar(opt_rr(1232, 0, 0, false, &[]), &mut e);
            ar(opt_rr(1232, 0, 1, false, &[]), &mut e);
        }
        12 => {
            e.an = opt_rr(1232, 0, 0, false, &[]);
            e.an_n = 1;
        }
        13 => {
            e.ns = opt_rr(1232, 0, 1, false, &[]);
            e.ns_n = 1;
        }
        14 => ar(rr(&name_wire("o."), 41, 1232, 0, &[]), &mut e),
        15 => ar(opt_rr(1232, 0, 0, false, &[0, 10, 0, 9, 1, 2]), &mut e),
        16 => ar(opt_rr(1232, 1, 0, false, &[]), &mut e),
        _ => unreachable!(),
    }
    e
}

fn build_request(id: u16, flags: u16, qname: &[u8], qtype: u16, qclass: u16, edns: usize) -> Vec<u8> {
    let e = edns_variant(edns);
    let mut v = hdr(id, flags, [1, e.an_n, e.ns_n, e.ar_n]);
    v.extend(question(qname, qtype, qclass));
    v.extend(e.an);
    v.extend(e.ns);
    v.extend(e.ar);
    v
}

// ------------------------------------------------------------------------------------------
// the world: query names, catalog shapes, access lists

struct QName {
    what: &'static str,
    wire: Vec<u8>,
}

/// Owners that carry a TXT marker in every zone enclosing them (text form, lower case) — plus the
/// two 255-octet names.
const MARKER_OWNERS: [&str; 17] = [
    ".", "z.", "x.z.", "a.z.", "x.a.z.", "a.a.z.", "x.a.a.z.", "b.z.", "x.b.z.", "o.", "x.o.", "az.", "z.a.", "xa.z.",
    "a.a.a.z.", "a.z.b.z.", "z.z.",
];

fn qnames() -> Vec<QName> {
    let mut v = vec![];
    for s in MARKER_OWNERS {
        v.push(QName { what: s, wire: name_wire(s) });
    }
    // literal `*` labels (first label at the root, first label outside every non-root zone, interior label)
    v.push(QName { what: "*.", wire: name_wire("*.") });
    v.push(QName { what: "*.x. (outside every non-root zone)", wire: name_wire("*.x.") });
    v.push(QName { what: "x.*.z. (interior *)", wire: name_wire("x.*.z.") });
    v.push(QName { what: "Z. (upper case)", wire: name_wire("Z.") });
    v.push(QName { what: "X.a.Z. (mixed case)", wire: name_wire("X.a.Z.") });
    v.push(QName { what: "255 octets under a.z.", wire: long_name(255, &name_wire("a.z."), b'l') });
    v.push(QName { what: "255 octets under o.", wire: long_name(255, &name_wire("o."), b'l') });
    v.push(QName { what: "256 octets under a.z. (too long)", wire: long_name(256, &name_wire("a.z."), b'l') });
    v.push(QName { what: "pointer c002 (into the flags)", wire: vec![0xc0, 0x02] });
    v.push(QName { what: "pointer c004 (into QDCOUNT)", wire: vec![0xc0, 0x04] });
    v.push(QName { what: "pointer c005 (into QDCOUNT low)", wire: vec![0xc0, 0x05] });
    v.push(QName { what: "pointer c007 (into ANCOUNT low)", wire: vec![0xc0, 0x07] });
    v.push(QName { what: "z + pointer c004", wire: vec![1, b'z', 0xc0, 0x04] });
    v.push(QName { what: "x.a.z + pointer c006", wire: vec![1, b'x', 1, b'a', 1, b'z', 0xc0, 0x06] });
    v.push(QName { what: "label with a zero octet under z.", wire: vec![1, 0, 1, b'z', 0] });
    v.push(QName { what: "pointer c00c (to itself)", wire: vec![0xc0, 0x0c] });
    v
}

/// Systematic query names: ALL names of 1..=3 labels over a label alphabet, plus all 4-label names
/// `l1.l2.a.z.` — every position (first, interior, last) of every special label at every depth
/// relative to every catalog shape (`*.`, `*.z.`, `*.a.z.`, `*.x.`, `x.*.z.`, `*.*.z.`,
/// `*.a.a.z.`, ...).
const LABELS_QUICK: [&[u8]; 4] = [b"*", b"a", b"x", b"z"];
const LABELS_THOROUGH: [&[u8]; 8] = [b"*", b"a", b"x", b"z", b"A", b".", b"\0", b"**"];

fn sys_names(labels: &[&[u8]]) -> Vec<Vec<u8>> {
    let labels: Vec<Vec<u8>> = labels.iter().map(|l| l.to_vec()).collect();
    let wire = |seq: &[&Vec<u8>], suffix: &[u8]| {
        let mut w = vec![];
        for l in seq {
            w.push(l.len() as u8);
            w.extend_from_slice(l);
        }
        w.extend_from_slice(suffix);
        w
    };
    let mut out = vec![];
    for a in &labels {
        out.push(wire(&[a], &[0]));
        for b in &labels {
            out.push(wire(&[a, b], &[0]));
            out.push(wire(&[a, b], &name_wire("a.z.")));
            for c in &labels {
                out.push(wire(&[a, b, c], &[0]));
            }
        }
    }
    out
}

fn hname(wire: &[u8]) -> Name {
    // wire (uncompressed) -> hickory Name, used only to populate zones
    let mut labels: Vec<&[u8]> = vec![];
    let mut p = 0;
    while wire[p] != 0 {
        let n = wire[p] as usize;
        labels.push(&wire[p + 1..p + 1 + n]);
        p += 1 + n;
    }
    let mut n = Name::from_labels(labels).unwrap();
    n.set_fqdn(true);
    n
}

/// One zone of a catalog shape.
#[derive(Clone, Copy)]
struct Z {
    /// origin as configured (may be upper/mixed case; the catalog key is its lower-case form)
    origin: &'static str,
    /// AXFR policy AllowAll instead of Deny
    axfr: bool,
    /// ZoneType::Secondary instead of Primary
    secondary: bool,
    /// handler chain: 0 = [zone], 1 = [skip, zone], 2 = [skip, skip, zone], 3 = [zone, skip],
    /// 4 = [skip] (nobody answers), 5 = [break-with-REFUSED, zone], 6 = [continue-with-NXDOMAIN, zone]
    chain: u8,
    /// ZoneType::External (what a forwarder zone is): the catalog builds the response with
    /// `build_forwarded_response`
    external: bool,
}

impl Z {
    /// the statement fixes what a query enclosed by this zone gets
    fn judged(&self) -> bool {
        !self.external && self.chain < 4
    }
}

const fn z(origin: &'static str) -> Z {
    Z { origin, axfr: false, secondary: false, chain: 0, external: false }
}
const fn zc(origin: &'static str, chain: u8) -> Z {
    Z { origin, axfr: false, secondary: false, chain, external: false }
}

struct Shape {
    what: &'static str,
    zones: &'static [Z],
    /// the catalog answers NSID requests with this payload
    nsid: bool,
}

/// Shapes 0..N_BASE_SHAPES are crossed with the big request products; the others (one deviating
/// configuration dimension each) are driven by family FS.
const N_BASE_SHAPES: usize = 10;
const SHAPES: [Shape; 18] = [
    Shape { what: "{z.}", zones: &[z("z.")], nsid: false },
    Shape { what: "{z., a.z.}", zones: &[z("z."), z("a.z.")], nsid: false },
    Shape { what: "{z., a.z., a.a.z.}", zones: &[z("z."), z("a.z."), z("a.a.z.")], nsid: false },
    Shape { what: "{a.z., b.z.}", zones: &[z("a.z."), z("b.z.")], nsid: false },
    Shape { what: "{.}", zones: &[z(".")], nsid: false },
    Shape { what: "{., z.}", zones: &[z("."), z("z.")], nsid: false },
    Shape { what: "{}", zones: &[], nsid: false },
    Shape { what: "{z. = [skip-all, in-memory]}", zones: &[zc("z.", 1)], nsid: false },
    Shape { what: "{., a.z.}", zones: &[z("."), z("a.z.")], nsid: false },
    Shape { what: "{z., a.a.z.}", zones: &[z("z."), z("a.a.z.")], nsid: false },
    // ---- one deviating dimension each (family FS)
    Shape {
        what: "{z., a.z.} zone transfers allowed",
        zones: &[Z { origin: "z.", axfr: true, secondary: false, chain: 0, external: false }, Z { origin: "a.z.", axfr: true, secondary: false, chain: 0, external: false }],
        nsid: false,
    },
    Shape { what: "{Z., A.z., A.a.Z.} origins configured in upper/mixed case", zones: &[z("Z."), z("A.z."), z("A.a.Z.")], nsid: false },
    Shape {
        what: "{z., a.z.} secondary zones",
        zones: &[Z { origin: "z.", axfr: false, secondary: true, chain: 0, external: false }, Z { origin: "a.z.", axfr: false, secondary: true, chain: 0, external: false }],
        nsid: false,
    },
    Shape {
        what: "{z. = [skip, skip, in-memory], a.z. = [in-memory, skip]}",
        zones: &[zc("z.", 2), zc("a.z.", 3)],
        nsid: false,
    },
    Shape { what: "{., z.} with NSID configured", zones: &[z("."), z("z.")], nsid: true },
    Shape { what: "{z. = [skip] (no handler answers), a.z.}", zones: &[zc("z.", 4), z("a.z.")], nsid: false },
    Shape {
        what: "{z. external (forwarder-type), a.z. primary}",
        zones: &[Z { origin: "z.", axfr: false, secondary: false, chain: 0, external: true }, z("a.z.")],
        nsid: false,
    },
    Shape {
        what: "{z. = [break with REFUSED, in-memory], a.z. = [continue with NXDOMAIN, in-memory], b.z.}",
        zones: &[zc("z.", 5), zc("a.z.", 6), z("b.z.")],
        nsid: false,
    },
];

struct Acl {
    what: String,
    deny: Vec<String>,
    allow: Vec<String>,
    src: String,
}

const V4: &str = "192.0.2.1:5353";
const V4MAPPED: &str = "[::ffff:192.0.2.1]:5353";
const V6: &str = "[2001:db8::1]:5353";

/// The hand-picked access configurations used in the big request products.
const N_BASE_ACLS: usize = 14;
const BASE_ACLS: [(&str, &[&str], &[&str], &str); N_BASE_ACLS] = [
    ("no lists", &[], &[], V4),
    ("deny /24 containing src", &["192.0.2.0/24"], &[], V4),
    ("deny /32 = src", &["192.0.2.1/32"], &[], V4),
    ("deny list without src", &["10.0.0.0/8"], &[], V4),
    ("deny /8 + allow /32 = src", &["192.0.0.0/8"], &["192.0.2.1/32"], V4),
    ("deny /8 + allow /32 other", &["192.0.0.0/8"], &["192.0.2.2/32"], V4),
    ("allow list without src", &[], &["198.51.100.0/24"], V4),
    ("allow list with src", &[], &["192.0.2.0/24"], V4),
    ("v4-mapped src, deny v4 /24", &["192.0.2.0/24"], &[], V4MAPPED),
    ("v4-mapped src, deny /8 + allow /32", &["192.0.0.0/8"], &["192.0.2.1/32"], V4MAPPED),
    ("v6 src, deny v6 /32", &["2001:db8::/32"], &[], V6),
    ("v6 src, deny v4 only", &["10.0.0.0/8"], &[], V6),
    ("deny /32 and allow /32 both = src", &["192.0.2.1/32"], &["192.0.2.1/32"], V4),
    ("deny /24 + allow /16 (less specific)", &["192.0.2.0/24"], &["192.0.0.0/16"], V4),
];

/// The access PRODUCT: 6 sources x (deny list, allow list) with each list any subset of <= 3
/// elements (quick: <= 2) of a 12-element net alphabet chosen relative to the source: its own
/// host net, covering nets of its own family, the nets the source would match under a WRONG
/// family reading (v4 reading of a v6 source, v6 reading of a v4 source), catch-alls and unrelated
/// nets of both families.
const ACCESS_NETS: usize = 12;
const ACCESS_SOURCES: [(&str, [&str; ACCESS_NETS]); 6] = [
    (
        "192.0.2.1",
        ["192.0.2.1/32", "192.0.2.0/24", "192.0.0.0/8", "::ffff:0:0/96", "::ffff:192.0.2.1/128", "::192.0.2.1/128", "::/0", "0.0.0.0/0", "198.51.100.0/24", "2001:db8:ffff::/48", "192.0.2.0/31", "192.0.2.2/31"],
    ),
    (
        "::ffff:192.0.2.1",
        ["192.0.2.1/32", "192.0.2.0/24", "192.0.0.0/8", "::ffff:0:0/96", "::ffff:192.0.2.1/128", "::192.0.2.1/128", "::/0", "0.0.0.0/0", "198.51.100.0/24", "2001:db8:ffff::/48", "192.0.2.0/31", "192.0.2.2/31"],
    ),
    (
        "::1",
        ["::1/128", "::/64", "::/96", "0.0.0.1/32", "0.0.0.0/8", "127.0.0.0/8", "::/0", "0.0.0.0/0", "198.51.100.0/24", "2001:db8:ffff::/48", "::/127", "::2/127"],
    ),
    (
        "::192.0.2.1",
        ["::192.0.2.1/128", "::/64", "::/96", "192.0.2.1/32", "192.0.2.0/24", "::ffff:192.0.2.1/128", "::/0", "0.0.0.0/0", "198.51.100.0/24", "2001:db8:ffff::/48", "::c000:200/127", "::c000:202/127"],
    ),
    (
        "2001:db8::1",
        ["2001:db8::1/128", "2001:db8::/64", "2001:db8::/32", "::/96", "0.0.0.1/32", "::ffff:0:0/96", "::/0", "0.0.0.0/0", "198.51.100.0/24", "2001:db8:ffff::/48", "2001:db8::/127", "2001:db8::2/127"],
    ),
    (
        "fe80::1",
        ["fe80::1/128", "fe80::/64", "fe80::/10", "254.128.0.0/16", "0.0.0.1/32", "::ffff:0:0/96", "::/0", "0.0.0.0/0", "198.51.100.0/24", "2001:db8:ffff::/48", "fe80::/127", "fe80::2/127"],
    ),
];

struct AclTable {
    all: Vec<Acl>,
    /// configurations `N_BASE_ACLS..quick_end` are the product with lists of <= 2 entries
    quick_end: usize,
    /// the rows `fi_start..` are the list configurations of the interleaving family
    fi_start: usize,
}

fn acl_table() -> &'static AclTable {
    static T: std::sync::OnceLock<AclTable> = std::sync::OnceLock::new();
    T.get_or_init(|| {
        let mut all: Vec<Acl> = BASE_ACLS
            .iter()
            .map(|(what, deny, allow, src)| Acl {
                what: what.to_string(),
                deny: deny.iter().map(|s| s.to_string()).collect(),
                allow: allow.iter().map(|s| s.to_string()).collect(),
                src: src.to_string(),
            })
            .collect();
        let mut subsets: Vec<Vec<usize>> = vec![];
        for k in 0..=3 {
            subsets.extend(vcore::enumerate::combinations(ACCESS_NETS, k));
        }
        let mut quick_end = 0;
        for pass in 0..2 {
            for (src, nets) in ACCESS_SOURCES.iter() {
                for d in &subsets {
                    for a in &subsets {
                        let small = d.len() <= 2 && a.len() <= 2;
                        if small != (pass == 0) {
                            continue;
                        }
                        let deny: Vec<String> = d.iter().map(|i| nets[*i].to_string()).collect();
                        let allow: Vec<String> = a.iter().map(|i| nets[*i].to_string()).collect();
                        let sock = if src.contains(':') { format!("[{src}]:5353") } else { format!("{src}:5353") };
                        all.push(Acl { what: format!("product: src {src} deny {deny:?} allow {allow:?}"), deny, allow, src: sock });
                    }
                }
            }
            if pass == 0 {
                quick_end = all.len();
            }
        }
        let fi_start = all.len();
        for (deny, allow) in FI_LISTS.iter() {
            all.push(Acl {
                what: format!("interleaving: deny {deny:?} allow {allow:?} (several sources)"),
                deny: deny.iter().map(|s| s.to_string()).collect(),
                allow: allow.iter().map(|s| s.to_string()).collect(),
                src: V4.to_string(),
            });
        }
        AclTable { all, quick_end, fi_start }
    })
}

/// Access lists of the interleaving family (requests from SEVERAL sources on one server object).
const FI_LISTS: [(&[&str], &[&str]); 7] = [
    (&[], &[]),
    (&["192.0.2.0/24"], &[]),
    (&["192.0.0.0/8"], &["192.0.2.1/32"]),
    (&[], &["192.0.2.0/24"]),
    (&["::1/128"], &[]),
    (&["2001:db8::/32"], &["2001:db8::1/128"]),
    (&[], &["192.0.2.1/32", "::1/128"]),
];
const FI_SOURCES: [&str; 7] = [
    "192.0.2.1:5353",
    "192.0.2.2:5353",
    "[::ffff:192.0.2.1]:5353",
    "[::1]:5353",
    "[2001:db8::1]:5353",
    "[2001:db8::2]:5353",
    "198.51.100.7:5353",
];

/// The request alphabet of the interleaving family.
fn fi_requests() -> Vec<(&'static str, Vec<u8>)> {
    let n = |s: &str| name_wire(s);
    let mut trunc = build_request(0x0107, 0x0100, &n("x.a.z."), 16, 1, 0);
    trunc.truncate(trunc.len() - 3);
    let two_q = {
        let q = question(&n("x.a.z."), 16, 1);
        let mut m = hdr(0x010c, 0x0100, [2, 0, 0, 0]);
        m.extend(&q);
        m.extend(&q);
        m
    };
    vec![
        ("TXT x.a.z.", build_request(0x0101, 0x0100, &n("x.a.z."), 16, 1, 0)),
        ("A z. edns v0", build_request(0x0102, 0x0000, &n("z."), 1, 1, 1)),
        ("TXT o.", build_request(0x0103, 0x0100, &n("o."), 16, 1, 0)),
        ("TXT x.a.z. edns v1", build_request(0x0104, 0x0100, &n("x.a.z."), 16, 1, 2)),
        ("opcode 9", build_request(0x0105, 0x4800, &n("z."), 1, 1, 0)),
        ("UPDATE z.", build_request(0x0106, 0x2800, &n("z."), 6, 1, 0)),
        ("truncated question", trunc),
        ("a response", build_request(0x0108, 0x8180, &n("x.a.z."), 16, 1, 0)),
        ("5 octets", vec![0x01, 0x09, 0x01, 0x00, 0x00]),
        ("qname pointer c002", build_request(0x010a, 0x0100, &[0xc0, 0x02], 1, 1, 0)),
        ("AXFR z.", build_request(0x010b, 0x0000, &n("z."), 252, 1, 0)),
        ("two questions", two_q),
    ]
}

fn acls() -> &'static [Acl] {
    &acl_table().all
}

// ------------------------------------------------------------------------------------------
// real server objects

/// A zone handler that declines every request (chained-handler configurations).
struct SkipAll {
    origin: LowerName,
    /// 0 = skip every request, 1 = break the chain with REFUSED, 2 = continue with NXDOMAIN
    mode: u8,
}

#[async_trait::async_trait]
impl ZoneHandler for SkipAll {
    fn zone_type(&self) -> ZoneType {
        ZoneType::Primary
    }
    fn axfr_policy(&self) -> AxfrPolicy {
        AxfrPolicy::Deny
    }
    fn origin(&self) -> &LowerName {
        &self.origin
    }
    async fn lookup(
        &self,
        _name: &LowerName,
        _rtype: RecordType,
        _request_info: Option<&RequestInfo<'_>>,
        _lookup_options: LookupOptions,
    ) -> LookupControlFlow<AuthLookup> {
        use hickory_proto::op::ResponseCode;
        use hickory_server::zone_handler::LookupError;
        match self.mode {
            0 => LookupControlFlow::Skip,
            1 => LookupControlFlow::Break(Err(LookupError::ResponseCode(ResponseCode::Refused))),
            _ => LookupControlFlow::Continue(Err(LookupError::ResponseCode(ResponseCode::NXDomain))),
        }
    }
    async fn nsec_records(&self, _name: &LowerName, _lookup_options: LookupOptions) -> LookupControlFlow<AuthLookup> {
        LookupControlFlow::Skip
    }
    async fn nsec3_records(&self, _info: Nsec3QueryInfo<'_>, _lookup_options: LookupOptions) -> LookupControlFlow<AuthLookup> {
        LookupControlFlow::Skip
    }
    async fn zone_transfer(
        &self,
        _request: &hickory_server::server::Request,
        _lookup_options: LookupOptions,
        _now: u64,
    ) -> Option<(
        Result<hickory_server::zone_handler::ZoneTransfer, hickory_server::zone_handler::LookupError>,
        Option<hickory_proto::rr::TSigResponseContext>,
    )> {
        match self.mode {
            0 => None,
            // what the trait's default implementation answers
            _ => Some((Err(hickory_server::zone_handler::LookupError::from(hickory_proto::op::ResponseCode::NotImp)), None)),
        }
    }
    fn nx_proof_kind(&self) -> Option<&NxProofKind> {
        None
    }
    fn metrics_label(&self) -> &'static str {
        "skip-all"
    }
}

fn build_zone(spec: &Z, owners: &[Name]) -> InMemoryZoneHandler<TokioRuntimeProvider> {
    build_zone_gen(spec, owners, 1)
}

/// Generation `gen` of a zone: SOA serial = gen, and from generation 2 on every TXT marker carries a
/// second string `gen=<gen>` (family FC replaces zones in a live catalog).
fn build_zone_gen(spec: &Z, owners: &[Name], gen: u32) -> InMemoryZoneHandler<TokioRuntimeProvider> {
    let o = Name::from_str(spec.origin).unwrap();
    let marker = format!("zone={}", spec.origin.to_ascii_lowercase());
    let mut zone = InMemoryZoneHandler::<TokioRuntimeProvider>::empty(
        o.clone(),
        if spec.external {
            ZoneType::External
        } else if spec.secondary {
            ZoneType::Secondary
        } else {
            ZoneType::Primary
        },
        if spec.axfr { AxfrPolicy::AllowAll } else { AxfrPolicy::Deny },
        None,
    );
    let ns = Name::from_str("ns.o.").unwrap();
    zone.upsert_mut(
        Record::from_rdata(o.clone(), 300, RData::SOA(SOA::new(ns.clone(), Name::from_str("h.o.").unwrap(), gen, 1, 1, 1, 300))),
        gen,
    );
    zone.upsert_mut(Record::from_rdata(o.clone(), 300, RData::NS(NS(ns))), 1);
    for owner in owners {
        if o.zone_of(owner) {
            let mut strings = vec![marker.clone()];
            if gen > 1 {
                strings.push(format!("gen={gen}"));
            }
            zone.upsert_mut(Record::from_rdata(owner.clone(), 300, RData::TXT(TXT::new(strings))), gen);
        }
    }
    zone
}

struct World {
    qn: Vec<QName>,
    owners: Vec<Name>,
}

impl World {
    fn new() -> World {
        let qn = qnames();
        let mut owners: Vec<Name> = MARKER_OWNERS.iter().map(|s| Name::from_str(s).unwrap()).collect();
        owners.push(hname(&long_name(255, &name_wire("a.z."), b'l')));
        owners.push(hname(&long_name(255, &name_wire("o."), b'l')));
        for w in sys_names(&LABELS_QUICK) {
            let n = hname(&w);
            if !owners.contains(&n) {
                owners.push(n);
            }
        }
        World { qn, owners }
    }
}

struct Srv {
    server: Server<Catalog>,
    cfg: fd::Config,
    src: SocketAddr,
    probe_base: Vec<Vec<u8>>,
}

fn labels_of(s: &str) -> fd::Labels {
    s.split('.').filter(|l| !l.is_empty()).map(|l| l.as_bytes().to_vec()).collect()
}

type ZoneCache = std::collections::HashMap<(&'static str, bool, bool, bool), Arc<InMemoryZoneHandler<TokioRuntimeProvider>>>;

/// The zones are never modified (the in-memory handler answers UPDATE with NOTIMP), so one zone
/// object per zone spec is shared by all catalogs of a worker.
fn build_srv(world: &World, zones: &mut ZoneCache, shape: usize, acl: usize) -> Srv {
    let sh = &SHAPES[shape];
    let ac = &acls()[acl];
    let mut catalog = Catalog::new();
    for spec in sh.zones.iter() {
        let zone = zones.entry((spec.origin, spec.axfr, spec.secondary, spec.external)).or_insert_with(|| Arc::new(build_zone(spec, &world.owners))).clone();
        let lname = LowerName::new(&Name::from_str(spec.origin).unwrap());
        let stub = |mode: u8| -> Arc<dyn ZoneHandler> { Arc::new(SkipAll { origin: lname.clone(), mode }) };
        let chain: Vec<Arc<dyn ZoneHandler>> = match spec.chain {
            0 => vec![zone],
            1 => vec![stub(0), zone],
            2 => vec![stub(0), stub(0), zone],
            3 => vec![zone, stub(0)],
            4 => vec![stub(0)],
            5 => vec![stub(1), zone],
            _ => vec![stub(2), zone],
        };
        catalog.upsert(lname, chain);
    }
    if sh.nsid {
        catalog.set_nsid(Some(hickory_proto::rr::rdata::opt::NSIDPayload::new(*b"c11-nsid").unwrap()));
    }
    let server = Server::with_access(
        catalog,
        ac.deny.iter().map(|s| s.parse::<ipnet::IpNet>().unwrap()),
        ac.allow.iter().map(|s| s.parse::<ipnet::IpNet>().unwrap()),
    );
    let cfg = fd::Config {
        zones: sh.zones.iter().map(|z| labels_of(&z.origin.to_ascii_lowercase())).collect(),
        unjudged: sh.zones.iter().map(|z| !z.judged()).collect(),
        deny: ac.deny.iter().map(|s| fd::Net::parse(s)).collect(),
        allow: ac.allow.iter().map(|s| fd::Net::parse(s)).collect(),
    };
    Srv { server, cfg, src: ac.src.parse().unwrap(), probe_base: vec![] }
}

struct Worker<'w> {
    world: &'w World,
    rt: tokio::runtime::Runtime,
    servers: std::collections::HashMap<usize, Srv>,
    zones: ZoneCache,
    probe: Vec<u8>,
    /// record the digest of every non-trivial request in the distinct set (off for the thorough
    /// F6 family, whose requests are pairwise distinct by construction and would overflow vcore's
    /// 40M-entry cap)
    digests: bool,
}

impl<'w> Worker<'w> {
    fn new(world: &'w World) -> Worker<'w> {
        Worker {
            world,
            rt: vsim::rt(),
            servers: Default::default(),
            zones: Default::default(),
            // the fixed probe: x.a.z. TXT IN, id 0x7777, RD
            probe: build_request(0x7777, 0x0100, &name_wire("x.a.z."), 16, 1, 0),
            digests: true,
        }
    }
}

fn exec(rt: &tokio::runtime::Runtime, srv: &Srv, bytes: &[u8], proto: Protocol) -> Result<Vec<Vec<u8>>, vcore::PanicInfo> {
    exec_from(rt, srv, srv.src, bytes, proto)
}

/// As `exec`, with the request coming from `src` (the server object itself has no source: the
/// access lists are evaluated per request).
fn exec_from(rt: &tokio::runtime::Runtime, srv: &Srv, src: SocketAddr, bytes: &[u8], proto: Protocol) -> Result<Vec<Vec<u8>>, vcore::PanicInfo> {
    exec_on(rt, &srv.server, src, bytes, proto)
}

fn exec_on<T: hickory_server::server::RequestHandler>(
    rt: &tokio::runtime::Runtime,
    server: &Server<T>,
    src: SocketAddr,
    bytes: &[u8],
    proto: Protocol,
) -> Result<Vec<Vec<u8>>, vcore::PanicInfo> {
    catch(|| {
        rt.block_on(async {
            let (handle, mut rx) = BufDnsStreamHandle::new(src);
            server.verif_handle_raw_request(SerialMessage::new(bytes.to_vec(), src), proto, handle).await;
            let mut out = vec![];
            // the sender half was moved into the call and is dropped by now
            while let Some(m) = rx.next().await {
                // (the address of the message is always the one the BufDnsStreamHandle was built
                // with: the socket layer, not the front door, decides where a response goes)
                out.push(m.into_parts().0);
            }
            out
        })
    })
}

// ------------------------------------------------------------------------------------------
// the oracle

/// Observation where the statement is silent: counted, never judged. `C11_SHOW=<class prefix>`
/// prints the first few cases of a class (debugging aid).
fn obs(l: &mut Local, class: &str, req: &[u8], out: &[Vec<u8>]) {
    use std::sync::atomic::{AtomicU32, Ordering};
    static SHOWN: AtomicU32 = AtomicU32::new(0);
    static SHOW: std::sync::OnceLock<Option<String>> = std::sync::OnceLock::new();
    if let Some(want) = SHOW.get_or_init(|| std::env::var("C11_SHOW").ok()) {
        if class.starts_with(want.as_str()) && SHOWN.fetch_add(1, Ordering::Relaxed) < 12 {
            eprintln!("{class}: request {} -> {:?}", hex::enc(req), out.iter().map(|r| hex::enc(r)).collect::<Vec<_>>());
        }
    }
    l.outcome(class);
}

struct Finding {
    key: String,
    what: String,
}

fn fnd(key: impl Into<String>, what: impl Into<String>) -> Option<Finding> {
    Some(Finding { key: key.into(), what: what.into() })
}

fn conds(e: &fd::Expect) -> String {
    let mut v: Vec<&str> = e.gates.clone();
    for t in &e.tolerated {
        v.push(t);
    }
    if v.is_empty() {
        "none".into()
    } else {
        v.join("+")
    }
}

fn rcode_class(c: u16) -> &'static str {
    match c {
        0 => "answered:NOERROR",
        1 => "answered:FORMERR",
        2 => "answered:SERVFAIL",
        3 => "answered:NXDOMAIN",
        4 => "answered:NOTIMP",
        5 => "answered:REFUSED",
        9 => "answered:NOTAUTH",
        16 => "answered:BADVERS",
        _ => "answered:other-rcode",
    }
}

struct RespView {
    qd: u16,
    question: Result<fd::Question, &'static str>,
    records: Vec<vref::wire::RawRecord>, // answer + authority (+ additional) as far as walkable
    n_ans_auth: usize,
    walk_complete: bool,
    rcode: u16,
    tc: bool,
}

fn view_response(r: &[u8]) -> RespView {
    let flags = u16::from_be_bytes([r[2], r[3]]);
    let qd = u16::from_be_bytes([r[4], r[5]]);
    let an = u16::from_be_bytes([r[6], r[7]]) as usize;
    let ns = u16::from_be_bytes([r[8], r[9]]) as usize;
    let ar = u16::from_be_bytes([r[10], r[11]]) as usize;
    let mut question = Err("no-question");
    let mut p = 12usize;
    let mut ok = true;
    for i in 0..qd {
        let q = match fd::read_name(r, p) {
            Ok(n) => {
                if n.next + 4 <= r.len() {
                    Ok(fd::Question {
                        name: n.labels,
                        qtype: u16::from_be_bytes([r[n.next], r[n.next + 1]]),
                        qclass: u16::from_be_bytes([r[n.next + 2], r[n.next + 3]]),
                        has_pointer: n.has_pointer,
                        end: n.next + 4,
                    })
                } else {
                    Err("question-truncated")
                }
            }
            Err(why) => Err(why),
        };
        match q {
            Ok(q) => {
                p = q.end;
                if i == 0 {
                    question = Ok(q);
                }
            }
            Err(why) => {
                if i == 0 {
                    question = Err(why);
                }
                ok = false;
                break;
            }
        }
    }
    let mut records = vec![];
    let mut n_ans_auth = 0;
    let mut ext = 0u16;
    if ok {
        for i in 0..an + ns + ar {
            match vref::wire::read_record(r, p) {
                Ok(rec) => {
                    p = rec.end;
                    if i < an + ns {
                        n_ans_auth += 1;
                    } else if rec.rtype == 41 {
                        ext = (rec.ttl >> 24) as u16;
                    }
                    records.push(rec);
                }
                Err(_) => {
                    ok = false;
                    break;
                }
            }
        }
    }
    RespView {
        qd,
        question,
        records,
        n_ans_auth,
        walk_complete: ok && p == r.len(),
        rcode: (ext << 4) | (flags & 0xf),
        tc: flags & 0x0200 != 0,
    }
}

/// Zones identified by the data in the answer and authority sections: the TXT marker text, the
/// owner of an SOA, the owner of an NS set (NS exists only at the apexes in these zones).
fn zone_ids(r: &[u8], v: &RespView, cfg: &fd::Config) -> Vec<Option<usize>> {
    let mut ids: Vec<Option<usize>> = vec![];
    for rec in &v.records[..v.n_ans_auth] {
        let id = match rec.rtype {
            16 => {
                let rd = &r[rec.rdata_start..rec.rdata_end];
                if rd.len() > 6 && &rd[1..6] == b"zone=" {
                    let txt = String::from_utf8_lossy(&rd[6..1 + rd[0] as usize]).to_string();
                    let l = labels_of(&txt);
                    Some(cfg.zones.iter().position(|z| *z == l))
                } else {
                    None
                }
            }
            6 | 2 => {
                let l = fd::lower(&rec.name);
                Some(cfg.zones.iter().position(|z| *z == l))
            }
            _ => None,
        };
        if let Some(id) = id {
            if !ids.contains(&id) {
                ids.push(id);
            }
        }
    }
    ids
}

/// Judge one request/response-list pair. Returns the first violated clause.
fn judge(cfg: &fd::Config, src: SocketAddr, req: &[u8], out: &[Vec<u8>], l: &mut Local) -> Option<Finding> {
    let e = fd::expect(cfg, src.ip(), req);
    l.outcome(match (e.respond, e.why_silent) {
        (true, _) => "expect:one-response",
        (false, "is-a-response") => "expect:silence:is-a-response",
        (false, _) => "expect:silence:shorter-than-header",
    });
    for g in &e.gates {
        l.outcome(match *g {
            "unsupported-opcode" => "expect:gate:unsupported-opcode",
            "unparsable" => "expect:gate:unparsable",
            "denied-source" => "expect:gate:denied-source",
            "edns-version-gt0" => "expect:gate:edns-version-gt0",
            _ => "expect:gate:no-enclosing-zone",
        });
    }
    if e.tolerated.contains(&"access-verdict-open") {
        l.outcome("expect:access-verdict-open(unjudged)");
    }
    if !e.respond {
        if out.is_empty() {
            l.outcome(if e.why_silent == "is-a-response" { "silent:is-a-response" } else { "silent:shorter-than-header" });
            return None;
        }
        return fnd(format!("count:reply-to:{}", e.why_silent), format!("{} message(s) sent in reply to a message that {}", out.len(), e.why_silent));
    }
    if out.is_empty() {
        return fnd(format!("count:no-response:{}", conds(&e)), "a request (>= 12 bytes, QR=0) got no response at all");
    }
    if out.len() > 1 {
        return fnd(format!("count:multiple:{}", conds(&e)), format!("{} responses to one request", out.len()));
    }
    let r = &out[0];
    if r.len() < 12 {
        return fnd("response:shorter-than-header", format!("{} byte response", r.len()));
    }
    let rid = u16::from_be_bytes([r[0], r[1]]);
    if rid != e.id {
        return fnd("id:mismatch", format!("request id {:#06x}, response id {:#06x}", e.id, rid));
    }
    if r[2] & 0x80 == 0 {
        return fnd("qr:not-set", "response has QR=0");
    }
    let mut v = view_response(r);
    let judge_question = e.query_or_update && e.question.is_some();
    if v.qd > 0 && v.question.is_err() {
        // the records behind an undecodable question cannot be located, so the extended rcode in
        // the OPT is out of reach: only the header nibble is known
        let low = v.rcode & 0xf;
        if judge_question && low != fd::FORMERR {
            let q = e.question.as_ref().unwrap();
            return fnd(
                if q.has_pointer { "question-echo:pointer-into-header" } else { "question-echo:undecodable" },
                format!(
                    "request question {} type {} class {}; the response's question section is undecodable ({}), header rcode nibble {}",
                    vref::wire::name_to_string(&q.name),
                    q.qtype,
                    q.qclass,
                    v.question.as_ref().err().unwrap(),
                    low
                ),
            );
        }
        obs(l, "obs:undecodable-question-in-unjudged-response", req, out);
        v.rcode = low;
    }
    l.outcome(rcode_class(v.rcode));
    if !e.rcodes.contains(v.rcode) {
        return fnd(
            format!("rcode:got={}:want={}:{}", fd::rcode_name(v.rcode), e.rcodes.describe(), conds(&e)),
            format!(
                "rcode {} but the statement admits only {} (conditions: {}; parse: {:?} {})",
                fd::rcode_name(v.rcode),
                e.rcodes.describe(),
                conds(&e),
                e.parse,
                e.parse_reason
            ),
        );
    }
    // observations where the statement is silent
    if e.rcodes.any {
        match e.opcode {
            0 => obs(l, &format!("obs:query-unjudged-rcode:{}", fd::rcode_name(v.rcode)), req, out),
            5 => obs(l, &format!("obs:update-rcode:{}", fd::rcode_name(v.rcode)), req, out),
            _ => {}
        }
    }
    if e.opcode != 0 && e.opcode != 5 && v.qd == 0 {
        obs(l, "obs:unsupported-opcode-response-without-question", req, out);
    }
    if (r[2] >> 3) & 0xf != e.opcode {
        obs(l, "obs:response-opcode-differs-from-request", req, out);
    }
    // header bits the statement does not mention (RFC 1035 4.1.1: RD is copied; RFC 4035 3.2.2: CD)
    if e.opcode == 0 {
        if (req[2] & 0x01) != (r[2] & 0x01) {
            l.outcome("obs:rd-not-copied-into-response");
        }
        if (req[3] & 0x10) != (r[3] & 0x10) {
            l.outcome("obs:cd-not-copied-into-response");
        }
        if r[3] & 0x40 != 0 {
            l.outcome("obs:z-bit-set-in-response");
        }
    }
    if let (Some(q), Ok(rq)) = (&e.question, &v.question) {
        if !q.has_pointer && v.qd == 1 && req.get(12..q.end) != r.get(12..rq.end) {
            l.outcome("obs:question-echo-not-octet-identical");
        }
    }
    let hick = Message::from_vec(r);
    if hick.is_err() {
        obs(l, "obs:hickory-cannot-decode-response", req, out);
    }

    // question echo: queries and updates that were not turned away with FORMERR / NOTIMP
    if e.query_or_update && v.rcode != fd::FORMERR {
        if let Some(q) = &e.question {
            let same = match &v.question {
                Ok(rq) => v.qd == 1 && rq.name == q.name && rq.qtype == q.qtype && rq.qclass == q.qclass,
                Err(_) => false,
            };
            if !same {
                let got = match &v.question {
                    Ok(rq) => format!("{} type {} class {}", vref::wire::name_to_string(&rq.name), rq.qtype, rq.qclass),
                    Err(why) => format!("undecodable ({why})"),
                };
                let what = format!(
                    "request question {} type {} class {}; response (rcode {}) question: {}",
                    vref::wire::name_to_string(&q.name),
                    q.qtype,
                    q.qclass,
                    fd::rcode_name(v.rcode),
                    got
                );
                let key = if q.has_pointer {
                    "question-echo:pointer-into-header"
                } else if v.qd == 0 {
                    "question-echo:missing"
                } else {
                    "question-echo:differs"
                };
                return fnd(key, what);
            }
            l.outcome("checked:question-echo");
            // second opinion: hickory's own decoder on the same bytes
            if let Ok(m) = &hick {
                let agrees = m.queries.len() == 1 && {
                    let hq = &m.queries[0];
                    let labels: Vec<Vec<u8>> = hq.name.iter().map(|x| x.to_vec()).collect();
                    labels == q.name && u16::from(hq.query_type) == q.qtype && u16::from(hq.query_class) == q.qclass
                };
                if !agrees {
                    return fnd(
                        "question-echo:differs-by-hickory-decoder",
                        "the reference walker reads the echoed question as equal, hickory's decoder does not",
                    );
                }
            }
        }
    }

    // right zone
    if e.opcode == 0 && e.gates.is_empty() && (v.rcode == fd::NOERROR || v.rcode == fd::NXDOMAIN) {
        if let (Some(_q), Some(want)) = (&e.question, e.zone) {
            let ids = zone_ids(r, &v, cfg);
            for id in &ids {
                if *id != Some(want) {
                    let rel = match id {
                        None => "unconfigured-zone".to_string(),
                        Some(g) => {
                            let (gz, wz) = (&cfg.zones[*g], &cfg.zones[want]);
                            if gz.len() < wz.len() && wz[wz.len() - gz.len()..] == gz[..] {
                                "shorter-suffix".to_string()
                            } else if gz.len() > wz.len() {
                                "longer-name".to_string()
                            } else {
                                "unrelated-zone".to_string()
                            }
                        }
                    };
                    return fnd(
                        format!("zone:answered-from-{rel}"),
                        format!(
                            "answer data identifies zone {:?}, the longest enclosing origin is {}",
                            id.map(|g| vref::wire::name_to_string(&cfg.zones[g])),
                            vref::wire::name_to_string(&cfg.zones[want])
                        ),
                    );
                }
            }
            if ids.is_empty() {
                if e.plain && !v.tc {
                    return fnd(
                        format!("zone:unidentified:{}", fd::rcode_name(v.rcode)),
                        format!("plain query answered {} without any data identifying the zone (walk complete: {})", fd::rcode_name(v.rcode), v.walk_complete),
                    );
                }
                obs(l, "obs:answer-without-zone-data", req, out);
            } else {
                l.outcome("checked:zone");
            }
        }
    }
    None
}

// ------------------------------------------------------------------------------------------
// one case = hostile request + probe on the same server

#[derive(Clone, Copy)]
struct Place {
    shape: usize,
    acl: usize,
    tcp: bool,
}

fn case_json(family: &str, pl: Place, req: &[u8], out: Option<&[Vec<u8>]>) -> Value {
    json!({
        "family": family,
        "shape": pl.shape, "shape_what": SHAPES[pl.shape].what,
        "acl": pl.acl, "acl_what": acls()[pl.acl].what, "src": acls()[pl.acl].src,
        "deny": acls()[pl.acl].deny, "allow": acls()[pl.acl].allow,
        "proto": if pl.tcp { "tcp" } else { "udp" },
        "request": hex::enc(req),
        "responses": out.map(|o| o.iter().map(|r| hex::enc(r)).collect::<Vec<_>>()),
    })
}

/// One item of an interleaved history: (source, request bytes, tcp).
type Item = (SocketAddr, Vec<u8>, bool);

fn history_json(shape: usize, acl: usize, hist: &[&Item], out: Option<&[Vec<u8>]>, alone: Option<&[Vec<u8>]>) -> Value {
    json!({
        "family": "FI",
        "shape": shape, "shape_what": SHAPES[shape].what,
        "acl": acl, "deny": acls()[acl].deny, "allow": acls()[acl].allow,
        "history": hist.iter().map(|(src, req, tcp)| json!({"src": src.to_string(), "proto": if *tcp { "tcp" } else { "udp" }, "request": hex::enc(req)})).collect::<Vec<_>>(),
        "last_responses": out.map(|o| o.iter().map(|r| hex::enc(r)).collect::<Vec<_>>()),
        "responses_when_sent_alone": alone.map(|o| o.iter().map(|r| hex::enc(r)).collect::<Vec<_>>()),
    })
}

/// The response(s) to `item` on a brand-new server object.
fn alone(w: &mut Worker, shape: usize, acl: usize, item: &Item, l: &mut Local) -> Vec<Vec<u8>> {
    let srv = build_srv(w.world, &mut w.zones, shape, acl);
    match exec_from(&w.rt, &srv, item.0, &item.1, if item.2 { Protocol::Tcp } else { Protocol::Udp }) {
        Ok(out) => out,
        Err(p) => {
            l.violation(&format!("panic:{}", vcore::short_loc(&p.loc)), &p.msg, || history_json(shape, acl, &[item], None, None));
            vec![]
        }
    }
}

/// Execute `prefix` on `srv`, then `last`; the response to `last` must satisfy the oracle AND be
/// byte-identical to the response `last` gets on a brand-new server (`last_alone`): what a request
/// gets must not depend on the requests (of other sources) handled before it.
fn run_history(w: &Worker, srv: &Srv, shape: usize, acl: usize, prefix: &[&Item], last: &Item, last_alone: &[Vec<u8>], l: &mut Local) {
    l.eval();
    for it in prefix {
        if let Err(p) = exec_from(&w.rt, srv, it.0, &it.1, if it.2 { Protocol::Tcp } else { Protocol::Udp }) {
            l.violation(&format!("panic:{}", vcore::short_loc(&p.loc)), &p.msg, || history_json(shape, acl, prefix, None, None));
        }
    }
    let mut hist: Vec<&Item> = prefix.to_vec();
    hist.push(last);
    match exec_from(&w.rt, srv, last.0, &last.1, if last.2 { Protocol::Tcp } else { Protocol::Udp }) {
        Ok(out) => {
            if w.digests && last.1.len() >= 12 && last.1[2] & 0x80 == 0 {
                let mut h = fnv64(&last.1) ^ (acl as u64).wrapping_mul(0x9e3779b97f4a7c15) ^ fnv64(last.0.to_string().as_bytes());
                for it in prefix {
                    h = h.rotate_left(7) ^ fnv64(&it.1) ^ fnv64(it.0.to_string().as_bytes());
                }
                l.nontrivial(h);
            }
            if let Some(f) = judge(&srv.cfg, last.0, &last.1, &out, l) {
                l.violation(&f.key, &f.what, || history_json(shape, acl, &hist, Some(&out), Some(last_alone)));
            }
            if out != last_alone {
                l.violation(
                    "interleave:response-differs-from-request-alone",
                    "the response to a request depends on the requests handled before it on the same server",
                    || history_json(shape, acl, &hist, Some(&out), Some(last_alone)),
                );
            } else {
                l.outcome("checked:interleaved-equals-alone");
            }
        }
        Err(p) => l.violation(&format!("panic:{}", vcore::short_loc(&p.loc)), &p.msg, || history_json(shape, acl, &hist, None, None)),
    }
}

// ------------------------------------------------------------------------------------------
// FU: a really updatable zone (SqliteZoneHandler, allow_update, TSIG key) behind the front door

const FU_KEY1: &[u8] = b"0123456789abcdef0123456789abcdef";
const FU_KEY2: &[u8] = b"fedcba9876543210fedcba9876543210";

fn fu_signer(name: &str, key: &[u8]) -> TSigner {
    TSigner::new(key.to_vec(), TsigAlgorithm::HmacSha256, Name::from_str(name).unwrap(), 300).unwrap()
}

/// Catalog {z. = SqliteZoneHandler(allow_update, AXFR for signed requests, key k1.), a.z. =
/// in-memory}. The updatable zone is built afresh for every case (it is modified).
fn build_fu_srv(w: &mut Worker, acl: usize, policy: usize) -> Srv {
    let ac = &acls()[acl];
    // (the wrapped in-memory zone allows transfers: the SqliteZoneHandler's own policy decides)
    let spec_z = Z { origin: "z.", axfr: true, secondary: false, chain: 0, external: false };
    let spec_az = z("a.z.");
    // per-zone knobs: (allow_update, AXFR policy, TSIG keys configured)
    let (allow_update, axfr, keys) = FU_POLICIES[policy];
    let mut h = SqliteZoneHandler::<TokioRuntimeProvider>::new(
        build_zone(&spec_z, &w.world.owners),
        match axfr {
            0 => AxfrPolicy::Deny,
            1 => AxfrPolicy::AllowAll,
            _ => AxfrPolicy::AllowSigned,
        },
        allow_update,
        false,
    );
    if keys {
        h.set_tsig_signers(vec![fu_signer("k1.", FU_KEY1)]);
    }
    let az = w.zones.entry((spec_az.origin, false, false, false)).or_insert_with(|| Arc::new(build_zone(&spec_az, &w.world.owners))).clone();
    let mut catalog = Catalog::new();
    catalog.upsert(LowerName::new(&Name::from_str("z.").unwrap()), vec![Arc::new(h)]);
    catalog.upsert(LowerName::new(&Name::from_str("a.z.").unwrap()), vec![az]);
    let server = Server::with_access(
        catalog,
        ac.deny.iter().map(|s| s.parse::<ipnet::IpNet>().unwrap()),
        ac.allow.iter().map(|s| s.parse::<ipnet::IpNet>().unwrap()),
    );
    let cfg = fd::Config {
        zones: vec![labels_of("z."), labels_of("a.z.")],
        unjudged: vec![false, false],
        deny: ac.deny.iter().map(|s| fd::Net::parse(s)).collect(),
        allow: ac.allow.iter().map(|s| fd::Net::parse(s)).collect(),
    };
    Srv { server, cfg, src: ac.src.parse().unwrap(), probe_base: vec![] }
}

/// (allow_update, AXFR policy 0 deny / 1 allow all / 2 allow signed, TSIG key configured)
const FU_POLICIES: [(bool, u8, bool); 4] = [(true, 2, true), (false, 0, true), (true, 1, false), (false, 2, false)];

const FU_KINDS: [&str; 12] = [
    "UPDATE z.: add n.z. TXT zone=z.",
    "UPDATE z.: delete RRset x.z. TXT",
    "UPDATE z.: prerequisite 'q.z. in use' (fails) + add",
    "UPDATE z.: add a name outside the zone",
    "UPDATE z.: zone section type A",
    "UPDATE a.z. (in-memory zone, not updatable): add",
    "UPDATE o. (no such zone): add",
    "UPDATE x.z. (not an apex): add",
    "UPDATE z.: no update records",
    "UPDATE z.: prerequisite 'x.z. in use' (holds) + add + delete",
    "QUERY x.z. TXT",
    "QUERY z. AXFR",
];
const FU_SIGN: [&str; 5] = ["unsigned", "key k1 (configured)", "key k2 (unknown name)", "key name k1, wrong secret", "key k1, time 100000 s in the past"];

/// The unsigned request bytes of an FU case, from the independent builder.
fn fu_unsigned(kind: usize, id: u16, edns: usize) -> Vec<u8> {
    let n = |s: &str| name_wire(s);
    let marker = |zone: &str| {
        let t = format!("zone={zone}");
        let mut rd = vec![t.len() as u8];
        rd.extend_from_slice(t.as_bytes());
        rd
    };
    let e = edns_variant(edns);
    // (opcode flags, zone/question, prerequisites, updates)
    let (flags, q, pre, upd): (u16, Vec<u8>, Vec<Vec<u8>>, Vec<Vec<u8>>) = match kind {
        0 => (0x2800, question(&n("z."), 6, 1), vec![], vec![rr(&n("n.z."), 16, 1, 60, &marker("z."))]),
        1 => (0x2800, question(&n("z."), 6, 1), vec![], vec![rr(&n("x.z."), 16, 255, 0, &[])]),
        2 => (0x2800, question(&n("z."), 6, 1), vec![rr(&n("q.z."), 255, 255, 0, &[])], vec![rr(&n("n.z."), 16, 1, 60, &marker("z."))]),
        3 => (0x2800, question(&n("z."), 6, 1), vec![], vec![rr(&n("n.o."), 16, 1, 60, &marker("z."))]),
        4 => (0x2800, question(&n("z."), 1, 1), vec![], vec![rr(&n("n.z."), 16, 1, 60, &marker("z."))]),
        5 => (0x2800, question(&n("a.z."), 6, 1), vec![], vec![rr(&n("n.a.z."), 16, 1, 60, &marker("a.z."))]),
        6 => (0x2800, question(&n("o."), 6, 1), vec![], vec![rr(&n("n.o."), 16, 1, 60, &marker("o."))]),
        7 => (0x2800, question(&n("x.z."), 6, 1), vec![], vec![rr(&n("n.x.z."), 16, 1, 60, &marker("z."))]),
        8 => (0x2800, question(&n("z."), 6, 1), vec![], vec![]),
        9 => (
            0x2800,
            question(&n("z."), 6, 1),
            vec![rr(&n("x.z."), 255, 255, 0, &[])],
            vec![rr(&n("n.z."), 16, 1, 60, &marker("z.")), rr(&n("b.z."), 16, 255, 0, &[])],
        ),
        10 => (0x0100, question(&n("x.z."), 16, 1), vec![], vec![]),
        _ => (0x0000, question(&n("z."), 252, 1), vec![], vec![]),
    };
    let mut m = hdr(id, flags, [1, pre.len() as u16, upd.len() as u16, e.ar_n]);
    m.extend(q);
    for r in pre.iter().chain(upd.iter()) {
        m.extend(r);
    }
    m.extend(e.ar);
    m
}

/// Sign with hickory's client-side signer (the MAC needs the wall clock the server reads).
fn fu_sign(unsigned: &[u8], sign: usize) -> Vec<u8> {
    if sign == 0 {
        return unsigned.to_vec();
    }
    let now = std::time::SystemTime::now().duration_since(std::time::UNIX_EPOCH).unwrap().as_secs();
    let (signer, time) = match sign {
        1 => (fu_signer("k1.", FU_KEY1), now),
        2 => (fu_signer("k2.", FU_KEY2), now),
        3 => (fu_signer("k1.", FU_KEY2), now),
        _ => (fu_signer("k1.", FU_KEY1), now - 100_000),
    };
    let mut m = Message::from_vec(unsigned).expect("FU request decodes");
    m.finalize(&signer, time).expect("client-side signing");
    m.to_vec().expect("encode signed request")
}

#[derive(Clone, Copy, Debug)]
struct FuCase {
    kind: usize,
    sign: usize,
    id: u16,
    edns: usize,
    acl: usize,
    tcp: bool,
    policy: usize,
}

fn fu_json(c: &FuCase, req: Option<&[u8]>, out: Option<&[Vec<u8>]>) -> Value {
    json!({
        "family": "FU",
        "fu": {"kind": c.kind, "sign": c.sign, "id": c.id, "edns": c.edns, "policy": c.policy},
        "policy_what (allow_update, axfr 0 deny/1 all/2 signed, key configured)": format!("{:?}", FU_POLICIES[c.policy]),
        "kind_what": FU_KINDS[c.kind], "sign_what": FU_SIGN[c.sign], "edns_what": EDNS_NAMES[c.edns],
        "acl": c.acl, "acl_what": acls()[c.acl].what, "src": acls()[c.acl].src,
        "proto": if c.tcp { "tcp" } else { "udp" },
        "request_as_sent (the MAC depends on the wall clock)": req.map(hex::enc),
        "responses": out.map(|o| o.iter().map(|r| hex::enc(r)).collect::<Vec<_>>()),
    })
}

// ------------------------------------------------------------------------------------------
// FP: the objects built through the PRODUCTION construction paths, every knob non-default
//
// What `hickory-dns` (bin/src/lib.rs) does with its configuration: zone handlers through
// `FileZoneHandler::try_from_config` / `SqliteZoneHandler::try_from_config(origin, zone_type,
// axfr_policy, enable_dnssec, root_dir, &SqliteConfig{zone_path, journal_path, allow_update,
// tsig_keys[{name, key_file, algorithm, fudge}]})`, `catalog.set_nsid`, `catalog.upsert(zone name,
// handlers)`, `Server::with_access(catalog, deny, allow)`; a second start finds the journal and takes
// the recovery branch of the constructor; embedding applications use `Server::new(handler)`.
// NOT drivable here: `DnsServer::run` itself (TOML -> Config -> the calls above) lives in the
// `hickory-dns` binary crate, which the harness workspace does not build, and its
// `register_socket` / `register_listener(timeout, buffer size)` need real sockets.

const FP_KEY: &[u8] = b"c11-production-path-key-0123456789abcdef";
const FP_DENY: [&str; 2] = ["198.51.100.0/24", "2001:db8::/32"];
const FP_ALLOW: [&str; 1] = ["198.51.100.7/32"];
/// (source, allowed under FP_DENY/FP_ALLOW)
const FP_SOURCES: [(&str, bool); 4] = [("198.51.100.9:5353", false), ("[2001:db8::5]:5353", false), ("198.51.100.7:5353", true), ("192.0.2.1:5353", true)];

fn fp_signer(fudge: u16) -> TSigner {
    TSigner::new(FP_KEY.to_vec(), TsigAlgorithm::HmacSha512, Name::from_str("k1.").unwrap(), fudge).unwrap()
}

fn fp_zone_text(origin: &str) -> String {
    format!(
        "@ 300 IN SOA ns.o. h.o. 1 1 1 1 300\n@ 300 IN NS ns.o.\n@ 300 IN TXT \"zone={origin}\"\nx 300 IN TXT \"zone={origin}\"\n"
    )
}

/// The catalog as the binary builds it from its configuration (production constructors).
fn fp_catalog_from_config(rt: &tokio::runtime::Runtime, dir: &std::path::Path) -> Result<Catalog, String> {
    use hickory_server::store::file::{FileConfig, FileZoneHandler};
    use hickory_server::store::sqlite::{SqliteConfig, TsigKeyConfig};
    let f_name = Name::from_str("f.z.").unwrap();
    let s_name = Name::from_str("s.z.").unwrap();
    let file = FileZoneHandler::try_from_config(
        f_name.clone(),
        ZoneType::Secondary,
        AxfrPolicy::AllowAll,
        Some(dir),
        &FileConfig { zone_path: "f.zone".into() },
        None,
    )?;
    let cfg = SqliteConfig {
        zone_path: "s.zone".into(),
        journal_path: "s.jrnl".into(),
        allow_update: true,
        tsig_keys: vec![TsigKeyConfig { name: "k1.".into(), key_file: "k1.key".into(), algorithm: TsigAlgorithm::HmacSha512, fudge: 123 }],
    };
    let sqlite = rt.block_on(SqliteZoneHandler::<TokioRuntimeProvider>::try_from_config(
        s_name.clone(),
        ZoneType::Primary,
        AxfrPolicy::AllowSigned,
        false,
        Some(dir),
        &cfg,
        None,
    ))?;
    let mut catalog = Catalog::new();
    catalog.set_nsid(Some(hickory_proto::rr::rdata::opt::NSIDPayload::new(*b"fp-nsid").unwrap()));
    catalog.upsert(f_name.into(), vec![Arc::new(file)]);
    catalog.upsert(s_name.into(), vec![Arc::new(sqlite)]);
    Ok(catalog)
}

/// The same configuration built directly (`empty` + `upsert_mut`, `SqliteZoneHandler::new` +
/// setters) — what every other family does.
fn fp_catalog_direct() -> Catalog {
    let owners = |o: &str| vec![Name::from_str(o).unwrap(), Name::from_str(&format!("x.{o}")).unwrap()];
    let f = build_zone(&Z { origin: "f.z.", axfr: true, secondary: true, chain: 0, external: false }, &owners("f.z."));
    let s_mem = build_zone(&Z { origin: "s.z.", axfr: true, secondary: false, chain: 0, external: false }, &owners("s.z."));
    let mut s = SqliteZoneHandler::<TokioRuntimeProvider>::new(s_mem, AxfrPolicy::AllowSigned, true, false);
    s.set_tsig_signers(vec![fp_signer(123)]);
    let mut catalog = Catalog::new();
    catalog.set_nsid(Some(hickory_proto::rr::rdata::opt::NSIDPayload::new(*b"fp-nsid").unwrap()));
    catalog.upsert(LowerName::new(&Name::from_str("f.z.").unwrap()), vec![Arc::new(f)]);
    catalog.upsert(LowerName::new(&Name::from_str("s.z.").unwrap()), vec![Arc::new(s)]);
    catalog
}

/// (what, request bytes, tcp, rcode a source that is allowed must get, minimum ANCOUNT then)
fn fp_probes() -> Vec<(&'static str, Vec<u8>, bool, u16, u16)> {
    let n = |s: &str| name_wire(s);
    let now = std::time::SystemTime::now().duration_since(std::time::UNIX_EPOCH).unwrap().as_secs();
    let sign = |bytes: Vec<u8>, time: u64| {
        let mut m = Message::from_vec(&bytes).expect("FP request decodes");
        // the client's own fudge (300) differs from the one configured for the server's key (123):
        // the server's shows in the TSIG of its responses
        m.finalize(&fp_signer(300), time).expect("sign");
        m.to_vec().unwrap()
    };
    let marker = {
        let t = "zone=s.z.";
        let mut rd = vec![t.len() as u8];
        rd.extend_from_slice(t.as_bytes());
        rd
    };
    let update = |id: u16| {
        let mut m = hdr(id, 0x2800, [1, 0, 1, 0]);
        m.extend(question(&n("s.z."), 6, 1));
        m.extend(rr(&n("n.s.z."), 16, 1, 60, &marker));
        m
    };
    let upd_f = {
        let mut m = hdr(0x0f05, 0x2800, [1, 0, 1, 0]);
        m.extend(question(&n("f.z."), 6, 1));
        m.extend(rr(&n("n.f.z."), 16, 1, 60, &marker));
        m
    };
    vec![
        ("TXT x.f.z. (file zone)", build_request(0x0f01, 0x0100, &n("x.f.z."), 16, 1, 0), false, 0, 1),
        ("SOA f.z.", build_request(0x0f02, 0x0100, &n("f.z."), 6, 1, 0), false, 0, 1),
        ("TXT q.f.z. (no such name)", build_request(0x0f03, 0x0100, &n("q.f.z."), 16, 1, 0), false, 3, 0),
        ("AXFR f.z. (axfr_policy AllowAll)", build_request(0x0f04, 0x0000, &n("f.z."), 252, 1, 0), true, 0, 4),
        ("UPDATE f.z. (zone_type Secondary)", upd_f, false, 4, 0),
        ("TXT x.s.z. (sqlite zone)", build_request(0x0f06, 0x0100, &n("x.s.z."), 16, 1, 0), false, 0, 1),
        ("AXFR s.z. unsigned (axfr_policy AllowSigned)", build_request(0x0f07, 0x0000, &n("s.z."), 252, 1, 0), true, 5, 0),
        ("AXFR s.z. signed with the configured key", sign(build_request(0x0f08, 0x0000, &n("s.z."), 252, 1, 0), now), true, 0, 4),
        ("UPDATE s.z. signed (allow_update, key, algorithm)", sign(update(0x0f09), now), false, 0, 0),
        ("UPDATE s.z. signed 1000 s ago (outside the window)", sign(update(0x0f0a), now - 1000), false, 9, 0),
        ("UPDATE s.z. unsigned", update(0x0f0b), false, 5, 0),
        ("TXT n.s.z. (the name the update added)", build_request(0x0f0c, 0x0100, &n("n.s.z."), 16, 1, 0), false, 0, 1),
        ("TXT x.o. (no zone)", build_request(0x0f0d, 0x0100, &n("x.o."), 16, 1, 0), false, 5, 0),
        ("TXT x.f.z. with NSID (catalog.set_nsid)", build_request(0x0f0e, 0x0100, &n("x.f.z."), 16, 1, 9), false, 0, 1),
    ]
}

/// Run the probe set against `server` from every FP source; `lists` = the FP deny/allow lists are
/// configured. Returns the (rcode, an, ns, ar, tc, response TSIG fudge) tuples for the differential.
fn fp_run<T: hickory_server::server::RequestHandler>(
    w: &Worker,
    path: &str,
    server: &Server<T>,
    lists: bool,
    l: &mut Local,
) -> Vec<(u16, u16, u16, u16, bool, u16)> {
    let cfg = fd::Config {
        zones: vec![labels_of("f.z."), labels_of("s.z.")],
        unjudged: vec![false, false],
        deny: if lists { FP_DENY.iter().map(|s| fd::Net::parse(s)).collect() } else { vec![] },
        allow: if lists { FP_ALLOW.iter().map(|s| fd::Net::parse(s)).collect() } else { vec![] },
    };
    let mut seen = vec![];
    for (src, allowed_with_lists) in FP_SOURCES {
        let src: SocketAddr = src.parse().unwrap();
        let allowed = !lists || allowed_with_lists;
        for (what, req, tcp, want_rcode, min_an) in fp_probes() {
            l.eval();
            l.nontrivial(fnv64(&req[..12.min(req.len())]) ^ fnv64(format!("{path}{src}{what}").as_bytes()));
            let witness = |out: Option<&[Vec<u8>]>| {
                json!({"family": "FP", "fp": true, "path": path, "probe": what, "src": src.to_string(), "lists_configured": lists,
                       "request": hex::enc(&req), "responses": out.map(|o| o.iter().map(|r| hex::enc(r)).collect::<Vec<_>>())})
            };
            match exec_on(&w.rt, server, src, &req, if tcp { Protocol::Tcp } else { Protocol::Udp }) {
                Ok(out) => {
                    if let Some(f) = judge(&cfg, src, &req, &out, l) {
                        l.violation(&format!("construction-path:{path}:{}", f.key), &format!("{what}: {}", f.what), || witness(Some(&out)));
                    }
                    let Some(r) = out.first().filter(|r| r.len() >= 12) else {
                        seen.push((0xffff, 0, 0, 0, false, 0));
                        continue;
                    };
                    let v = view_response(r);
                    let an = u16::from_be_bytes([r[6], r[7]]);
                    // fudge field of the TSIG the server signed the response with (0: unsigned response)
                    let fudge = v
                        .records
                        .last()
                        .filter(|x| x.rtype == 250)
                        .and_then(|x| fd::read_name(r, x.rdata_start).ok())
                        .and_then(|a| r.get(a.next + 6..a.next + 8).map(|f| u16::from_be_bytes([f[0], f[1]])))
                        .unwrap_or(0);
                    seen.push((v.rcode, an, u16::from_be_bytes([r[8], r[9]]), u16::from_be_bytes([r[10], r[11]]), v.tc, fudge));
                    let want = if allowed { want_rcode } else { fd::REFUSED };
                    if fudge != 0 && fudge != 123 {
                        l.violation(
                            &format!("construction-path:{path}:configured-knob-not-in-effect"),
                            &format!("{what} from {src}: the response is signed with fudge {fudge}, the key is configured with fudge 123"),
                            || witness(Some(&out)),
                        );
                    } else if v.rcode != want || (allowed && an < min_an) {
                        l.violation(
                            &format!("construction-path:{path}:configured-knob-not-in-effect"),
                            &format!(
                                "{what} from {src}: rcode {} with {an} answers, the configured knob values call for {} with >= {} answers",
                                fd::rcode_name(v.rcode),
                                fd::rcode_name(want),
                                if allowed { min_an } else { 0 }
                            ),
                            || witness(Some(&out)),
                        );
                    } else {
                        l.outcome("checked:construction-path-probe");
                    }
                }
                Err(p) => {
                    seen.push((0xfffe, 0, 0, 0, false, 0));
                    l.violation(&format!("panic:{}", vcore::short_loc(&p.loc)), &p.msg, || witness(None));
                }
            }
        }
    }
    seen
}

fn run_fp(w: &Worker, l: &mut Local) {
    let dir = std::path::PathBuf::from(format!("/var/tmp/c11-fp-{}", std::process::id()));
    let _ = std::fs::remove_dir_all(&dir);
    std::fs::create_dir_all(&dir).expect("scratch directory for zone files");
    std::fs::write(dir.join("f.zone"), fp_zone_text("f.z.")).unwrap();
    std::fs::write(dir.join("s.zone"), fp_zone_text("s.z.")).unwrap();
    std::fs::write(dir.join("k1.key"), FP_KEY).unwrap();
    let nets = |v: &[&str]| v.iter().map(|s| s.parse::<ipnet::IpNet>().unwrap()).collect::<Vec<_>>();
    let fail = |l: &mut Local, what: &str, e: String| {
        l.violation(&format!("construction-path:{what}:constructor-failed"), &e, || json!({"family": "FP", "fp": true, "path": what}));
    };
    // first start: production constructors + Server::with_access with DIFFERENT deny / allow lists
    match fp_catalog_from_config(&w.rt, &dir) {
        Ok(catalog) => {
            let server = Server::with_access(catalog, nets(&FP_DENY), nets(&FP_ALLOW));
            let got = fp_run(w, "from-config+with_access", &server, true, l);
            // differential: the same knob values through the direct constructors
            let direct = Server::with_access(fp_catalog_direct(), nets(&FP_DENY), nets(&FP_ALLOW));
            let want = fp_run(w, "direct+with_access", &direct, true, l);
            if got != want {
                let k = got.iter().zip(want.iter()).position(|(a, b)| a != b).unwrap_or(0);
                l.violation(
                    "construction-path:from-config-differs-from-direct-construction",
                    &format!("probe number {k} (sources x probes): from-config {:?}, direct {:?} (rcode, an, ns, ar, tc, response TSIG fudge)", got.get(k), want.get(k)),
                    || json!({"family": "FP", "fp": true, "from_config": format!("{got:?}"), "direct": format!("{want:?}")}),
                );
            } else {
                l.outcome("checked:construction-path-differential");
            }
        }
        Err(e) => fail(l, "from-config+with_access", e),
    }
    // second start on the same directory (the journal exists now: recovery branch) + Server::new
    match fp_catalog_from_config(&w.rt, &dir) {
        Ok(catalog) => {
            let server = Server::new(catalog);
            let got = fp_run(w, "second-start+Server::new", &server, false, l);
            let direct = Server::with_access(fp_catalog_direct(), Vec::<ipnet::IpNet>::new(), Vec::<ipnet::IpNet>::new());
            // (the direct zone has not seen the first start's update: apply it once, unjudged)
            let warm = fp_probes();
            let _ = exec_on(&w.rt, &direct, "192.0.2.1:5353".parse().unwrap(), &warm[8].1, Protocol::Udp);
            let want = fp_run(w, "direct+empty-lists", &direct, false, l);
            if got != want {
                let k = got.iter().zip(want.iter()).position(|(a, b)| a != b).unwrap_or(0);
                l.violation(
                    "construction-path:second-start-differs-from-direct-construction",
                    &format!("probe number {k}: second start {:?}, direct {:?} (rcode, an, ns, ar, tc, response TSIG fudge)", got.get(k), want.get(k)),
                    || json!({"family": "FP", "fp": true, "second_start": format!("{got:?}"), "direct": format!("{want:?}")}),
                );
            } else {
                l.outcome("checked:construction-path-differential");
            }
        }
        Err(e) => fail(l, "second-start+Server::new", e),
    }
    let _ = std::fs::remove_dir_all(&dir);
}

fn run_fu(w: &mut Worker, c: &FuCase, l: &mut Local) {
    l.eval();
    let srv = build_fu_srv(w, c.acl, c.policy);
    let req = fu_sign(&fu_unsigned(c.kind, c.id, c.edns), c.sign);
    let proto = if c.tcp { Protocol::Tcp } else { Protocol::Udp };
    l.nontrivial(fnv64(format!("{c:?}").as_bytes()));
    let mut accepted = false;
    match exec(&w.rt, &srv, &req, proto) {
        Ok(out) => {
            if let Some(f) = judge(&srv.cfg, srv.src, &req, &out, l) {
                l.violation(&f.key, &f.what, || fu_json(c, Some(&req), Some(&out)));
            }
            if let Some(r) = out.first() {
                if r.len() >= 12 {
                    let v = view_response(r);
                    let signed = v.records.last().map(|x| x.rtype == 250).unwrap_or(false);
                    if c.kind < 10 {
                        accepted = v.rcode == fd::NOERROR;
                        l.outcome(&format!("fu:update:{}:{}{}", FU_SIGN[c.sign], fd::rcode_name(v.rcode), if signed { ":tsig-in-response" } else { "" }));
                    } else {
                        l.outcome(&format!("fu:query:{}:{}{}", FU_SIGN[c.sign], fd::rcode_name(v.rcode), if signed { ":tsig-in-response" } else { "" }));
                    }
                }
            }
        }
        Err(p) => l.violation(&format!("panic:{}", vcore::short_loc(&p.loc)), &format!("handler panicked: {}", p.msg), || fu_json(c, Some(&req), None)),
    }
    // afterwards, on the same server: the name the update adds, and the usual probe, both judged
    // by the ordinary oracle (right zone, one response, ...)
    let follow = build_request(0x7778, 0x0100, &name_wire("n.z."), 16, 1, 0);
    for (what, q) in [("follow-up n.z. TXT", &follow), ("probe", &w.probe)] {
        match exec(&w.rt, &srv, q, Protocol::Udp) {
            Ok(out) => {
                if let Some(f) = judge(&srv.cfg, srv.src, q, &out, l) {
                    l.violation(&format!("after-update:{}", f.key), &format!("{what}: {}", f.what), || {
                        let mut j = fu_json(c, Some(&req), None);
                        j["follow_up_request"] = json!(hex::enc(q));
                        j["follow_up_responses"] = json!(out.iter().map(|r| hex::enc(r)).collect::<Vec<_>>());
                        j
                    });
                }
                if what != "probe" && accepted && c.policy == 0 && (c.kind == 0 || c.kind == 9) {
                    let served = out.first().map(|r| r.len() >= 12 && u16::from_be_bytes([r[6], r[7]]) >= 1).unwrap_or(false);
                    l.outcome(if served { "fu:accepted-update-is-served" } else { "obs:accepted-update-not-served" });
                }
            }
            Err(p) => l.violation(&format!("after-update:panic:{}", vcore::short_loc(&p.loc)), &p.msg, || fu_json(c, Some(&req), None)),
        }
    }
}

// ------------------------------------------------------------------------------------------
// FC: the catalog is modified (upsert / replace / remove) between requests

/// A catalog that can be modified while the server owns it (what an embedding application does
/// with a lock around its `Catalog`).
struct SharedCatalog(Arc<tokio::sync::RwLock<Catalog>>);

#[async_trait::async_trait]
impl hickory_server::server::RequestHandler for SharedCatalog {
    async fn handle_request<R: hickory_server::server::ResponseHandler, T: hickory_net::runtime::Time>(
        &self,
        request: &hickory_server::server::Request,
        response_handle: R,
    ) {
        self.0.read().await.handle_request::<R, T>(request, response_handle).await
    }
}

/// (what, origin as passed to the catalog, Some(generation) = upsert / None = remove)
const FC_MUTATIONS: [(&str, &str, Option<u32>); 10] = [
    ("upsert a.z. (generation 1)", "a.z.", Some(1)),
    ("upsert a.z. (generation 2)", "a.z.", Some(2)),
    ("remove a.z.", "a.z.", None),
    ("upsert a.a.z.", "a.a.z.", Some(1)),
    ("remove a.a.z.", "a.a.z.", None),
    ("upsert z. (generation 2)", "z.", Some(2)),
    ("remove z.", "z.", None),
    ("upsert A.Z. (upper case key, generation 2)", "A.Z.", Some(2)),
    ("upsert . (generation 1)", ".", Some(1)),
    ("remove .", ".", None),
];
const FC_STARTS: [&[&str]; 3] = [&["z."], &["z.", "a.z."], &[]];
const FC_QUERIES: [&str; 6] = ["x.a.z.", "a.z.", "x.z.", "x.a.a.z.", "o.", "q.a.z."];

fn fc_json(start: usize, muts: &[usize], step: usize, req: Option<&[u8]>, out: Option<&[Vec<u8>]>) -> Value {
    json!({
        "family": "FC",
        "fc": {"start": start, "mutations": muts},
        "start_catalog": FC_STARTS[start],
        "mutations_what": muts.iter().map(|m| FC_MUTATIONS[*m].0).collect::<Vec<_>>(),
        "queried_after_mutation_number": step,
        "request": req.map(hex::enc),
        "responses": out.map(|o| o.iter().map(|r| hex::enc(r)).collect::<Vec<_>>()),
    })
}

/// The generation the zone data in a response shows: `gen=<n>` second TXT string, else the SOA
/// serial, else None.
fn shown_generation(r: &[u8], v: &RespView) -> Option<u32> {
    for rec in &v.records[..v.n_ans_auth] {
        let rd = &r[rec.rdata_start..rec.rdata_end];
        match rec.rtype {
            16 if rd.len() > 6 && &rd[1..6] == b"zone=" => {
                let first = 1 + rd[0] as usize;
                if rd.len() > first + 5 && &rd[first + 1..first + 5] == b"gen=" {
                    return String::from_utf8_lossy(&rd[first + 5..]).parse().ok();
                }
                return Some(1);
            }
            6 => {
                let m = fd::read_name(r, rec.rdata_start).ok()?;
                let rn = fd::read_name(r, m.next).ok()?;
                return Some(u32::from_be_bytes([r[rn.next], r[rn.next + 1], r[rn.next + 2], r[rn.next + 3]]));
            }
            _ => {}
        }
    }
    None
}

/// One history: start catalog, then the mutations one by one; all FC_QUERIES after the start and
/// after every mutation, judged against the catalog as it is at that moment.
fn run_fc(w: &mut Worker, start: usize, muts: &[usize], l: &mut Local) {
    let src: SocketAddr = V4.parse().unwrap();
    let mut model: std::collections::BTreeMap<String, u32> = FC_STARTS[start].iter().map(|z| (z.to_string(), 1)).collect();
    let zone_of = |w: &mut Worker, origin: &str, gen: u32| -> Arc<dyn ZoneHandler> {
        // the zone object is keyed by the lower-case origin, whatever case the catalog key is given in
        let lower: &'static str = match origin.to_ascii_lowercase().as_str() {
            "z." => "z.",
            "a.z." => "a.z.",
            "a.a.z." => "a.a.z.",
            _ => ".",
        };
        if gen == 1 {
            w.zones.entry((lower, false, false, false)).or_insert_with(|| Arc::new(build_zone(&z(lower), &w.world.owners))).clone()
        } else {
            Arc::new(build_zone_gen(&z(lower), &w.world.owners, gen))
        }
    };
    let mut catalog = Catalog::new();
    for z0 in FC_STARTS[start] {
        let h = zone_of(w, z0, 1);
        catalog.upsert(LowerName::new(&Name::from_str(z0).unwrap()), vec![h]);
    }
    let shared = Arc::new(tokio::sync::RwLock::new(catalog));
    let server = Server::with_access(SharedCatalog(shared.clone()), Vec::<ipnet::IpNet>::new(), Vec::<ipnet::IpNet>::new());
    for step in 0..=muts.len() {
        if step > 0 {
            let (_, origin, gen) = FC_MUTATIONS[muts[step - 1]];
            let key = LowerName::new(&Name::from_str(origin).unwrap());
            match gen {
                Some(g) => {
                    let h = zone_of(w, origin, g);
                    w.rt.block_on(async { shared.write().await.upsert(key, vec![h]) });
                    model.insert(origin.to_ascii_lowercase(), g);
                }
                None => {
                    w.rt.block_on(async { shared.write().await.remove(&key) });
                    model.remove(&origin.to_ascii_lowercase());
                }
            }
        }
        let cfg = fd::Config {
            zones: model.keys().map(|z| labels_of(z)).collect(),
            unjudged: model.keys().map(|_| false).collect(),
            deny: vec![],
            allow: vec![],
        };
        let gens: Vec<u32> = model.values().copied().collect();
        for (qi, q) in FC_QUERIES.iter().enumerate() {
            l.eval();
            let req = build_request(0x0fc0 + qi as u16, 0x0100, &name_wire(q), if qi == 5 { 1 } else { 16 }, 1, 0);
            l.nontrivial(fnv64(&req) ^ fnv64(format!("{start}{muts:?}{step}").as_bytes()));
            match exec_on(&w.rt, &server, src, &req, Protocol::Udp) {
                Ok(out) => {
                    if let Some(f) = judge(&cfg, src, &req, &out, l) {
                        l.violation(&format!("catalog-mutation:{}", f.key), &f.what, || fc_json(start, muts, step, Some(&req), Some(&out)));
                        continue;
                    }
                    let e = fd::expect(&cfg, src.ip(), &req);
                    if let (Some(zi), Some(r)) = (e.zone, out.first()) {
                        let v = view_response(r);
                        if let Some(g) = shown_generation(r, &v) {
                            if g != gens[zi] {
                                l.violation(
                                    "catalog-mutation:stale-zone-content",
                                    &format!("answered with generation {g} of the zone, the catalog holds generation {}", gens[zi]),
                                    || fc_json(start, muts, step, Some(&req), Some(&out)),
                                );
                            } else {
                                l.outcome("checked:catalog-generation");
                            }
                        }
                    }
                }
                Err(p) => l.violation(&format!("panic:{}", vcore::short_loc(&p.loc)), &p.msg, || fc_json(start, muts, step, Some(&req), None)),
            }
        }
    }
}

fn run_one(w: &mut Worker, family: &str, pl: Place, req: &[u8], l: &mut Local) {
    let slot = pl.shape * acls().len() + pl.acl;
    let proto = if pl.tcp { Protocol::Tcp } else { Protocol::Udp };
    if !w.servers.contains_key(&slot) {
        let mut srv = build_srv(w.world, &mut w.zones, pl.shape, pl.acl);
        // baseline probe, judged by the same oracle
        match exec(&w.rt, &srv, &w.probe, Protocol::Udp) {
            Ok(out) => {
                if let Some(f) = judge(&srv.cfg, srv.src, &w.probe, &out, l) {
                    l.violation(&format!("probe-baseline:{}", f.key), &f.what, || case_json("probe", pl, &w.probe, Some(&out)));
                }
                srv.probe_base = out;
            }
            Err(p) => l.violation(&format!("panic:{}", vcore::short_loc(&p.loc)), &p.msg, || case_json("probe", pl, &w.probe, None)),
        }
        w.servers.insert(slot, srv);
    }
    l.eval();
    let mut rebuild = false;
    {
        let srv = w.servers.get(&slot).unwrap();
        if w.digests && req.len() >= 12 && req[2] & 0x80 == 0 {
            l.nontrivial(fnv64(req) ^ ((slot as u64 * 2 + pl.tcp as u64 + 1).wrapping_mul(0x9e3779b97f4a7c15)));
        }
        match exec(&w.rt, srv, req, proto) {
            Ok(out) => {
                if let Some(f) = judge(&srv.cfg, srv.src, req, &out, l) {
                    l.violation(&f.key, &f.what, || case_json(family, pl, req, Some(&out)));
                }
            }
            Err(p) => {
                rebuild = true;
                l.violation(&format!("panic:{}", vcore::short_loc(&p.loc)), &format!("handler panicked: {}", p.msg), || {
                    case_json(family, pl, req, None)
                });
            }
        }
        // "keeps serving": the fixed probe on the same server object must be answered as before
        match exec(&w.rt, srv, &w.probe, Protocol::Udp) {
            Ok(out) => {
                if out != srv.probe_base {
                    rebuild = true;
                    l.violation(
                        "probe:answer-changed-after-request",
                        &format!("probe answered differently after the request ({} response(s))", out.len()),
                        || {
                            let mut j = case_json(family, pl, req, None);
                            j["probe_responses"] = json!(out.iter().map(|r| hex::enc(r)).collect::<Vec<_>>());
                            j
                        },
                    );
                } else {
                    l.outcome("checked:probe");
                }
            }
            Err(p) => {
                rebuild = true;
                l.violation(&format!("probe:panic:{}", vcore::short_loc(&p.loc)), &p.msg, || case_json(family, pl, req, None));
            }
        }
    }
    if rebuild {
        w.servers.remove(&slot);
        w.zones.clear();
    }
}

// ------------------------------------------------------------------------------------------
// families

const S: [u8; 14] = [0x00, 0x01, 0x02, 0x03, 0x04, 0x0c, 0x3f, 0x40, 0x7f, 0x80, 0xbf, 0xc0, 0xc1, 0xff];

const FLAG_BITS: [u16; 8] = [0, 0x0400, 0x0200, 0x0100, 0x0080, 0x0040, 0x0020, 0x0010];

/// Section-count variants of the header product: (counts, body) from the question bytes `q` and
/// the EDNS variant `e`.
const N_COUNT_VARIANTS: u64 = 16;
fn count_variant(i: u64, id: u16, flags: u16, q: &[u8], e: &Extra) -> Vec<u8> {
    let a_rr = rr(&[0xc0, 0x0c], 1, 1, 1, &[192, 0, 2, 9]);
    let ns_rr = rr(&[0xc0, 0x0c], 2, 1, 1, &[2, b'n', b's', 0xc0, 0x0c]);
    let txt_rr = rr(&[0xc0, 0x0c], 16, 1, 1, &[3, b'a', b'b', b'c']);
    let cat = |c: [u16; 4], parts: &[&[u8]]| {
        let mut v = hdr(id, flags, c);
        for p in parts {
            v.extend_from_slice(p);
        }
        v
    };
    let en = e.ar_n;
    match i {
        0 => cat([1, 0, 0, en], &[q, &e.ar]),
        1 => cat([1, 1, 0, en], &[q, &a_rr, &e.ar]),
        2 => cat([1, 0, 1, en], &[q, &ns_rr, &e.ar]),
        3 => cat([1, 0, 0, 1 + en], &[q, &txt_rr, &e.ar]),
        4 => cat([0, 0, 0, en], &[q, &e.ar]),
        5 => cat([2, 0, 0, en], &[q, &e.ar]),
        6 => cat([2, 0, 0, en], &[q, q, &e.ar]),
        7 => cat([65535, 0, 0, en], &[q, &e.ar]),
        8 => cat([1, 1, 0, en], &[q, &e.ar]),
        9 => cat([1, 65535, 0, 0], &[q, &e.ar]),
        10 => cat([1, 0, 65535, 0], &[q, &e.ar]),
        11 => cat([1, 0, 0, 65535], &[q, &e.ar]),
        12 => cat([1, 0, 0, en], &[q, &e.ar, &a_rr]),
        13 => cat([0, 0, 0, 0], &[]),
        14 => cat([1, 0, 0, 0], &[]),
        15 => cat([1, 0, 0, en], &[&q[..q.len() - 1], &e.ar]),
        _ => unreachable!(),
    }
}

/// Representative requests whose complete prefix / single-byte-substitution neighbourhoods are
/// enumerated.
fn seeds(world: &World) -> Vec<(&'static str, Vec<u8>)> {
    let n = |s: &str| name_wire(s);
    let qn = |what: &str| world.qn.iter().find(|q| q.what == what).unwrap().wire.clone();
    let mut v: Vec<(&'static str, Vec<u8>)> = vec![];
    let e0 = Extra::default();
    v.push(("TXT x.a.z.", build_request(0x0102, 0x0100, &n("x.a.z."), 16, 1, 0)));
    v.push(("A a.a.z.", build_request(0x0102, 0x0000, &n("a.a.z."), 1, 1, 0)));
    v.push(("SOA z.", build_request(0xffff, 0x0100, &n("z."), 6, 1, 0)));
    v.push(("NS a.z.", build_request(0x0001, 0x0100, &n("a.z."), 2, 1, 0)));
    v.push(("TXT o. (outside)", build_request(0x0102, 0x0100, &n("o."), 16, 1, 0)));
    v.push(("TXT . (root)", build_request(0x0102, 0x0100, &n("."), 16, 1, 0)));
    v.push(("TXT X.a.Z. mixed case", build_request(0x0102, 0x0100, &n("X.a.Z."), 16, 1, 0)));
    v.push(("TXT x.b.z. edns v0", build_request(0x0102, 0x0100, &n("x.b.z."), 16, 1, 1)));
    v.push(("TXT x.a.z. edns v1", build_request(0x0102, 0x0100, &n("x.a.z."), 16, 1, 2)));
    v.push(("TXT x.a.z. edns v0 DO", build_request(0x0102, 0x0120, &n("x.a.z."), 16, 1, 7)));
    v.push(("TXT x.a.z. edns option", build_request(0x0102, 0x0100, &n("x.a.z."), 16, 1, 8)));
    v.push(("TXT x.a.z. edns nsid", build_request(0x0102, 0x0100, &n("x.a.z."), 16, 1, 9)));
    v.push(("TXT x.a.z. two OPTs", build_request(0x0102, 0x0100, &n("x.a.z."), 16, 1, 11)));
    v.push(("TXT x.a.z. OPT in answer", build_request(0x0102, 0x0100, &n("x.a.z."), 16, 1, 12)));
    v.push(("AXFR z.", build_request(0x0102, 0x0000, &n("z."), 252, 1, 0)));
    v.push(("ANY a.z.", build_request(0x0102, 0x0100, &n("a.z."), 255, 1, 0)));
    v.push(("TXT x.a.z. class CH", build_request(0x0102, 0x0100, &n("x.a.z."), 16, 3, 0)));
    v.push(("type 65535 class ANY", build_request(0x0102, 0x0100, &n("x.z."), 65535, 255, 0)));
    v.push(("STATUS", build_request(0x0102, 0x1000, &n("z."), 1, 1, 0)));
    v.push(("opcode 9", build_request(0x0102, 0x4800, &n("z."), 1, 1, 1)));
    v.push(("IQUERY", build_request(0x0102, 0x0800, &n("z."), 1, 1, 0)));
    // NOTIFY with the SOA in the answer section
    {
        let q = question(&n("a.z."), 6, 1);
        let mut soa = n("ns.o.");
        soa.extend(n("h.o."));
        soa.extend([0, 0, 0, 2, 0, 0, 0, 1, 0, 0, 0, 1, 0, 0, 0, 1, 0, 0, 1, 44]);
        let mut m = hdr(0x0102, 0x2400, [1, 1, 0, 0]);
        m.extend(&q);
        m.extend(rr(&[0xc0, 0x0c], 6, 1, 300, &soa));
        v.push(("NOTIFY a.z. with SOA", m));
    }
    // UPDATE z.: add an A, delete an RRset (class ANY, empty RDATA), prerequisite name-in-use
    {
        let mut m = hdr(0x0102, 0x2800, [1, 1, 2, 0]);
        m.extend(question(&n("z."), 6, 1));
        m.extend(rr(&n("x.z."), 255, 255, 0, &[]));
        m.extend(rr(&n("n.z."), 1, 1, 60, &[192, 0, 2, 7]));
        m.extend(rr(&n("x.z."), 16, 255, 0, &[]));
        v.push(("UPDATE z.", m));
    }
    v.push(("UPDATE zone type A", build_request(0x0102, 0x2800, &n("z."), 1, 1, 0)));
    v.push(("UPDATE o. (no zone) edns v0", build_request(0x0102, 0x2800, &n("o."), 6, 1, 1)));
    v.push(("query + A answer", count_variant(1, 0x0102, 0x0100, &question(&n("x.a.z."), 16, 1), &e0)));
    v.push(("query + NS authority (compressed)", count_variant(2, 0x0102, 0x0100, &question(&n("x.a.z."), 16, 1), &e0)));
    v.push(("query + TXT additional + OPT", count_variant(3, 0x0102, 0x0100, &question(&n("x.a.z."), 16, 1), &edns_variant(1))));
    v.push(("qname pointer c002", build_request(0x1234, 0x0100, &qn("pointer c002 (into the flags)"), 1, 1, 0)));
    v.push(("qname pointer c004", build_request(0x1234, 0x0100, &qn("pointer c004 (into QDCOUNT)"), 16, 1, 0)));
    v.push(("qname z + pointer", build_request(0x1234, 0x0100, &qn("z + pointer c004"), 16, 1, 1)));
    v.push(("qname 255 octets", build_request(0x0102, 0x0100, &qn("255 octets under a.z."), 16, 1, 0)));
    v.push(("qname 255 octets edns", build_request(0x0102, 0x0100, &qn("255 octets under o."), 16, 1, 1)));
    v.push(("QDCOUNT 0", count_variant(13, 0x0102, 0x0100, &[], &e0)));
    v.push(("two questions", count_variant(6, 0x0102, 0x0100, &question(&n("x.a.z."), 16, 1), &e0)));
    v.push(("response with answer", count_variant(1, 0x0102, 0x8180, &question(&n("x.a.z."), 16, 1), &e0)));
    v.push(("all flag bits", build_request(0x0102, 0x07f0, &n("x.a.z."), 16, 1, 0)));
    v.push(("request rcode 15", build_request(0x0102, 0x010f, &n("a.z."), 16, 1, 0)));
    v.push(("trailing record", count_variant(12, 0x0102, 0x0100, &question(&n("x.a.z."), 16, 1), &e0)));
    // TSIG-bearing query (C13 judges the TSIG semantics; here: one response, id, question)
    {
        let mut rd = n("hmac-sha256.");
        rd.extend([0, 0, 0x65, 0x53, 0xf1, 0x00, 1, 44]); // time, fudge
        rd.extend([0, 4, 1, 2, 3, 4]); // mac
        rd.extend([0x01, 0x02, 0, 0, 0, 0]); // original id, error, other len
        let mut m = hdr(0x0102, 0x0100, [1, 0, 0, 1]);
        m.extend(question(&n("x.a.z."), 16, 1));
        m.extend(rr(&n("key."), 250, 255, 0, &rd));
        v.push(("TSIG-signed query (unknown key)", m));
    }
    v
}

fn f6_worker(world: &World, digests: bool) -> Worker<'_> {
    let mut w = Worker::new(world);
    w.digests = digests;
    w
}

fn place_list(shapes: &[usize], acls: &[usize], protos: &[bool]) -> Vec<Place> {
    let mut v = vec![];
    for &shape in shapes {
        for &acl in acls {
            for &tcp in protos {
                v.push(Place { shape, acl, tcp });
            }
        }
    }
    v
}

fn rotate(i: u64, n: u64, seed: u64) -> u64 {
    if n == 0 {
        return 0;
    }
    (i + seed.wrapping_mul(0x9e3779b97f4a7c15) % n) % n
}

fn main() {
    // a stack overflow / abort in the code under test must become a verdict, not a dead check
    vcore::supervise("C11");
    vcore::install_log_evaluation(); // logging is part of the environment: log arguments are evaluated as under a real subscriber
    let ctx = Ctx::from_args("C11", "exploration");
    let thorough = !ctx.quick();
    let world = World::new();

    if let Some((_key, case)) = ctx.replay_case() {
        let mut w = Worker::new(&world);
        if case["fp"].as_bool() == Some(true) {
            ctx.with_local(|l| run_fp(&w, l));
            ctx.finish(false);
        }
        if case["fc"].is_object() {
            let start = case["fc"]["start"].as_u64().unwrap() as usize;
            let muts: Vec<usize> = case["fc"]["mutations"].as_array().unwrap().iter().map(|x| x.as_u64().unwrap() as usize).collect();
            ctx.with_local(|l| run_fc(&mut w, start, &muts, l));
            ctx.finish(false);
        }
        if case["fu"].is_object() {
            let c = FuCase {
                kind: case["fu"]["kind"].as_u64().unwrap() as usize,
                sign: case["fu"]["sign"].as_u64().unwrap() as usize,
                id: case["fu"]["id"].as_u64().unwrap() as u16,
                edns: case["fu"]["edns"].as_u64().unwrap() as usize,
                acl: case["acl"].as_u64().unwrap() as usize,
                tcp: case["proto"].as_str() == Some("tcp"),
                policy: case["fu"]["policy"].as_u64().unwrap_or(0) as usize,
            };
            ctx.with_local(|l| run_fu(&mut w, &c, l));
            ctx.finish(false);
        }
        if let Some(h) = case["history"].as_array() {
            let shape = case["shape"].as_u64().unwrap() as usize;
            let acl = case["acl"].as_u64().unwrap() as usize;
            let items: Vec<Item> = h
                .iter()
                .map(|x| (x["src"].as_str().unwrap().parse().unwrap(), hex::dec(x["request"].as_str().unwrap()).unwrap(), x["proto"].as_str() == Some("tcp")))
                .collect();
            ctx.with_local(|l| {
                let last = items.last().unwrap().clone();
                let base = alone(&mut w, shape, acl, &last, l);
                let srv = build_srv(&world, &mut w.zones, shape, acl);
                let prefix: Vec<&Item> = items[..items.len() - 1].iter().collect();
                run_history(&w, &srv, shape, acl, &prefix, &last, &base, l);
                eprintln!("replay: alone {:?}", base.iter().map(|r| hex::enc(r)).collect::<Vec<_>>());
            });
            ctx.finish(false);
        }
        let pl = Place {
            shape: case["shape"].as_u64().unwrap() as usize,
            acl: case["acl"].as_u64().unwrap() as usize,
            tcp: case["proto"].as_str() == Some("tcp"),
        };
        let req = hex::dec(case["request"].as_str().unwrap()).expect("request hex");
        ctx.with_local(|l| run_one(&mut w, "replay", pl, &req, l));
        {
            // show what the reference expects and what the server sent
            let srv = build_srv(&world, &mut w.zones, pl.shape, pl.acl);
            let e = fd::expect(&srv.cfg, srv.src.ip(), &req);
            eprintln!(
                "replay: respond={} {} id={:#06x} opcode={} parse={:?}({}) gates={:?} tolerated={:?} rcodes={} zone={:?} plain={}",
                e.respond, e.why_silent, e.id, e.opcode, e.parse, e.parse_reason, e.gates, e.tolerated, e.rcodes.describe(),
                e.zone.map(|z| SHAPES[pl.shape].zones[z].origin), e.plain
            );
            match exec(&w.rt, &srv, &req, if pl.tcp { Protocol::Tcp } else { Protocol::Udp }) {
                Ok(out) => {
                    for r in &out {
                        eprintln!("replay: response {}", hex::enc(r));
                        eprintln!("replay: hickory reads it as {:?}", Message::from_vec(r).map(|m| (m.metadata.response_code, m.queries.iter().map(|q| q.to_string()).collect::<Vec<_>>(), m.answers.len(), m.authorities.len(), m.additionals.len())).map_err(|e| e.to_string()));
                    }
                    if out.is_empty() {
                        eprintln!("replay: no response");
                    }
                }
                Err(p) => eprintln!("replay: panic {} at {}", p.msg, p.loc),
            }
        }
        ctx.finish(false);
    }

    ctx.set_rule(
        "E-ENUM: every element of six declared request families is executed on the real Server front door (header gate, \
         response gate, opcode gate, question parse, access lists, full parse) + real Catalog + real InMemoryZoneHandlers, \
         each followed by a fixed probe query on the SAME server object. Configurations: 10 catalog shapes (single, nested 2/3, \
         siblings, root, root+z, empty, chained [skip-all, in-memory], root+a.z, z+a.a.z; every zone carries a TXT marker \
         naming itself at every queried owner it encloses) x 14 access-list/source configurations (v4, v4-mapped v6, v6) x \
         UDP/TCP. Families: (FU) a really updatable zone (SqliteZoneHandler, allow_update, TSIG key, AXFR for signed requests) next to an in-memory zone: 10 UPDATE shapes (applied, prerequisite fails/holds, out of zone, bad zone type, zone not updatable / unknown / not an apex, empty) + TXT and AXFR queries x {unsigned, configured key, unknown key, wrong secret, stale time} x ids x EDNS {none,v0,v1} x allowed/denied source x UDP/TCP, each followed by a query for the added name and the probe; (FI) requests of 7 SOURCES x 12 request kinds INTERLEAVED on one server object under 7 list configurations x 2 shapes: every pair (thorough: every triple) history, the last response must equal the response to the same request on a brand-new server; (FS) 5 shapes with one deviating dimension (zone transfers allowed, origins configured in upper/mixed case, secondary zones, chains [skip,skip,zone] / [zone,skip], NSID configured) x names x qtypes incl. AXFR/IXFR/ANY x EDNS incl. NSID; (FE) EDNS option bodies: every short OPT RDATA string and every option code x every short data string, lengths exact/short/long, EDNS version 0 and 1; (FL) large requests (65,000-octet RDATA, 4000 records per section, 15,000 options, 65,535-octet messages); (FA) access PRODUCT: 6 sources {v4, v4-mapped, ::1, v4-compatible ::a.b.c.d, global v6, link-local} x deny list x allow list, each list EVERY subset of <= 2 (thorough <= 3) of a 10-net alphabet relative to the source (own host net, covering nets, wrong-family readings, catch-alls, unrelated nets of both families) x UDP/TCP x 2 queries, judged only where the three readings of the documented list semantics agree; (F0b) all configurations x ALL names of 1..3 labels (+ all l1.l2.a.z.) over the label alphabet {*,a,x,z} (thorough: + {A, '.', NUL, **}) x {TXT,A,SOA} x EDNS {none,v0}; (F0) all configurations x 34 query names (apexes, names under each zone, outside every zone, root, \
         label-boundary near-misses, upper/mixed case, 255- and 256-octet names, compression pointers into the header) x 6 \
         plain qtypes x EDNS {none,v0,DO} x flags x ids; (F1) all configurations x names x qtypes x EDNS {none,v0,v1,v255,..} x \
         EVERY opcode 0..15; (F2) shapes x access classes x UDP/TCP x names x 9 qtypes x 4 qclasses x 16 EDNS variants (payload \
         0/512/65535, DO, options, two OPTs, OPT in answer/authority, OPT owner not root, option overrun) x opcodes; (F3) \
         header product id{0,1,ffff} x QR x opcode 0..15 x {none,AA,TC,RD,RA,Z,AD,CD} x rcode nibble {0,15} x 16 section-count \
         variants (consistent/inconsistent with the body) x names x EDNS; (F4) EVERY prefix and EVERY single-byte \
         substitution (quick: structural alphabet S = {00,01,02,03,04,0c,3f,40,7f,80,bf,c0,c1,ff}; thorough: all 256 values, \
         plus every PAIR of substitutions from S) of 40 representative requests (queries, EDNS variants, AXFR/ANY/CH, STATUS, \
         IQUERY, NOTIFY, UPDATE, records in every section, pointer qnames, long names, QDCOUNT 0/2, a response, TSIG); (F5) \
         ALL strings over S of length <= 5 (thorough 6) as whole messages; (F6) ALL strings over S of length <= 5 (thorough 6, \
         plus all 7-octet bodies starting with a one-octet label) as the body behind 3 fixed headers. Oracle = reference front \
         door written from the statement (frontdoor.rs, no hickory code): number of responses is 0 iff len<12 or QR=1, else \
         exactly 1 with QR=1 and the request's id; for queries/updates not answered FORMERR the \
         DECODED question equals the request's (name case-sensitively, type, class); the rcode is a member of the SET of codes \
         the statement admits for the conditions that hold (unsupported opcode->NOTIMP, body no RFC reading accepts->FORMERR, \
         denied source->REFUSED, EDNS version>0->BADVERS, no enclosing zone->REFUSED, otherwise NOERROR/NXDOMAIN for plain \
         class-IN queries; FORMERR merely tolerated where readings of the RFC differ); answers identify (TXT marker, SOA/NS \
         owner) the zone whose origin is the longest label-wise suffix of the query name; no panic; the probe is answered \
         byte-identically afterwards. Non-trivial = distinct (configuration, request) with >= 12 bytes and QR=0.",
    );
    ctx.assume("vref::wire record walker and the c11 reference name reader (RFC 1035 4.1.4) decode the responses");
    ctx.assume("InMemoryZoneHandler lookup of an existing TXT/SOA/NS owner is correct (C10's business); C11 only identifies WHICH zone answered");
    ctx.assume("requests whose parse status depends on the reading of the RFC (trailing bytes, unvalidated RDATA, pointer in the question, QDCOUNT != 1, TSIG present) may get FORMERR or the normal answer");

    let nq = world.qn.len() as u64;
    let nshape = N_BASE_SHAPES as u64;
    let nacl = N_BASE_ACLS as u64;
    let seed = ctx.seed;

    // per-family wall time (seconds) for the evidence
    let fam_times: std::sync::Mutex<Vec<(String, f64, u64)>> = std::sync::Mutex::new(vec![]);
    let fam_last = std::cell::Cell::new((ctx.elapsed_s(), 0u64));
    let fam_mark = |name: &str| {
        let (t0, e0) = fam_last.get();
        let (t1, e1) = (ctx.elapsed_s(), ctx.evals());
        fam_times.lock().unwrap().push((name.to_string(), ((t1 - t0) * 100.0).round() / 100.0, e1 - e0));
        fam_last.set((t1, e1));
    };

    // ---- F0: zone dispatch, plain queries ---------------------------------------------------
    {
        // quick keeps every dimension with its smallest non-trivial value set; NS/MX/AAAA and the
        // flag-less header are thorough-only
        let qtypes: Vec<u16> = if thorough { vec![16, 1, 6, 2, 15, 28] } else { vec![16, 1, 6] };
        let edns: [usize; 3] = [0, 1, 7];
        let flagsets: Vec<u16> = if thorough { vec![0x0000, 0x0100, 0x0030] } else { vec![0x0100, 0x0030] };
        let ids: [u16; 2] = [0, 0xffff];
        let od = Odometer::new(&[2, flagsets.len() as u64, 3, qtypes.len() as u64, nq, 2, nacl, nshape]);
        let n = od.space();
        ctx.set("F0_zone_dispatch_cases", json!(n));
        ctx.par_run_init(
            n,
            512,
            |_| Worker::new(&world),
            |i, l, w| {
                let d = od.get(rotate(i, n, seed));
                let pl = Place { shape: d[7] as usize, acl: d[6] as usize, tcp: d[5] == 1 };
                let req = build_request(
                    ids[d[0] as usize],
                    flagsets[d[1] as usize],
                    &w.world.qn[d[4] as usize].wire,
                    qtypes[d[3] as usize],
                    1,
                    edns[d[2] as usize],
                );
                run_one(w, "F0", pl, &req, l);
                if i % 100_003 == 0 {
                    l.sample(case_json("F0", pl, &req, None));
                }
            },
        );
    }

    fam_mark("F0");

    // ---- FA: access product (sources x deny lists x allow lists) ---------------------------
    {
        let t = acl_table();
        let end = if thorough { t.fi_start } else { t.quick_end };
        let n = (end - N_BASE_ACLS) as u64;
        let reqs = [
            build_request(0x0a0a, 0x0100, &name_wire("x.z."), 16, 1, 0),
            build_request(0x0a0b, 0x0000, &name_wire("z."), 1, 1, 1),
        ];
        ctx.set("FA_access_configurations", json!(n));
        ctx.set("FA_access_cases", json!(n * 4));
        ctx.set("FA_sources", json!(ACCESS_SOURCES.iter().map(|s| s.0).collect::<Vec<_>>()));
        ctx.par_run_init(
            n,
            32,
            |_| Worker::new(&world),
            |i, l, w| {
                let acl = N_BASE_ACLS + rotate(i, n, seed) as usize;
                for tcp in [false, true] {
                    let pl = Place { shape: 0, acl, tcp };
                    for r in &reqs {
                        run_one(w, "FA", pl, r, l);
                    }
                    if i % 4001 == 0 && !tcp {
                        l.sample(case_json("FA", pl, &reqs[0], None));
                    }
                }
                // one server object per configuration: drop it, the product is large
                w.servers.remove(&(acl));
            },
        );
    }

    fam_mark("FA");

    // ---- FU: updates and signed requests against a really updatable zone ----------------------
    {
        let ids: [u16; 2] = [0x0001, 0xffff];
        let edns: [usize; 3] = [0, 1, 2];
        let acls_fu: [usize; 3] = [0, 1, 4];
        let od = Odometer::new(&[FU_SIGN.len() as u64, FU_KINDS.len() as u64, 2, 3, 3, 2, FU_POLICIES.len() as u64]);
        let n = od.space();
        ctx.set("FU_updatable_zone_cases", json!(n));
        ctx.set("FU_kinds", json!(FU_KINDS));
        ctx.set("FU_signing", json!(FU_SIGN));
        ctx.par_run_init(
            n,
            8,
            |_| Worker::new(&world),
            |i, l, w| {
                let d = od.get(rotate(i, n, seed));
                let c = FuCase {
                    sign: d[0] as usize,
                    kind: d[1] as usize,
                    id: ids[d[2] as usize],
                    edns: edns[d[3] as usize],
                    acl: acls_fu[d[4] as usize],
                    tcp: d[5] == 1,
                    policy: d[6] as usize,
                };
                run_fu(w, &c, l);
                if i % 211 == 0 {
                    l.sample(fu_json(&c, None, None));
                }
            },
        );
        if ctx.outcome_count("fu:accepted-update-is-served") == 0 {
            ctx.machinery_failure("vacuous run: no update was accepted and served by the updatable zone");
        }
    }

    fam_mark("FU");

    // ---- FP: production construction paths, every knob non-default (see the comment at run_fp) --
    {
        let w = Worker::new(&world);
        ctx.with_local(|l| run_fp(&w, l));
        ctx.set("FP_construction_path_probes", json!(fp_probes().len() * FP_SOURCES.len() * 4));
        if ctx.outcome_count("checked:construction-path-differential") < 2 {
            ctx.machinery_failure("FP: the construction-path differentials did not both run to the end");
        }
    }

    fam_mark("FP");

    // ---- FX: the response cannot be delivered (the receiving side of the stream handle is gone) --
    // every request kind of the interleaving alphabet x 3 configurations x UDP/TCP: nothing to
    // judge about a response, but the handler must not panic and must keep serving (probe)
    {
        let reqs = fi_requests();
        let places = place_list(&[1, 5, 6], &[0, 1], &[false, true]);
        let n = (reqs.len() * places.len()) as u64;
        ctx.set("FX_undeliverable_response_cases", json!(n));
        ctx.par_run_init(
            n,
            4,
            |_| Worker::new(&world),
            |i, l, w| {
                let u = rotate(i, n, seed) as usize;
                let (_, req) = &reqs[u / places.len()];
                let pl = places[u % places.len()];
                // make sure the server object exists (baseline probe recorded)
                run_one(w, "FX-warmup", pl, &w.probe.clone(), l);
                let slot = pl.shape * acls().len() + pl.acl;
                let srv = w.servers.get(&slot).unwrap();
                l.eval();
                let src = srv.src;
                let res = catch(|| {
                    w.rt.block_on(async {
                        let (handle, rx) = BufDnsStreamHandle::new(src);
                        drop(rx);
                        srv.server
                            .verif_handle_raw_request(SerialMessage::new(req.clone(), src), if pl.tcp { Protocol::Tcp } else { Protocol::Udp }, handle)
                            .await;
                    })
                });
                match res {
                    Ok(()) => l.outcome("checked:undeliverable-response-survived"),
                    Err(p) => l.violation(&format!("panic:{}", vcore::short_loc(&p.loc)), &format!("handler panicked when the response could not be delivered: {}", p.msg), || {
                        case_json("FX", pl, req, None)
                    }),
                }
                match exec(&w.rt, srv, &w.probe, Protocol::Udp) {
                    Ok(out) if out == srv.probe_base => l.outcome("checked:probe"),
                    Ok(out) => l.violation("probe:answer-changed-after-request", &format!("probe answered differently after an undeliverable response ({} response(s))", out.len()), || {
                        case_json("FX", pl, req, None)
                    }),
                    Err(p) => l.violation(&format!("probe:panic:{}", vcore::short_loc(&p.loc)), &p.msg, || case_json("FX", pl, req, None)),
                }
            },
        );
    }

    fam_mark("FX");

    // ---- FC: the catalog changes between requests --------------------------------------------
    // every sequence of <= 2 (thorough 3) catalog mutations from 10 (upsert new / replace by
    // another generation / remove, incl. an upper-case key and the root) on 3 start catalogs; 6
    // queries after the start and after every mutation
    {
        let maxlen = if thorough { 3 } else { 2 };
        let nm = FC_MUTATIONS.len();
        let mut seqs: Vec<Vec<usize>> = vec![vec![]];
        let mut last: Vec<Vec<usize>> = vec![vec![]];
        for _ in 0..maxlen {
            let mut next = vec![];
            for sq in &last {
                for m in 0..nm {
                    let mut t = sq.clone();
                    t.push(m);
                    next.push(t);
                }
            }
            seqs.extend(next.iter().cloned());
            last = next;
        }
        let n = (seqs.len() * FC_STARTS.len()) as u64;
        ctx.set("FC_catalog_mutation_histories", json!(n));
        ctx.set("FC_mutations", json!(FC_MUTATIONS.iter().map(|m| m.0).collect::<Vec<_>>()));
        ctx.par_run_init(
            n,
            4,
            |_| Worker::new(&world),
            |i, l, w| {
                let u = rotate(i, n, seed) as usize;
                run_fc(w, u % FC_STARTS.len(), &seqs[u / FC_STARTS.len()], l);
                if i % 101 == 0 {
                    l.sample(fc_json(u % FC_STARTS.len(), &seqs[u / FC_STARTS.len()], 0, None, None));
                }
            },
        );
    }

    fam_mark("FC");

    // ---- FT: TSIG / SIG(0) records in every position (C13 judges their meaning; here: one
    // response, id, QR, question, and the statement's gates) ---------------------------------------
    {
        let n = |s: &str| name_wire(s);
        let tsig = {
            let mut rd = n("hmac-sha256.");
            rd.extend([0, 0, 0x65, 0x53, 0xf1, 0x00, 1, 44]);
            rd.extend([0, 4, 1, 2, 3, 4]);
            rd.extend([0x0f, 0x70, 0, 0, 0, 0]);
            rr(&n("key."), 250, 255, 0, &rd)
        };
        let tsig_empty = rr(&n("key."), 250, 255, 0, &[]);
        let sig0 = {
            // type covered 0, algorithm 13, labels 0, original TTL 0, expiration, inception, tag, signer ".", signature
            let mut rd = vec![0, 0, 13, 0, 0, 0, 0, 0, 0x66, 0, 0, 0, 0x65, 0, 0, 0, 0x12, 0x34, 0];
            rd.extend([0xab; 64]);
            rr(&[0], 24, 255, 0, &rd)
        };
        let a_rr = rr(&[0xc0, 0x0c], 1, 1, 1, &[192, 0, 2, 9]);
        let opt0 = opt_rr(1232, 0, 0, false, &[]);
        let opt1 = opt_rr(1232, 0, 1, false, &[]);
        // (what, answer records, authority records, additional records)
        let cat = |parts: &[&Vec<u8>]| parts.iter().flat_map(|p| p.iter().copied()).collect::<Vec<u8>>();
        let variants: Vec<(&'static str, (u16, Vec<u8>), (u16, Vec<u8>), (u16, Vec<u8>))> = vec![
            ("TSIG last in additional", (0, vec![]), (0, vec![]), (1, tsig.clone())),
            ("TSIG followed by an A record", (0, vec![]), (0, vec![]), (2, cat(&[&tsig, &a_rr]))),
            ("TSIG in the answer section", (1, tsig.clone()), (0, vec![]), (0, vec![])),
            ("TSIG in the authority section", (0, vec![]), (1, tsig.clone()), (0, vec![])),
            ("two TSIGs", (0, vec![]), (0, vec![]), (2, cat(&[&tsig, &tsig]))),
            ("OPT then TSIG", (0, vec![]), (0, vec![]), (2, cat(&[&opt0, &tsig]))),
            ("TSIG then OPT", (0, vec![]), (0, vec![]), (2, cat(&[&tsig, &opt0]))),
            ("OPT v1 then TSIG", (0, vec![]), (0, vec![]), (2, cat(&[&opt1, &tsig]))),
            ("TSIG with empty RDATA", (0, vec![]), (0, vec![]), (1, tsig_empty.clone())),
            ("SIG(0) last in additional", (0, vec![]), (0, vec![]), (1, sig0.clone())),
            ("SIG(0) in the answer section", (1, sig0.clone()), (0, vec![]), (0, vec![])),
            ("A record then SIG(0) then TSIG", (0, vec![]), (0, vec![]), (3, cat(&[&a_rr, &sig0, &tsig]))),
        ];
        let heads: [u16; 4] = [0x0100, 0x2800, 0x2000, 0x4800];
        let qnames = [n("x.a.z."), n("o.")];
        let places = place_list(&[1, 5, 10], &[0, 1], &[false, true]);
        let od = Odometer::new(&[variants.len() as u64, 4, 2, places.len() as u64]);
        let cases = od.space();
        ctx.set("FT_signature_record_placement_cases", json!(cases));
        ctx.set("FT_variants", json!(variants.iter().map(|v| v.0).collect::<Vec<_>>()));
        ctx.par_run_init(
            cases,
            16,
            |_| Worker::new(&world),
            |i, l, w| {
                let d = od.get(rotate(i, cases, seed));
                let (_, an, ns, ar) = &variants[d[0] as usize];
                let mut m = hdr(0x0f70, heads[d[1] as usize], [1, an.0, ns.0, ar.0]);
                m.extend(question(&qnames[d[2] as usize], if d[1] == 1 { 6 } else { 16 }, 1));
                m.extend(&an.1);
                m.extend(&ns.1);
                m.extend(&ar.1);
                run_one(w, "FT", places[d[3] as usize], &m, l);
            },
        );
    }

    fam_mark("FT");

    // ---- FE: EDNS option bodies at every length boundary x EDNS version ------------------------
    // (a) OPT RDATA = EVERY string of length <= 3 (thorough 4) over S + {08, 0a};
    // (b) OPT RDATA = one option: every assigned option code (+ unassigned, local-use, 65535) x
    //     EVERY data string of length <= 3 (thorough 6) over {00,01,02,08,21,ff} (address families,
    //     prefix lengths at and beyond the address width);
    // each with RDLENGTH / OPTION-LENGTH exact, one short and one long, and EDNS version 0 and 1.
    {
        let mut alpha = S.to_vec();
        alpha.extend([0x08, 0x0a]);
        let data_alpha: [u8; 6] = [0x00, 0x01, 0x02, 0x08, 0x21, 0xff];
        let codes: [u16; 18] = [0, 1, 2, 3, 4, 5, 6, 7, 8, 9, 10, 11, 12, 13, 14, 15, 65001, 65535];
        let places = [Place { shape: 1, acl: 0, tcp: false }, Place { shape: 14, acl: 0, tcp: true }];
        let opt_msg = |version: u8, rdlen: u16, rdata: &[u8]| {
            let mut m = hdr(0x0e0e, 0x0100, [1, 0, 0, 1]);
            m.extend(question(&name_wire("x.a.z."), 16, 1));
            m.extend([0, 0, 41, 0x04, 0xd0, 0, version, 0, 0]);
            m.extend(rdlen.to_be_bytes());
            m.extend_from_slice(rdata);
            m
        };
        let mut total = 0u64;
        // (a)
        for len in 0..=(if thorough { 4u32 } else { 3 }) {
            let n = vcore::enumerate::pow(alpha.len() as u64, len);
            ctx.par_run_init(
                n,
                256,
                |_| (f6_worker(&world, !thorough), Vec::<u8>::new()),
                |i, l, (w, buf)| {
                    vcore::enumerate::string_at(&alpha, len as usize, i, buf);
                    for version in [0u8, 1] {
                        for delta in [0i32, -1, 1] {
                            let rdlen = buf.len() as i32 + delta;
                            if rdlen < 0 {
                                continue;
                            }
                            let m = opt_msg(version, rdlen as u16, buf);
                            for pl in &places {
                                run_one(w, "FE-a", *pl, &m, l);
                            }
                        }
                    }
                },
            );
            total += n * (if len == 0 { 2 } else { 3 }) * 2 * places.len() as u64;
        }
        // (b)
        for len in 0..=(if thorough { 6u32 } else { 3 }) {
            let n = vcore::enumerate::pow(data_alpha.len() as u64, len);
            ctx.par_run_init(
                n,
                64,
                |_| (f6_worker(&world, !thorough), Vec::<u8>::new()),
                |i, l, (w, buf)| {
                    vcore::enumerate::string_at(&data_alpha, len as usize, i, buf);
                    for code in codes {
                        for version in [0u8, 1] {
                            for delta in [0i32, -1, 1] {
                                let optlen = buf.len() as i32 + delta;
                                if optlen < 0 {
                                    continue;
                                }
                                let mut rd = code.to_be_bytes().to_vec();
                                rd.extend((optlen as u16).to_be_bytes());
                                rd.extend_from_slice(buf);
                                let m = opt_msg(version, rd.len() as u16, &rd);
                                for pl in &places {
                                    run_one(w, "FE-b", *pl, &m, l);
                                }
                            }
                        }
                    }
                },
            );
            total += n * (if len == 0 { 2 } else { 3 }) * 2 * codes.len() as u64 * places.len() as u64;
        }
        ctx.set("FE_edns_option_body_cases", json!(total));
    }

    fam_mark("FE");

    // ---- FL: large requests (integer-width boundaries of lengths and counts) -------------------
    {
        let q = question(&name_wire("x.a.z."), 16, 1);
        let mut reqs: Vec<(&'static str, Vec<u8>)> = vec![];
        let with = |counts: [u16; 4], body: &[u8]| {
            let mut m = hdr(0x0f0f, 0x0100, counts);
            m.extend(&q);
            m.extend_from_slice(body);
            m
        };
        // one TXT additional whose RDATA is 65,000 octets of 255-octet character-strings
        {
            let mut rd = vec![];
            while rd.len() + 256 <= 65_000 {
                rd.push(255);
                rd.extend(std::iter::repeat(b't').take(255));
            }
            let rest = 65_000 - rd.len() - 1;
            rd.push(rest as u8);
            rd.extend(std::iter::repeat(b't').take(rest));
            reqs.push(("TXT additional with 65000 octets of RDATA", with([1, 0, 0, 1], &rr(&[0xc0, 0x0c], 16, 1, 0, &rd))));
        }
        // 4000 A records in the answer / authority / additional section
        let a4000: Vec<u8> = (0..4000u32).flat_map(|i| rr(&[0xc0, 0x0c], 1, 1, 0, &[10, 0, (i >> 8) as u8, i as u8])).collect();
        reqs.push(("4000 A records in the answer section", with([1, 4000, 0, 0], &a4000)));
        reqs.push(("4000 A records in the authority section", with([1, 0, 4000, 0], &a4000)));
        reqs.push(("4000 A records in the additional section", with([1, 0, 0, 4000], &a4000)));
        // the same with an OPT in front / behind
        {
            let mut b = opt_rr(1232, 0, 0, false, &[]);
            b.extend(&a4000);
            reqs.push(("OPT + 4000 A records in the additional section", with([1, 0, 0, 4001], &b)));
            let mut b = a4000.clone();
            b.extend(opt_rr(1232, 0, 1, false, &[]));
            reqs.push(("4000 A records + OPT v1 in the additional section", with([1, 0, 0, 4001], &b)));
        }
        // OPT with 60,000 octets of options (15,000 empty local-use options)
        {
            let opts: Vec<u8> = (0..15_000).flat_map(|_| [0xff, 0x01, 0, 0]).collect();
            reqs.push(("OPT with 15000 options", with([1, 0, 0, 1], &opt_rr(1232, 0, 0, false, &opts))));
        }
        // exactly 65,535 octets: question + trailing zero octets; 65,535 octets of 0xff
        {
            let mut m = with([1, 0, 0, 0], &[]);
            m.resize(65_535, 0);
            reqs.push(("65535 octets, zero padding behind the question", m));
            reqs.push(("65535 octets of ff", vec![0xff; 65_535]));
            let mut m = hdr(0x0f0f, 0x0100, [1, 0, 0, 0]);
            m.resize(65_535, 0x3f);
            reqs.push(("65535 octets: header + 3f labels", m));
        }
        // UPDATE with 4000 update records
        {
            let mut m = hdr(0x0f0f, 0x2800, [1, 0, 4000, 0]);
            m.extend(question(&name_wire("z."), 6, 1));
            m.extend(&a4000);
            reqs.push(("UPDATE with 4000 update records", m));
        }
        let places = place_list(&[1, 5], &[0, 1], &[false, true]);
        let n = (reqs.len() * places.len()) as u64;
        ctx.set("FL_large_request_cases", json!(n));
        ctx.set("FL_requests", json!(reqs.iter().map(|r| r.0).collect::<Vec<_>>()));
        ctx.par_run_init(
            n,
            1,
            |_| Worker::new(&world),
            |i, l, w| {
                let u = rotate(i, n, seed) as usize;
                let (what, req) = &reqs[u / places.len()];
                let pl = places[u % places.len()];
                run_one(w, "FL", pl, req, l);
                if u % places.len() == 0 {
                    l.sample(json!({"family": "FL", "request": what, "octets": req.len()}));
                }
            },
        );
    }

    fam_mark("FL");

    // ---- FI: requests from several sources interleaved on one server object ------------------
    {
        let t = acl_table();
        let reqs = fi_requests();
        let mut items: Vec<Item> = vec![];
        for src in FI_SOURCES {
            for (_, r) in &reqs {
                items.push((src.parse().unwrap(), r.clone(), false));
            }
        }
        // thorough: the last request of a history also over TCP
        let fi_shapes: [usize; 2] = [1, 5];
        let ni = items.len() as u64;
        let nconf = (fi_shapes.len() * FI_LISTS.len()) as u64;
        ctx.set("FI_items(source x request)", json!(ni));
        ctx.set("FI_requests", json!(reqs.iter().map(|r| r.0).collect::<Vec<_>>()));
        ctx.set("FI_sources", json!(FI_SOURCES));
        // pairs: unit = (configuration, A); every B after A on one server object
        let n = nconf * ni;
        ctx.set("FI_pair_histories", json!(n * ni));
        ctx.par_run_init(
            n,
            1,
            |_| (Worker::new(&world), std::collections::HashMap::<(usize, usize, usize), Vec<Vec<u8>>>::new()),
            |i, l, (w, base)| {
                let u = rotate(i, n, seed);
                let conf = (u / ni) as usize;
                let a = (u % ni) as usize;
                let shape = fi_shapes[conf % fi_shapes.len()];
                let acl = t.fi_start + conf / fi_shapes.len();
                for b in 0..items.len() {
                    if !base.contains_key(&(shape, acl, b)) {
                        let r = alone(w, shape, acl, &items[b], l);
                        base.insert((shape, acl, b), r);
                    }
                    // a brand-new server object per history, so that a witness is exactly its history
                    let srv = build_srv(w.world, &mut w.zones, shape, acl);
                    run_history(w, &srv, shape, acl, &[&items[a]], &items[b], &base[&(shape, acl, b)], l);
                }
                if i % 97 == 0 {
                    l.sample(history_json(shape, acl, &[&items[a], &items[0]], None, None));
                }
            },
        );
        if thorough {
            // triples: unit = (configuration, A1, A2); every C after A1; A2
            let n = nconf * ni * ni;
            ctx.set("FI_triple_histories", json!(n * ni));
            ctx.par_run_init(
                n,
                8,
                |_| (f6_worker(&world, false), std::collections::HashMap::<(usize, usize, usize), Vec<Vec<u8>>>::new()),
                |i, l, (w, base)| {
                    let u = rotate(i, n, seed);
                    let conf = (u / (ni * ni)) as usize;
                    let a1 = ((u / ni) % ni) as usize;
                    let a2 = (u % ni) as usize;
                    let shape = fi_shapes[conf % fi_shapes.len()];
                    let acl = t.fi_start + conf / fi_shapes.len();
                    for c in 0..items.len() {
                        if !base.contains_key(&(shape, acl, c)) {
                            let r = alone(w, shape, acl, &items[c], l);
                            base.insert((shape, acl, c), r);
                        }
                        let srv = build_srv(w.world, &mut w.zones, shape, acl);
                        run_history(w, &srv, shape, acl, &[&items[a1], &items[a2]], &items[c], &base[&(shape, acl, c)], l);
                    }
                },
            );
        }
    }

    fam_mark("FI");

    // ---- FS: the catalog shapes with one deviating configuration dimension -------------------
    // (zone transfers allowed, origins configured in upper/mixed case, secondary zones, longer
    // handler chains with skipping handlers before and after the zone, NSID configured)
    {
        let mut names: Vec<Vec<u8>> = world.qn.iter().map(|q| q.wire.clone()).collect();
        names.extend(sys_names(&LABELS_QUICK));
        let qtypes: Vec<u16> = if thorough { vec![16, 1, 6, 2, 252, 251, 255] } else { vec![16, 6, 252, 255] };
        let edns: Vec<usize> = if thorough { vec![0, 1, 9, 7] } else { vec![0, 9, 7] };
        let acls_fs: [usize; 3] = [0, 1, 4];
        // (opcode, RD): queries with and without recursion desired (a forwarder-type zone refuses
        // RD=0), UPDATE and NOTIFY against every deviating zone kind
        let heads: [u16; 4] = [0x0100, 0x0000, 0x2800, 0x2000];
        let nfs = (SHAPES.len() - N_BASE_SHAPES) as u64;
        let od = Odometer::new(&[edns.len() as u64, qtypes.len() as u64, names.len() as u64, 2, 3, nfs, 4]);
        let n = od.space();
        ctx.set("FS_deviating_shape_cases", json!(n));
        ctx.par_run_init(
            n,
            512,
            |_| Worker::new(&world),
            |i, l, w| {
                let d = od.get(rotate(i, n, seed));
                let pl = Place { shape: N_BASE_SHAPES + d[5] as usize, acl: acls_fs[d[4] as usize], tcp: d[3] == 1 };
                let req = build_request(0x0f50, heads[d[6] as usize], &names[d[2] as usize], qtypes[d[1] as usize], 1, edns[d[0] as usize]);
                run_one(w, "FS", pl, &req, l);
                if i % 50_021 == 0 {
                    l.sample(case_json("FS", pl, &req, None));
                }
            },
        );
    }

    fam_mark("FS");

    // ---- F0b: zone dispatch over the systematic label-alphabet names ------------------------
    {
        let names = if thorough { sys_names(&LABELS_THOROUGH) } else { sys_names(&LABELS_QUICK) };
        let qtypes: [u16; 3] = [16, 1, 6];
        let edns: [usize; 2] = [0, 1];
        let od = Odometer::new(&[2, 3, names.len() as u64, 2, nacl, nshape]);
        let n = od.space();
        ctx.set("F0b_label_alphabet_names", json!(names.len()));
        ctx.set("F0b_label_alphabet_cases", json!(n));
        ctx.par_run_init(
            n,
            512,
            |_| Worker::new(&world),
            |i, l, w| {
                let d = od.get(rotate(i, n, seed));
                let pl = Place { shape: d[5] as usize, acl: d[4] as usize, tcp: d[3] == 1 };
                let req = build_request(0x0b0b, 0x0100, &names[d[2] as usize], qtypes[d[1] as usize], 1, edns[d[0] as usize]);
                run_one(w, "F0b", pl, &req, l);
                if i % 50_021 == 0 {
                    l.sample(case_json("F0b", pl, &req, None));
                }
            },
        );
    }

    fam_mark("F0b");

    // ---- F1: dispatch product, every opcode ------------------------------------------------
    {
        let qtypes: Vec<u16> = if thorough { vec![16, 1, 6, 2, 28, 255, 252, 41, 65535] } else { vec![16, 6] };
        let edns: Vec<usize> = if thorough { vec![0, 1, 2, 3, 7, 10, 11, 12] } else { vec![0, 2, 3] };
        // quick: one access row per verdict class (none, denied, allow override, v4-mapped denied,
        // v6 denied); all 14 rows x every opcode in thorough (F0 and FA cross all rows in quick)
        let acls_f1: Vec<usize> = if thorough { (0..N_BASE_ACLS).collect() } else { vec![0, 1, 4, 8, 10] };
        let od = Odometer::new(&[16, edns.len() as u64, qtypes.len() as u64, nq, 2, acls_f1.len() as u64, nshape]);
        let n = od.space();
        ctx.set("F1_dispatch_cases", json!(n));
        ctx.par_run_init(
            n,
            512,
            |_| Worker::new(&world),
            |i, l, w| {
                let d = od.get(rotate(i, n, seed));
                let pl = Place { shape: d[6] as usize, acl: acls_f1[d[5] as usize], tcp: d[4] == 1 };
                let flags = ((d[0] as u16) << 11) | 0x0100;
                let req = build_request(0x0102, flags, &w.world.qn[d[3] as usize].wire, qtypes[d[2] as usize], 1, edns[d[1] as usize]);
                run_one(w, "F1", pl, &req, l);
                if i % 100_003 == 0 {
                    l.sample(case_json("F1", pl, &req, None));
                }
            },
        );
    }

    fam_mark("F1");

    // ---- F2: class / type / EDNS product ---------------------------------------------------
    {
        let qtypes: [u16; 9] = [1, 16, 6, 2, 252, 255, 41, 65535, 0];
        let qclasses: [u16; 4] = [1, 3, 255, 0];
        let opcodes: Vec<u16> = if thorough { vec![0, 5, 2, 9] } else { vec![0, 5] };
        let acls: Vec<usize> = if thorough { vec![0, 1, 4] } else { vec![0, 1] };
        // quick: nested, 3-deep nested, root+z and the empty catalog; all 10 base shapes in thorough
        let shapes_f2: Vec<usize> = if thorough { (0..N_BASE_SHAPES).collect() } else { vec![1, 2, 5, 6] };
        let od = Odometer::new(&[opcodes.len() as u64, EDNS_NAMES.len() as u64, 4, 9, nq, 2, acls.len() as u64, shapes_f2.len() as u64]);
        let n = od.space();
        ctx.set("F2_type_class_edns_cases", json!(n));
        ctx.par_run_init(
            n,
            512,
            |_| Worker::new(&world),
            |i, l, w| {
                let d = od.get(rotate(i, n, seed));
                let pl = Place { shape: shapes_f2[d[7] as usize], acl: acls[d[6] as usize], tcp: d[5] == 1 };
                let flags = opcodes[d[0] as usize] << 11;
                let req = build_request(
                    0xffff,
                    flags,
                    &w.world.qn[d[4] as usize].wire,
                    qtypes[d[3] as usize],
                    qclasses[d[2] as usize],
                    d[1] as usize,
                );
                run_one(w, "F2", pl, &req, l);
                if i % 100_003 == 0 {
                    l.sample(case_json("F2", pl, &req, None));
                }
            },
        );
    }

    fam_mark("F2");

    // ---- F3: header product ----------------------------------------------------------------
    {
        let ids: Vec<u16> = if thorough { vec![0, 1, 0xffff] } else { vec![0, 0xffff] };
        let places = if thorough {
            place_list(&[1, 5], &[0, 1], &[false])
        } else {
            vec![Place { shape: 1, acl: 0, tcp: false }, Place { shape: 5, acl: 1, tcp: false }]
        };
        let names: Vec<usize> = if thorough {
            (0..world.qn.len()).collect()
        } else {
            ["a.z.", "x.o.", "pointer c002 (into the flags)"]
                .iter()
                .map(|w| world.qn.iter().position(|q| q.what == *w).unwrap())
                .collect()
        };
        let edns: [usize; 3] = [0, 1, 2];
        let od = Odometer::new(&[ids.len() as u64, 2, 16, 8, 2, N_COUNT_VARIANTS, names.len() as u64, 3, places.len() as u64]);
        let n = od.space();
        ctx.set("F3_header_product_cases", json!(n));
        ctx.par_run_init(
            n,
            512,
            |_| Worker::new(&world),
            |i, l, w| {
                let d = od.get(rotate(i, n, seed));
                let pl = places[d[8] as usize];
                let flags = ((d[1] as u16) << 15) | ((d[2] as u16) << 11) | FLAG_BITS[d[3] as usize] | if d[4] == 1 { 0xf } else { 0 };
                let q = question(&w.world.qn[names[d[6] as usize]].wire, 16, 1);
                let req = count_variant(d[5], ids[d[0] as usize], flags, &q, &edns_variant(edns[d[7] as usize]));
                run_one(w, "F3", pl, &req, l);
                if i % 100_003 == 0 {
                    l.sample(case_json("F3", pl, &req, None));
                }
            },
        );
    }

    fam_mark("F3");

    // ---- F4: prefixes and single-byte substitutions of representative requests -------------
    {
        let seeds = seeds(&world);
        let places = place_list(&[2, 5], &[0, 1], &[false, true]);
        let values: Vec<u8> = if thorough { (0..=255u8).collect() } else { S.to_vec() };
        // flat list of (seed, kind): kind < len+1 => prefix of that length, else substitution
        let mut items: Vec<(usize, usize)> = vec![];
        for (si, (_, b)) in seeds.iter().enumerate() {
            for k in 0..=b.len() {
                items.push((si, k));
            }
            for off in 0..b.len() {
                items.push((si, b.len() + 1 + off));
            }
        }
        ctx.set("F4_seeds", json!(seeds.len()));
        ctx.set("F4_seed_names", json!(seeds.iter().map(|s| s.0).collect::<Vec<_>>()));
        let n = items.len() as u64;
        let mut f4_cases = 0u64;
        for (si, k) in &items {
            f4_cases += if *k <= seeds[*si].1.len() { 1 } else { values.len() as u64 } * places.len() as u64;
        }
        ctx.set("F4_edit_cases", json!(f4_cases));
        ctx.par_run_init(
            n,
            8,
            |_| Worker::new(&world),
            |i, l, w| {
                let (si, k) = items[rotate(i, n, seed) as usize];
                let base = &seeds[si].1;
                for pl in &places {
                    if k <= base.len() {
                        run_one(w, "F4-prefix", *pl, &base[..k], l);
                    } else {
                        let off = k - base.len() - 1;
                        let mut m = base.clone();
                        for v in &values {
                            m[off] = *v;
                            run_one(w, "F4-substitution", *pl, &m, l);
                        }
                    }
                }
                if i % 997 == 0 {
                    l.sample(json!({"family": "F4", "seed": seeds[si].0, "edit": if k <= base.len() { format!("prefix {k}") } else { format!("substitute offset {}", k - base.len() - 1) }}));
                }
            },
        );
    }

    fam_mark("F4");

    // ---- F4b (thorough): every PAIR of substitutions from S in the shorter seeds ------------
    if thorough {
        let seeds: Vec<(&'static str, Vec<u8>)> = seeds(&world).into_iter().filter(|s| s.1.len() <= 80).collect();
        let places = [Place { shape: 2, acl: 0, tcp: false }, Place { shape: 5, acl: 1, tcp: true }];
        let mut items: Vec<(usize, usize, usize)> = vec![];
        for (si, (_, b)) in seeds.iter().enumerate() {
            for i in 0..b.len() {
                for j in i + 1..b.len() {
                    items.push((si, i, j));
                }
            }
        }
        let n = items.len() as u64;
        ctx.set("F4b_pair_cases", json!(n * 196 * places.len() as u64));
        ctx.par_run_init(
            n,
            4,
            |_| Worker::new(&world),
            |i, l, w| {
                let (si, a, b) = items[rotate(i, n, seed) as usize];
                let mut m = seeds[si].1.clone();
                for va in S {
                    for vb in S {
                        m[a] = va;
                        m[b] = vb;
                        for pl in &places {
                            run_one(w, "F4b-pair", *pl, &m, l);
                        }
                    }
                }
            },
        );
    }

    fam_mark("F4b");

    // ---- F5: all short strings over S as whole messages ------------------------------------
    {
        let maxlen: u32 = if thorough { 6 } else { 4 };
        let pl = Place { shape: 1, acl: 0, tcp: false };
        let mut total = 0u64;
        for len in 0..=maxlen {
            let n = vcore::enumerate::pow(14, len);
            total += n;
            ctx.par_run_init(
                n,
                4096,
                |_| (Worker::new(&world), Vec::<u8>::new()),
                |i, l, (w, buf)| {
                    vcore::enumerate::string_at(&S, len as usize, i, buf);
                    let b = buf.clone();
                    run_one(w, "F5", pl, &b, l);
                },
            );
        }
        ctx.set("F5_short_string_cases", json!(total));
        ctx.set("F5_max_len", json!(maxlen));
    }

    fam_mark("F5");

    // ---- F6: all strings over S as the body behind fixed headers ---------------------------
    {
        let headers: Vec<(&str, Vec<u8>)> = vec![
            ("QUERY QD=1", hdr(0x0101, 0x0000, [1, 0, 0, 0])),
            ("QUERY RD QD=1 AR=1", hdr(0x0101, 0x0100, [1, 0, 0, 1])),
            ("UPDATE ZO=1 UP=1", hdr(0x0101, 0x2800, [1, 0, 1, 0])),
        ];
        let maxlen: u32 = if thorough { 6 } else { 5 };
        let pl = Place { shape: 5, acl: 0, tcp: false };
        let mut total = 0u64;
        if thorough {
            // all 7-octet bodies that start with a one-octet label (complete one-label questions)
            let h = &headers[0].1;
            let n = vcore::enumerate::pow(14, 6);
            total += n;
            ctx.par_run_init(
                n,
                4096,
                |_| (f6_worker(&world, !thorough), Vec::<u8>::new()),
                |i, l, (w, buf)| {
                    vcore::enumerate::string_at(&S, 6, i, buf);
                    let mut m = h.clone();
                    m.push(1);
                    m.extend_from_slice(buf);
                    run_one(w, "F6", pl, &m, l);
                },
            );
            ctx.set("F6_len7_bodies_starting_with_01", json!(n));
            ctx.set(
                "distinct_nontrivial_note",
                json!("thorough tier: the F6 and FE requests and the FI triple histories (pairwise distinct by construction; counts in F6_header_plus_body_cases, FE_edns_option_body_cases, FI_triple_histories) are NOT entered into the digest set, to stay below vcore's 40M-entry cap; distinct_nontrivial counts the other families"),
            );
        }
        for (hi, (_, h)) in headers.iter().enumerate() {
            for len in 0..=maxlen {
                if !thorough && hi != 0 && len == maxlen {
                    continue; // quick: length 5 only behind the plain query header
                }
                let n = vcore::enumerate::pow(14, len);
                total += n;
                ctx.par_run_init(
                    n,
                    4096,
                    |_| (f6_worker(&world, !thorough), Vec::<u8>::new()),
                    |i, l, (w, buf)| {
                        vcore::enumerate::string_at(&S, len as usize, i, buf);
                        let mut m = h.clone();
                        m.extend_from_slice(buf);
                        run_one(w, "F6", pl, &m, l);
                    },
                );
            }
        }
        ctx.set("F6_header_plus_body_cases", json!(total));
        ctx.set("F6_max_body_len", json!(maxlen));
        ctx.set("F6_headers", json!(headers.iter().map(|h| h.0).collect::<Vec<_>>()));
    }

    fam_mark("F6");
    ctx.set("family_wall_s_and_cases", json!(fam_times.lock().unwrap().iter().map(|(n, t, c)| json!({"family": n, "wall_s": t, "cases": c})).collect::<Vec<_>>()));

    ctx.set("shapes", json!(SHAPES.iter().map(|s| s.what).collect::<Vec<_>>()));
    ctx.set("access_lists", json!(acls()[..N_BASE_ACLS].iter().map(|a| a.what.as_str()).collect::<Vec<_>>()));
    ctx.set("query_names", json!(world.qn.iter().map(|q| q.what).collect::<Vec<_>>()));
    ctx.set("edns_variants", json!(EDNS_NAMES));

    for class in [
        "expect:silence:is-a-response",
        "expect:silence:shorter-than-header",
        "expect:gate:unsupported-opcode",
        "expect:gate:unparsable",
        "expect:gate:denied-source",
        "expect:access-verdict-open(unjudged)",
        "expect:gate:edns-version-gt0",
        "expect:gate:no-enclosing-zone",
        "answered:NOERROR",
        "answered:NXDOMAIN",
        "answered:FORMERR",
        "answered:NOTIMP",
        "answered:REFUSED",
        "answered:BADVERS",
        "checked:question-echo",
        "checked:zone",
        "checked:probe",
        "checked:interleaved-equals-alone",
        "checked:catalog-generation",
    ] {
        if ctx.outcome_count(class) == 0 {
            ctx.machinery_failure(&format!("vacuous run: outcome class {class} was never exercised"));
        }
    }
    ctx.finish(true);
}
