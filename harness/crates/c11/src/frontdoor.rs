//! Reference front door for C11. Written from the property statement, RFC 1035 section 4.1
//! (message format, compression), RFC 6891 section 6.1 (OPT) and the prose description of the
//! access lists ("deny list takes precedence, a more specific allow entry overrides it; an allow
//! list without deny list admits only its members"). It shares no code with hickory.
//!
//! The reference is deliberately three-valued about "the body parses": `Ok` (every RFC reading
//! accepts it), `Bad` (no reading accepts it: truncated, reserved label type, name > 255 octets,
//! pointer that does not point backwards, RDATA overrunning the message, more than one OPT) and
//! `Grey` (readings differ: trailing bytes, RDATA of a type the reference does not validate,
//! pointer chains that are backwards but not to an entirely prior name, a compression pointer in
//! the question name, OPT outside the additional section ...). FORMERR is *demanded* only for
//! `Bad` and *tolerated* for `Grey`.

use std::net::IpAddr;

pub type Labels = Vec<Vec<u8>>;

pub const NOERROR: u16 = 0;
pub const FORMERR: u16 = 1;
pub const NXDOMAIN: u16 = 3;
pub const NOTIMP: u16 = 4;
pub const REFUSED: u16 = 5;
pub const BADVERS: u16 = 16;

// ------------------------------------------------------------------------------------------
// access lists

#[derive(Clone, Debug)]
pub enum Net {
    V4(u32, u8),
    V6(u128, u8),
}

impl Net {
    pub fn parse(s: &str) -> Net {
        let (a, l) = s.split_once('/').expect("net needs /len");
        let len: u8 = l.parse().unwrap();
        match a.parse::<IpAddr>().unwrap() {
            IpAddr::V4(v) => Net::V4(u32::from(v), len),
            IpAddr::V6(v) => Net::V6(u128::from(v), len),
        }
    }
    /// prefix length if `ip` (already canonical) is inside the network
    fn matches(&self, ip: IpAddr) -> Option<u8> {
        match (self, ip) {
            (Net::V4(n, len), IpAddr::V4(a)) => {
                let a = u32::from(a);
                let mask = if *len == 0 { 0 } else { u32::MAX << (32 - *len as u32) };
                ((a & mask) == (n & mask)).then_some(*len)
            }
            (Net::V6(n, len), IpAddr::V6(a)) => {
                let a = u128::from(a);
                let mask = if *len == 0 { 0 } else { u128::MAX << (128 - *len as u32) };
                ((a & mask) == (n & mask)).then_some(*len)
            }
            _ => None,
        }
    }
}

/// An IPv4-mapped IPv6 source (`::ffff:a.b.c.d`, what a dual-stack socket reports for a v4
/// client) is the v4 address for the purpose of the lists.
fn canonical(ip: IpAddr) -> IpAddr {
    if let IpAddr::V6(v6) = ip {
        let o = v6.octets();
        if o[..10].iter().all(|b| *b == 0) && o[10] == 0xff && o[11] == 0xff {
            return IpAddr::V4(std::net::Ipv4Addr::new(o[12], o[13], o[14], o[15]));
        }
    }
    ip
}

/// The verdict for a source where every defensible reading of the documented semantics agrees,
/// `None` where they differ (then the check does not judge REFUSED-vs-answered):
/// * R1: the lists are one set ("if there are no denied networks, the allowed list denies
///   anything that is not in it") — `source_allowed`;
/// * R2: IPv4 and IPv6 entries form independent list pairs (entries of the other family are as if
///   absent, also for the "is the list empty" questions);
/// * R3: as R1, but an IPv4 / IPv4-mapped source additionally matches IPv6 entries through its
///   `::ffff:a.b.c.d` form (an operator may have written the mapped form).
/// In every reading an IPv4-mapped IPv6 source is the IPv4 address, and every other IPv6 source
/// (including `::1` and the deprecated IPv4-compatible `::a.b.c.d`) stays IPv6.
pub fn source_verdict(deny: &[Net], allow: &[Net], src: IpAddr) -> Option<bool> {
    let r1 = source_allowed(deny, allow, src);
    let ip = canonical(src);
    let same_family = |n: &&Net| matches!((n, ip), (Net::V4(..), IpAddr::V4(_)) | (Net::V6(..), IpAddr::V6(_)));
    let d2: Vec<Net> = deny.iter().filter(same_family).cloned().collect();
    let a2: Vec<Net> = allow.iter().filter(same_family).cloned().collect();
    let r2 = source_allowed(&d2, &a2, src);
    let r3 = match ip {
        IpAddr::V4(v4) => {
            let mapped = IpAddr::V6(v4.to_ipv6_mapped());
            // only entries written in the mapped form itself (inside ::ffff:0:0/96) are read this way
            let mapped_form = |n: &Net| matches!(n, Net::V6(a, len) if *len >= 96 && (a >> 32) == 0xffff);
            let best = |list: &[Net]| {
                list.iter()
                    .filter_map(|n| n.matches(ip).or_else(|| if mapped_form(n) { n.matches(mapped).map(|l| l - 96) } else { None }))
                    .max()
            };
            match (best(deny), best(allow)) {
                (Some(d), Some(a)) => a > d,
                (Some(_), None) => false,
                (None, Some(_)) => true,
                (None, None) => !deny.is_empty() || allow.is_empty(),
            }
        }
        IpAddr::V6(_) => r1,
    };
    (r1 == r2 && r1 == r3).then_some(r1)
}

pub fn source_allowed(deny: &[Net], allow: &[Net], src: IpAddr) -> bool {
    let ip = canonical(src);
    let d = deny.iter().filter_map(|n| n.matches(ip)).max();
    let a = allow.iter().filter_map(|n| n.matches(ip)).max();
    match (d, a) {
        (Some(d), Some(a)) => a > d,
        (Some(_), None) => false,
        (None, Some(_)) => true,
        (None, None) => {
            if !deny.is_empty() {
                true
            } else {
                allow.is_empty()
            }
        }
    }
}

// ------------------------------------------------------------------------------------------
// message reading

#[derive(Clone, Debug, PartialEq, Eq)]
pub struct Question {
    pub name: Labels,
    pub qtype: u16,
    pub qclass: u16,
    pub has_pointer: bool,
    pub end: usize,
}

#[derive(Clone, Copy, Debug, PartialEq, Eq)]
pub enum ParseClass {
    Ok,
    Grey,
    Bad,
}

#[derive(Clone, Debug)]
pub struct NameRead {
    pub labels: Labels,
    pub next: usize,
    pub has_pointer: bool,
    /// every pointer targets an entirely prior name (all octets read after a jump lie below the
    /// start of the fragment that held the pointer)
    pub strict: bool,
}

fn u16_at(b: &[u8], p: usize) -> Option<u16> {
    (p + 2 <= b.len()).then(|| u16::from_be_bytes([b[p], b[p + 1]]))
}
fn u32_at(b: &[u8], p: usize) -> Option<u32> {
    (p + 4 <= b.len()).then(|| u32::from_be_bytes([b[p], b[p + 1], b[p + 2], b[p + 3]]))
}

/// Most lenient defensible reading of a possibly compressed name: labels <= 63, total <= 255,
/// a pointer must point before itself. `Err` = no reading accepts the name.
pub fn read_name(b: &[u8], pos: usize) -> Result<NameRead, &'static str> {
    let mut labels = vec![];
    let mut p = pos;
    let mut after: Option<usize> = None;
    let mut total = 1usize;
    let mut hops = 0usize;
    let mut strict = true;
    let mut frag_start = pos; // start of the fragment being read
    let mut limit: Option<usize> = None; // octets read after a jump must lie below this
    loop {
        let Some(&l) = b.get(p) else { return Err("name-truncated") };
        if let Some(lim) = limit {
            if p >= lim {
                strict = false;
            }
        }
        match l & 0xc0 {
            0x00 => {
                if l == 0 {
                    p += 1;
                    break;
                }
                let n = l as usize;
                if p + 1 + n > b.len() {
                    return Err("label-truncated");
                }
                total += n + 1;
                if total > 255 {
                    return Err("name-too-long");
                }
                if let Some(lim) = limit {
                    if p + 1 + n >= lim {
                        strict = false;
                    }
                }
                labels.push(b[p + 1..p + 1 + n].to_vec());
                p += 1 + n;
            }
            0xc0 => {
                let Some(w) = u16_at(b, p) else { return Err("pointer-truncated") };
                let off = (w & 0x3fff) as usize;
                if off >= p {
                    return Err("pointer-not-backwards");
                }
                if off >= frag_start {
                    strict = false;
                }
                if let Some(lim) = limit {
                    if p + 1 >= lim {
                        strict = false;
                    }
                }
                if after.is_none() {
                    after = Some(p + 2);
                }
                hops += 1;
                if hops > 300 {
                    return Err("pointer-loop");
                }
                limit = Some(frag_start);
                frag_start = off;
                p = off;
            }
            _ => return Err("reserved-label-type"),
        }
    }
    Ok(NameRead { labels, next: after.unwrap_or(p), has_pointer: after.is_some(), strict })
}

#[derive(Clone, Debug)]
pub struct OptSeen {
    pub section: u8, // 1 answer, 2 authority, 3 additional
    pub version: u8,
}

#[derive(Clone, Debug)]
pub struct Parsed {
    pub id: u16,
    pub flags: u16,
    pub counts: [u16; 4],
    pub question: Option<Question>,
    pub class: ParseClass,
    pub reason: &'static str,
    pub opts: Vec<OptSeen>,
    pub has_sig: bool,
}

impl Parsed {
    pub fn qr(&self) -> bool {
        self.flags & 0x8000 != 0
    }
    pub fn opcode(&self) -> u8 {
        ((self.flags >> 11) & 0xf) as u8
    }
}

fn worse(cur: &mut (ParseClass, &'static str), c: ParseClass, why: &'static str) {
    let rank = |c: ParseClass| match c {
        ParseClass::Ok => 0,
        ParseClass::Grey => 1,
        ParseClass::Bad => 2,
    };
    if rank(c) > rank(cur.0) {
        *cur = (c, why);
    }
}

/// RDATA the reference knows how to validate. Returns false if it cannot vouch for it.
fn rdata_vouched(b: &[u8], rtype: u16, class: u16, start: usize, end: usize) -> bool {
    match rtype {
        1 => class == 1 && end - start == 4,
        16 => {
            // one or more <character-string>s tiling the RDATA exactly
            if end == start {
                return false;
            }
            let mut p = start;
            while p < end {
                p += 1 + b[p] as usize;
            }
            p == end
        }
        2 => match read_name(b, start) {
            Ok(n) => n.strict && n.next == end,
            Err(_) => false,
        },
        _ => false,
    }
}

/// OPT RDATA: `Some(true)` = option TLVs tile the RDATA and every option is one whose content the
/// reference can vouch for (NSID with the empty payload a request carries, RFC 5001 2.1; codes
/// 65001..=65534, reserved for local/experimental use and therefore opaque); `Some(false)` = the
/// TLVs tile but an option with a defined inner format is present (ECS, cookie, ... may be
/// malformed inside: RFC 7871 7.1.2 wants FORMERR then); `None` = the TLVs do not tile.
fn opt_rdata_ok(b: &[u8], start: usize, end: usize) -> Option<bool> {
    let mut p = start;
    let mut vouched = true;
    while p < end {
        if p + 4 > end {
            return None;
        }
        let code = u16::from_be_bytes([b[p], b[p + 1]]);
        let len = u16::from_be_bytes([b[p + 2], b[p + 3]]) as usize;
        if !((code == 3 && len == 0) || (65001..=65534).contains(&code)) {
            vouched = false;
        }
        p += 4 + len;
    }
    (p == end).then_some(vouched)
}

/// Walk a request (>= 12 bytes).
pub fn parse(b: &[u8]) -> Parsed {
    let id = u16_at(b, 0).unwrap();
    let flags = u16_at(b, 2).unwrap();
    let counts = [u16_at(b, 4).unwrap(), u16_at(b, 6).unwrap(), u16_at(b, 8).unwrap(), u16_at(b, 10).unwrap()];
    let opcode = ((flags >> 11) & 0xf) as u8;
    let mut out = Parsed { id, flags, counts, question: None, class: ParseClass::Ok, reason: "", opts: vec![], has_sig: false };
    let mut cls = (ParseClass::Ok, "");
    let mut p = 12usize;
    // questions
    for qi in 0..counts[0] {
        let q = match read_name(b, p) {
            Ok(n) => match (u16_at(b, n.next), u16_at(b, n.next + 2)) {
                (Some(t), Some(c)) => {
                    if n.has_pointer {
                        worse(&mut cls, ParseClass::Grey, "qname-pointer");
                    }
                    Question { name: n.labels, qtype: t, qclass: c, has_pointer: n.has_pointer, end: n.next + 4 }
                }
                _ => {
                    worse(&mut cls, ParseClass::Bad, "question-truncated");
                    break;
                }
            },
            Err(why) => {
                worse(&mut cls, ParseClass::Bad, why);
                break;
            }
        };
        p = q.end;
        if qi == 0 && counts[0] == 1 {
            out.question = Some(q);
        }
    }
    if cls.0 != ParseClass::Bad {
        'sections: for (si, n) in [counts[1], counts[2], counts[3]].into_iter().enumerate() {
            let section = si as u8 + 1;
            for _ in 0..n {
                let name = match read_name(b, p) {
                    Ok(nm) => nm,
                    Err(why) => {
                        worse(&mut cls, ParseClass::Bad, why);
                        break 'sections;
                    }
                };
                let q = name.next;
                let (Some(rtype), Some(class), Some(ttl), Some(rdlen)) =
                    (u16_at(b, q), u16_at(b, q + 2), u32_at(b, q + 4), u16_at(b, q + 8))
                else {
                    worse(&mut cls, ParseClass::Bad, "record-truncated");
                    break 'sections;
                };
                let rs = q + 10;
                let re = rs + rdlen as usize;
                if re > b.len() {
                    worse(&mut cls, ParseClass::Bad, "rdata-overrun");
                    break 'sections;
                }
                if !name.strict {
                    worse(&mut cls, ParseClass::Grey, "pointer-not-entirely-prior");
                }
                match rtype {
                    41 => {
                        out.opts.push(OptSeen { section, version: ((ttl >> 16) & 0xff) as u8 });
                        if section != 3 {
                            worse(&mut cls, ParseClass::Grey, "opt-outside-additional");
                        }
                        if !name.labels.is_empty() || name.has_pointer {
                            worse(&mut cls, ParseClass::Grey, "opt-owner-not-root");
                        }
                        match opt_rdata_ok(b, rs, re) {
                            Some(true) => {}
                            Some(false) => worse(&mut cls, ParseClass::Grey, "opt-option-not-validated"),
                            None => worse(&mut cls, ParseClass::Grey, "opt-rdata"),
                        }
                    }
                    250 | 24 => {
                        out.has_sig = true;
                        worse(&mut cls, ParseClass::Grey, "sig-record");
                    }
                    _ => {
                        let update_form = opcode == 5; // RFC 2136 gives empty RDATA and classes ANY/NONE a meaning
                        if update_form || !rdata_vouched(b, rtype, class, rs, re) {
                            worse(&mut cls, ParseClass::Grey, "rdata-not-validated");
                        }
                    }
                }
                p = re;
            }
        }
    }
    if cls.0 != ParseClass::Bad {
        if out.opts.len() > 1 {
            // RFC 6891 6.1.1: "If a query message with more than one OPT RR is received, a
            // FORMERR (RCODE=1) MUST be returned."
            worse(&mut cls, ParseClass::Bad, "more-than-one-opt");
        } else if p < b.len() {
            worse(&mut cls, ParseClass::Grey, "trailing-bytes");
        }
    }
    out.class = cls.0;
    out.reason = cls.1;
    out
}

// ------------------------------------------------------------------------------------------
// expectations

#[derive(Clone, Debug)]
pub struct Config {
    /// zone origins, lower case
    pub zones: Vec<Labels>,
    /// per zone: the statement does not fix what a query enclosed by this zone gets (a forwarder
    /// zone refuses RD=0, a handler chain in which nobody answers gives SERVFAIL, a handler may
    /// break the chain with its own error code): one response, id, QR and question are still
    /// judged, and data identifying ANOTHER zone is still a violation
    pub unjudged: Vec<bool>,
    pub deny: Vec<Net>,
    pub allow: Vec<Net>,
}

pub fn lower(l: &Labels) -> Labels {
    l.iter().map(|x| x.to_ascii_lowercase()).collect()
}

/// Index of the zone whose origin is the longest (label-wise, ASCII case-insensitive) suffix of
/// `name`.
pub fn longest_suffix_zone(zones: &[Labels], name: &Labels) -> Option<usize> {
    let n = lower(name);
    let mut best: Option<usize> = None;
    for (i, z) in zones.iter().enumerate() {
        if z.len() <= n.len() && n[n.len() - z.len()..] == z[..] {
            if best.map(|b| zones[b].len() < z.len()).unwrap_or(true) {
                best = Some(i);
            }
        }
    }
    best
}

#[derive(Clone, Debug, Default)]
pub struct RcodeSet {
    pub any: bool,
    pub mask: u32,
}

impl RcodeSet {
    pub fn add(&mut self, c: u16) {
        self.mask |= 1 << c;
    }
    pub fn contains(&self, c: u16) -> bool {
        self.any || (c < 32 && self.mask & (1 << c) != 0)
    }
    pub fn describe(&self) -> String {
        if self.any {
            return "any".into();
        }
        let mut v = vec![];
        for c in 0..32u16 {
            if self.mask & (1 << c) != 0 {
                v.push(rcode_name(c));
            }
        }
        v.join("|")
    }
}

pub fn rcode_name(c: u16) -> String {
    match c {
        0 => "NOERROR".into(),
        1 => "FORMERR".into(),
        2 => "SERVFAIL".into(),
        3 => "NXDOMAIN".into(),
        4 => "NOTIMP".into(),
        5 => "REFUSED".into(),
        6 => "YXDOMAIN".into(),
        7 => "YXRRSET".into(),
        8 => "NXRRSET".into(),
        9 => "NOTAUTH".into(),
        10 => "NOTZONE".into(),
        16 => "BADVERS".into(),
        n => format!("RCODE{n}"),
    }
}

#[derive(Clone, Debug)]
pub struct Expect {
    /// false: nothing at all may come back
    pub respond: bool,
    pub why_silent: &'static str,
    pub id: u16,
    pub opcode: u8,
    pub parse: ParseClass,
    pub parse_reason: &'static str,
    /// decodable question of a QDCOUNT=1 request
    pub question: Option<Question>,
    /// the request is a query or an update (the statement's "question equals" clause applies)
    pub query_or_update: bool,
    pub rcodes: RcodeSet,
    /// the conditions of the statement that hold for this request (sorted, for keys)
    pub gates: Vec<&'static str>,
    pub tolerated: Vec<&'static str>,
    /// zone that has to answer if the request is answered (opcode QUERY, no gate holds)
    pub zone: Option<usize>,
    /// plain class-IN data query: must be answered with NOERROR/NXDOMAIN and identifiable zone data
    pub plain: bool,
}

pub fn expect(cfg: &Config, src: IpAddr, b: &[u8]) -> Expect {
    let mut e = Expect {
        respond: false,
        why_silent: "",
        id: 0,
        opcode: 0,
        parse: ParseClass::Ok,
        parse_reason: "",
        question: None,
        query_or_update: false,
        rcodes: RcodeSet::default(),
        gates: vec![],
        tolerated: vec![],
        zone: None,
        plain: false,
    };
    if b.len() < 12 {
        e.why_silent = "shorter-than-header";
        return e;
    }
    let p = parse(b);
    e.id = p.id;
    e.opcode = p.opcode();
    if p.qr() {
        e.why_silent = "is-a-response";
        return e;
    }
    e.respond = true;
    e.parse = p.class;
    e.parse_reason = p.reason;
    e.question = p.question.clone();
    let opcode = p.opcode();
    e.query_or_update = opcode == 0 || opcode == 5;
    let mut gate_codes: Vec<u16> = vec![];
    let mut tol_codes: Vec<u16> = vec![];
    let mut any = false;

    if !e.query_or_update {
        e.gates.push("unsupported-opcode");
        gate_codes.push(NOTIMP);
    }
    match p.class {
        ParseClass::Bad => {
            e.gates.push("unparsable");
            gate_codes.push(FORMERR);
        }
        ParseClass::Grey => {
            e.tolerated.push("grey-parse");
            tol_codes.push(FORMERR);
        }
        ParseClass::Ok => {}
    }
    if p.counts[0] != 1 {
        // the statement speaks of "the question"; what a QDCOUNT != 1 request deserves is not fixed
        e.tolerated.push("qdcount-not-1");
        any = true;
    }
    let mut normal_any = false;
    if p.has_sig {
        // TSIG / SIG(0) processing is C13's business: what an otherwise acceptable signed request
        // gets is not judged (NOTAUTH, REFUSED, ... or the normal answer), but the gates of the
        // statement (denied source, EDNS version, unsupported opcode, unparsable body, no zone)
        // hold for signed requests too
        e.tolerated.push("sig-record");
        tol_codes.push(9);
        tol_codes.push(REFUSED);
        normal_any = true;
    }
    match source_verdict(&cfg.deny, &cfg.allow, src) {
        Some(true) => {}
        Some(false) => {
            // "the server accepts": a denied source is turned away whatever it asks for; judged for
            // queries and updates (for unsupported opcodes NOTIMP is equally admissible)
            if opcode == 0 || opcode == 5 {
                e.gates.push("denied-source");
                gate_codes.push(REFUSED);
            } else {
                e.tolerated.push("denied-source");
                tol_codes.push(REFUSED);
            }
        }
        None => {
            // the documented list semantics leave this (source, deny, allow) combination open
            e.tolerated.push("access-verdict-open");
            tol_codes.push(REFUSED);
        }
    }
    let edns_certain = p.class != ParseClass::Bad && p.opts.len() == 1 && p.opts[0].section == 3 && p.opts[0].version > 0;
    let edns_possible = p.opts.iter().any(|o| o.version > 0);
    if edns_certain {
        e.gates.push("edns-version-gt0");
        gate_codes.push(BADVERS);
    } else if edns_possible {
        e.tolerated.push("edns-version-gt0?");
        tol_codes.push(BADVERS);
    }
    if opcode == 0 && p.class != ParseClass::Bad {
        if let Some(q) = &p.question {
            e.zone = longest_suffix_zone(&cfg.zones, &q.name);
            if let Some(zi) = e.zone {
                if cfg.unjudged.get(zi).copied().unwrap_or(false) {
                    e.tolerated.push("zone-answer-unjudged");
                    normal_any = true;
                }
            }
            if e.zone.is_none() {
                e.gates.push("no-enclosing-zone");
                gate_codes.push(REFUSED);
            }
            e.plain = q.qclass == 1 && matches!(q.qtype, 1 | 2 | 6 | 15 | 16 | 28) && !e.tolerated.contains(&"zone-answer-unjudged");
        }
    }
    let mut set = RcodeSet { any, mask: 0 };
    for c in &gate_codes {
        set.add(*c);
    }
    for c in &tol_codes {
        set.add(*c);
    }
    if gate_codes.is_empty() {
        if normal_any {
            set.any = true;
        } else if opcode == 0 && e.plain {
            set.add(NOERROR);
            set.add(NXDOMAIN);
        } else {
            // an update, or a query for a meta/unknown type or class: the statement does not fix
            // the code
            set.any = true;
        }
    }
    e.rcodes = set;
    e
}
