//! Sign / verify part of C05.
//!
//! (i)  built-in signer (`RRSIG::from_rrset` + `DnssecSigner`) -> built-in verifier
//!      (`DNSKEY::verify_rrsig`), records in the given and in reversed order; and, where the TBS
//!      bytes equal the reference, the built-in signature must verify over the REFERENCE bytes with
//!      `ring` directly (a third-party validator accepts hickory's signatures).
//! (ii) reference-signed: the reference signed data is signed with `ring` directly (third-party
//!      signer), the DNSKEY is built from ring's public key per RFC 3110 / 6605 / 8080, and the
//!      built-in `verify_rrsig` must accept it.

use std::time::Duration;

use hickory_proto::dnssec::crypto::signing_key_from_der;
use hickory_proto::dnssec::rdata::{DNSKEY, RRSIG};
use hickory_proto::dnssec::{Algorithm, DnssecSigner, PublicKey, PublicKeyBuf, Verifier, TBS};
use hickory_proto::rr::{DNSClass, RData, RecordSet, RecordType};
use ring::rand::SystemRandom;
use ring::signature::{self, EcdsaKeyPair, Ed25519KeyPair, KeyPair, RsaKeyPair};
use rustls_pki_types::{PrivateKeyDer, PrivatePkcs8KeyDer};
use serde_json::json;
use time::OffsetDateTime;
use vcore::{catch, fnv64, Local};
use vref::canon::{self, SigParams};

use crate::tbs::{hinput, hname, hrecords, Case, Verdict};

static ED25519: &[u8] = include_bytes!("../keys/ed25519.pk8");
static P256: &[u8] = include_bytes!("../keys/p256.pk8");
static P384: &[u8] = include_bytes!("../keys/p384.pk8");
static RSA2048: &[u8] = include_bytes!("../keys/rsa2048.pk8");

enum RingKey {
    Ed(Ed25519KeyPair),
    Ec(EcdsaKeyPair, &'static signature::EcdsaVerificationAlgorithm),
    Rsa(RsaKeyPair, &'static dyn signature::RsaEncoding, &'static signature::RsaParameters),
}

pub struct Key {
    pub name: &'static str,
    #[allow(dead_code)]
    pub alg: Algorithm,
    pub code: u8,
    ring: RingKey,
    /// public key in DNSKEY wire format, computed from ring's key without hickory
    #[allow(dead_code)]
    pub public: Vec<u8>,
    /// DNSKEY built from `public` (third-party view)
    pub dnskey: DNSKEY,
    /// key tag of that DNSKEY per RFC 4034 Appendix B (reference computation)
    pub key_tag: u16,
    /// the built-in signer for the same private key
    pub signer: DnssecSigner,
    der: &'static [u8],
}

/// RFC 4034 Appendix B.
fn key_tag(rdata: &[u8]) -> u16 {
    let mut ac: u32 = 0;
    for (i, b) in rdata.iter().enumerate() {
        ac += if i & 1 == 1 { *b as u32 } else { (*b as u32) << 8 };
    }
    ac += (ac >> 16) & 0xffff;
    (ac & 0xffff) as u16
}

pub fn keys(signer_name: &canon::Labels) -> Result<Vec<Key>, String> {
    let rng = SystemRandom::new();
    let mut out = vec![];
    let specs: [(&'static str, Algorithm, u8, &'static [u8]); 5] = [
        ("RSASHA256", Algorithm::RSASHA256, 8, RSA2048),
        ("RSASHA512", Algorithm::RSASHA512, 10, RSA2048),
        ("ECDSAP256SHA256", Algorithm::ECDSAP256SHA256, 13, P256),
        ("ECDSAP384SHA384", Algorithm::ECDSAP384SHA384, 14, P384),
        ("ED25519", Algorithm::ED25519, 15, ED25519),
    ];
    for (name, alg, code, der) in specs {
        let (ring, public): (RingKey, Vec<u8>) = match code {
            15 => {
                let k = Ed25519KeyPair::from_pkcs8_maybe_unchecked(der).map_err(|e| format!("{name}: {e}"))?;
                let p = k.public_key().as_ref().to_vec(); // RFC 8080: the 32 octets
                (RingKey::Ed(k), p)
            }
            13 | 14 => {
                let (sa, va): (&'static signature::EcdsaSigningAlgorithm, &'static signature::EcdsaVerificationAlgorithm) = if code == 13 {
                    (&signature::ECDSA_P256_SHA256_FIXED_SIGNING, &signature::ECDSA_P256_SHA256_FIXED)
                } else {
                    (&signature::ECDSA_P384_SHA384_FIXED_SIGNING, &signature::ECDSA_P384_SHA384_FIXED)
                };
                let k = EcdsaKeyPair::from_pkcs8(sa, der, &rng).map_err(|e| format!("{name}: {e}"))?;
                // RFC 6605 4: Q = x | y without the 0x04 point-format octet
                let p = k.public_key().as_ref()[1..].to_vec();
                (RingKey::Ec(k, va), p)
            }
            _ => {
                let k = RsaKeyPair::from_pkcs8(der).map_err(|e| format!("{name}: {e}"))?;
                let comp = ring::rsa::PublicKeyComponents::<Vec<u8>>::from(k.public());
                let (e, n) = (comp.e, comp.n);
                // RFC 3110 2: exponent length (1 octet, or 0 + 2 octets) | exponent | modulus
                let mut p = vec![];
                if e.len() > 255 {
                    p.push(0);
                    p.extend_from_slice(&(e.len() as u16).to_be_bytes());
                } else {
                    p.push(e.len() as u8);
                }
                p.extend_from_slice(&e);
                p.extend_from_slice(&n);
                let (enc, par): (&'static dyn signature::RsaEncoding, &'static signature::RsaParameters) = if code == 8 {
                    (&signature::RSA_PKCS1_SHA256, &signature::RSA_PKCS1_2048_8192_SHA256)
                } else {
                    (&signature::RSA_PKCS1_SHA512, &signature::RSA_PKCS1_2048_8192_SHA512)
                };
                (RingKey::Rsa(k, enc, par), p)
            }
        };
        let dnskey = DNSKEY::with_flags(256, PublicKeyBuf::new(public.clone(), alg));
        let mut rd = vec![0x01, 0x00, 3, code];
        rd.extend_from_slice(&public);
        let sk = signing_key_from_der(&PrivateKeyDer::Pkcs8(PrivatePkcs8KeyDer::from(der)), alg).map_err(|e| format!("{name}: built-in key: {e}"))?;
        let bpk = sk.to_public_key().map_err(|e| format!("{name}: {e}"))?;
        if bpk.public_bytes() != &public[..] {
            return Err(format!("{name}: built-in public key encoding differs from the RFC encoding computed from ring's key"));
        }
        let signer = DnssecSigner::new(DNSKEY::from_key(&bpk), sk, hname(signer_name), Duration::from_secs(86400));
        out.push(Key { name, alg, code, ring, public, dnskey, key_tag: key_tag(&rd), signer, der });
    }
    Ok(out)
}

impl Key {
    fn ring_sign(&self, msg: &[u8]) -> Vec<u8> {
        let rng = SystemRandom::new();
        match &self.ring {
            RingKey::Ed(k) => k.sign(msg).as_ref().to_vec(),
            RingKey::Ec(k, _) => k.sign(&rng, msg).expect("ecdsa sign").as_ref().to_vec(),
            RingKey::Rsa(k, enc, _) => {
                let mut sig = vec![0u8; k.public().modulus_len()];
                k.sign(*enc, &rng, msg, &mut sig).expect("rsa sign");
                sig
            }
        }
    }
    fn ring_verify(&self, msg: &[u8], sig: &[u8]) -> bool {
        match &self.ring {
            RingKey::Ed(k) => signature::UnparsedPublicKey::new(&signature::ED25519, k.public_key().as_ref()).verify(msg, sig).is_ok(),
            RingKey::Ec(k, va) => signature::UnparsedPublicKey::new(*va, k.public_key().as_ref()).verify(msg, sig).is_ok(),
            RingKey::Rsa(k, _, par) => signature::UnparsedPublicKey::new(*par, k.public().as_ref()).verify(msg, sig).is_ok(),
        }
    }
}

/// Both directions for one RRset shape and one key. `base` carries owner / class / rdatas / ttls
/// and the non-key RRSIG parameters.
pub fn run_crypto_case(base: &Case, hr: &[RData], key: &Key, l: &mut Local) {
    let rtype = base.p.type_covered;
    let name = hname(&base.owner);
    let class = DNSClass::from(base.class);
    let recs = hrecords(base, hr);
    let wit = |what: &str| {
        let mut j = base.to_json();
        j["family"] = json!("crypto");
        j["key"] = json!(key.name);
        j["step"] = json!(what);
        j
    };

    // ---------------------------------------------------------------- (ii) reference-signed
    let mut c = base.clone();
    c.p.algorithm = key.code;
    c.p.key_tag = key.key_tag;
    // the key's DNSKEY tag as hickory computes it must be the RFC value (used to find the key)
    if let Ok(t) = key.dnskey.calculate_key_tag() {
        if t != key.key_tag {
            l.violation(&format!("key-tag-differs:{}", key.name), &format!("hickory {t}, RFC 4034 App. B {}", key.key_tag), || wit("key-tag"));
        }
    }
    let verdict = crate::tbs::run_tbs_case(&c, hr, l);
    let reference = match &verdict {
        Verdict::Equal(w) => Some(w.clone()),
        Verdict::Deviates(w, _) => Some(w.clone()),
        Verdict::NoData => None,
    };
    if let Some(w) = &reference {
        l.eval();
        let sig = key.ring_sign(w);
        let rrsig = RRSIG::from_sig(hinput(&c.p), sig);
        let res = catch(|| key.dnskey.verify_rrsig(&name, class, &rrsig, recs.iter()).map_err(|e| e.to_string()));
        match (res, &verdict) {
            (Err(p), _) => l.violation(&format!("panic:{}", vcore::short_loc(&p.loc)), &p.msg, || wit("refsigned-verify")),
            (Ok(Ok(())), Verdict::Equal(_)) => {
                l.outcome(&format!("refsigned:verified:{}", key.name));
                if c.rdatas.len() >= 2 {
                    l.nontrivial(fnv64(w) ^ key.code as u64);
                }
            }
            (Ok(Err(e)), Verdict::Equal(_)) => {
                l.violation(&format!("refsigned-verify-fails:{}", key.name), &format!("signed data equals the reference but the third-party signature is rejected: {e}"), || wit("refsigned-verify"))
            }
            (Ok(Err(_)), _) => l.outcome("refsigned:rejected-as-consequence-of-a-reported-tbs-deviation"),
            (Ok(Ok(())), _) => l.violation("verify-accepts-signature-over-other-bytes", "TBS differs from the signed bytes but verification succeeded", || wit("refsigned-verify")),
        }
    }

    // ---------------------------------------------------------------- (i) built-in sign -> verify
    // RecordSet as the built-in signer sees it (TTL of the set = first record's TTL)
    let mut rrset = RecordSet::with_ttl(name.clone(), RecordType::from(rtype), base.ttls[0]);
    rrset.set_dns_class(class);
    rrset.set_records(recs.clone());
    let inception = OffsetDateTime::from_unix_timestamp(base.p.inception as i64).expect("time");
    l.eval();
    let res = catch(|| RRSIG::from_rrset(&rrset, class, inception, &key.signer).map_err(|e| e.to_string()));
    let rrsig = match res {
        Err(p) => {
            l.violation(&format!("panic:{}", vcore::short_loc(&p.loc)), &p.msg, || wit("selfsign"));
            return;
        }
        Ok(Err(e)) => {
            l.violation(&format!("selfsign-error:{}", key.name), &e, || wit("selfsign"));
            return;
        }
        Ok(Ok(r)) => r,
    };
    for (order, list) in [("given", recs.clone()), ("reversed", recs.iter().rev().cloned().collect::<Vec<_>>())] {
        match catch(|| key.signer.dnskey().verify_rrsig(&name, class, &rrsig, list.iter()).map_err(|e| e.to_string())) {
            Err(p) => l.violation(&format!("panic:{}", vcore::short_loc(&p.loc)), &p.msg, || wit("selfverify")),
            Ok(Err(e)) => l.violation(&format!("selfsign-verify-fails:{}:{order}-order", key.name), &e, || wit("selfverify")),
            Ok(Ok(())) => l.outcome(&format!("selfsign:verified:{}", key.name)),
        }
    }
    // a third-party validator on hickory's signature: only where hickory's TBS for these very
    // parameters equals the reference (deviations are reported by the byte comparison)
    let inp = rrsig.input();
    let p2 = SigParams {
        type_covered: rtype,
        algorithm: key.code,
        labels: inp.num_labels,
        original_ttl: inp.original_ttl,
        expiration: inp.sig_expiration.get(),
        inception: inp.sig_inception.get(),
        key_tag: inp.key_tag,
        signer: base.p.signer.clone(),
    };
    let want_labels = if base.owner.first().map(|x| x.as_slice() == b"*").unwrap_or(false) { base.owner.len() - 1 } else { base.owner.len() };
    if inp.num_labels as usize != want_labels || inp.original_ttl != base.ttls[0] || inp.sig_inception.get() != base.p.inception || u8::from(inp.algorithm) != key.code {
        l.violation(&format!("selfsign-rrsig-fields:{}", key.name), &format!("{inp:?}"), || wit("selfsign-fields"));
        return;
    }
    if let Ok(w) = canon::signed_data(&base.owner, base.class, &p2, &base.rdatas) {
        let own = TBS::from_input(&name, class, inp, recs.iter()).map(|t| t.as_ref().to_vec()).ok();
        if own.as_deref() == Some(&w[..]) {
            if key.ring_verify(&w, rrsig.sig()) {
                l.outcome(&format!("selfsign:third-party-verifies:{}", key.name));
            } else {
                l.violation(&format!("selfsign-not-verifiable-by-third-party:{}", key.name), "ring rejects the built-in signature over the reference signed data", || wit("third-party-verify"));
            }
        } else {
            l.outcome("selfsign:third-party-check-skipped-because-of-a-reported-tbs-deviation");
        }
    }
}

/// Key tag family: DNSKEY RDATA = flags | 3 | algorithm | key with `len` key octets in one of six
/// fill patterns (zeros, 0xff, counting, leading zeros, RSA-shaped with a zero-padded modulus,
/// alternating); hickory's `DNSKEY::calculate_key_tag` (decoded from the wire and built through
/// the constructor) against RFC 4034 Appendix B.
pub fn run_keytag_case(flags: u16, alg: u8, len: usize, pattern: u8, l: &mut Local) {
    use hickory_proto::serialize::binary::BinDecoder;
    let key: Vec<u8> = match pattern {
        0 => vec![0u8; len],
        1 => vec![0xff; len],
        2 => (0..len).map(|i| (i * 7 + 1) as u8).collect(),
        3 => (0..len).map(|i| if i < 3 { 0 } else { 0xff }).collect(),
        4 => {
            // RFC 3110: exponent length 3, exponent 01 00 01, modulus with two leading zero octets
            let mut k = vec![3u8, 1, 0, 1, 0, 0];
            k.extend((0..len.saturating_sub(6)).map(|i| 0xc3u8.wrapping_add(i as u8)));
            k.truncate(len);
            k
        }
        _ => (0..len).map(|i| if i % 2 == 0 { 0xff } else { 0 }).collect(),
    };
    let mut rd = flags.to_be_bytes().to_vec();
    rd.push(3);
    rd.push(alg);
    rd.extend_from_slice(&key);
    let want = key_tag(&rd);
    let case = || json!({"family": "keytag", "flags": flags, "algorithm": alg, "key_len": len, "pattern": pattern, "rdata_head": vcore::hex::enc(&rd[..rd.len().min(24)])});
    l.eval();
    let dec = catch(|| RData::read(BinDecoder::new(&rd), RecordType::DNSKEY).map_err(|e| e.to_string()));
    let dnskey = match dec {
        Err(p) => {
            l.violation(&format!("panic:{}", vcore::short_loc(&p.loc)), &p.msg, case);
            return;
        }
        Ok(Err(_)) => {
            l.outcome("obs:keytag:dnskey-rdata-rejected-by-decoder");
            return;
        }
        Ok(Ok(RData::DNSSEC(hickory_proto::dnssec::rdata::DNSSECRData::DNSKEY(k)))) => k,
        Ok(Ok(_)) => {
            l.outcome("obs:keytag:not-decoded-as-dnskey");
            return;
        }
    };
    let built = DNSKEY::with_flags(flags, PublicKeyBuf::new(key.clone(), Algorithm::from_u8(alg)));
    for (who, k) in [("decoded", &dnskey), ("constructed", &built)] {
        match catch(|| k.calculate_key_tag().map_err(|e| e.to_string())) {
            Err(p) => l.violation(&format!("panic:{}", vcore::short_loc(&p.loc)), &p.msg, case),
            Ok(Err(e)) => l.violation(&format!("keytag-error:{who}"), &e, case),
            Ok(Ok(t)) => {
                if t != want {
                    let scene = if rd.len() % 2 == 1 { "odd-length-rdata" } else { "even-length-rdata" };
                    l.violation(&format!("keytag-differs:{who}:{scene}"), &format!("hickory {t}, RFC 4034 Appendix B {want}"), case);
                } else {
                    l.outcome("keytag:equal");
                    if rd.len() % 2 == 1 {
                        l.outcome("keytag:equal:odd-length-rdata");
                    }
                    l.nontrivial(fnv64(&rd) ^ 0x6b657974);
                }
            }
        }
    }
}

/// Signer configuration family (audit round, class (a)): the knobs `RRSIG::from_rrset` reads —
/// signature duration (expiration = inception + duration, a 32-bit serial number), inception
/// (incl. the last seconds before 2^32), the signer's name (mixed case: lower-cased in the signed
/// data, kept on the wire), the RecordSet's TTL (the Original TTL; record TTLs are irrelevant) —
/// and the RRSIG record hickory puts on the wire, read by a third party: the reference parses the
/// RRSIG RDATA octets, rebuilds the signed data from them and verifies the signature with ring.
#[allow(clippy::too_many_arguments)]
pub fn run_signer_knob_case(key: &Key, inception: u32, duration: u32, signer: &canon::Labels, set_ttl: u32, rec_ttl: u32, owner: &canon::Labels, l: &mut Local) {
    use hickory_proto::dnssec::rdata::DNSSECRData;
    use hickory_proto::serialize::binary::BinDecoder;
    l.eval();
    let case = || {
        json!({"family": "signer-knobs", "key": key.name, "inception": inception, "duration": duration, "set_ttl": set_ttl, "record_ttl": rec_ttl,
            "signer": signer.iter().map(|x| vcore::hex::enc(x)).collect::<Vec<_>>(), "owner": owner.iter().map(|x| vcore::hex::enc(x)).collect::<Vec<_>>()})
    };
    let sk = match signing_key_from_der(&PrivateKeyDer::Pkcs8(PrivatePkcs8KeyDer::from(key.der)), key.alg) {
        Ok(k) => k,
        Err(_) => return,
    };
    let signer_h = DnssecSigner::new(key.signer.dnskey().clone(), sk, hname(signer), Duration::from_secs(duration as u64));
    let name = hname(owner);
    let rdatas: Vec<canon::Rdata> = vec![vec![canon::Field::Name(vec![b"B".to_vec(), b"z".to_vec()])], vec![canon::Field::Name(vec![b"a".to_vec(), b"z".to_vec()])]];
    let recs: Vec<hickory_proto::rr::Record> = rdatas
        .iter()
        .map(|rd| hickory_proto::rr::Record::from_rdata(name.clone(), rec_ttl, crate::tbs::hrdata(2, rd).expect("NS rdata")))
        .collect();
    let mut rrset = RecordSet::with_ttl(name.clone(), RecordType::NS, set_ttl);
    rrset.set_dns_class(DNSClass::IN);
    rrset.set_records(recs.clone());
    let inc = OffsetDateTime::from_unix_timestamp(inception as i64).expect("time");
    let rrsig = match catch(|| RRSIG::from_rrset(&rrset, DNSClass::IN, inc, &signer_h).map_err(|e| e.to_string())) {
        Err(p) => {
            l.violation(&format!("panic:{}", vcore::short_loc(&p.loc)), &p.msg, case);
            return;
        }
        Ok(Err(e)) => {
            l.violation(&format!("signer-knobs:error:{}", key.name), &e, case);
            return;
        }
        Ok(Ok(r)) => r,
    };
    let inp = rrsig.input();
    let want_exp = inception.wrapping_add(duration);
    // the signer's own DNSKEY (flags as `DNSKEY::from_key` sets them): reference key tag over its RDATA
    let want_tag = {
        let mut rd = key.signer.dnskey().flags().to_be_bytes().to_vec();
        rd.push(3);
        rd.push(key.code);
        rd.extend_from_slice(&key.public);
        key_tag(&rd)
    };
    let star = owner.first().map(|x| x.as_slice() == b"*").unwrap_or(false);
    let mut bad = vec![];
    if inp.sig_inception.get() != inception {
        bad.push("inception");
    }
    if inp.sig_expiration.get() != want_exp {
        bad.push("expiration");
    }
    if inp.original_ttl != set_ttl {
        bad.push("original-ttl");
    }
    if inp.num_labels as usize != owner.len() - star as usize {
        bad.push("labels");
    }
    if inp.key_tag != want_tag || u8::from(inp.algorithm) != key.code || u16::from(inp.type_covered) != 2 {
        bad.push("key-tag-alg-type");
    }
    if !inp.signer_name.eq_case(&hname(signer)) {
        bad.push("signer-name");
    }
    if !bad.is_empty() {
        l.violation(&format!("signer-knobs:rrsig-field:{}", bad.join("+")), &format!("{inp:?}, expected expiration {want_exp}"), case);
        return;
    }
    // the RRSIG as a third party sees it on the wire
    let rdata = RData::DNSSEC(DNSSECRData::RRSIG(rrsig.clone()));
    let wire = match hickory_proto::serialize::binary::BinEncodable::to_bytes(&rdata) {
        Ok(w) => w,
        Err(e) => {
            l.violation("signer-knobs:rrsig-does-not-encode", &e.to_string(), case);
            return;
        }
    };
    // reference parse: 18 fixed octets, an UNCOMPRESSED signer name with the case as configured, signature
    let parsed = (|| -> Option<(SigParams, Vec<u8>)> {
        let f = wire.get(..18)?;
        let (labels, after) = vref::name::from_wire_uncompressed(&wire, 18)?;
        Some((
            SigParams {
                type_covered: u16::from_be_bytes([f[0], f[1]]),
                algorithm: f[2],
                labels: f[3],
                original_ttl: u32::from_be_bytes([f[4], f[5], f[6], f[7]]),
                expiration: u32::from_be_bytes([f[8], f[9], f[10], f[11]]),
                inception: u32::from_be_bytes([f[12], f[13], f[14], f[15]]),
                key_tag: u16::from_be_bytes([f[16], f[17]]),
                signer: labels,
            },
            wire[after..].to_vec(),
        ))
    })();
    let Some((p, sig)) = parsed else {
        l.violation("signer-knobs:rrsig-wire-unparseable", "RRSIG RDATA is not 18 octets + uncompressed name + signature", case);
        return;
    };
    if &p.signer != signer {
        let what = if vref::name::labels_eq_fold(&p.signer, signer) { "case-changed" } else { "changed" };
        l.violation(&format!("signer-knobs:rrsig-wire-signer-name-{what}"), "the signer name on the wire is not the configured one", case);
        return;
    }
    if p.expiration != want_exp || p.inception != inception || p.original_ttl != set_ttl || p.algorithm != key.code || p.key_tag != want_tag {
        l.violation("signer-knobs:rrsig-wire-fields", &format!("{p:?}"), case);
        return;
    }
    match canon::signed_data(owner, 1, &p, &rdatas) {
        Ok(w) => {
            if key.ring_verify(&w, &sig) {
                l.outcome(&format!("signer-knobs:third-party-verifies-from-wire:{}", key.name));
                l.nontrivial(fnv64(&wire[..wire.len() - sig.len()]) ^ key.code as u64 ^ (rec_ttl as u64) << 32);
            } else {
                l.violation(&format!("signer-knobs:third-party-rejects:{}", key.name), "ring rejects hickory's signature over the signed data rebuilt from the RRSIG on the wire", case);
            }
        }
        Err(e) => l.violation("signer-knobs:labels-field", &format!("{e:?}"), case),
    }
    // hickory reads its own RRSIG back and verifies it
    match RData::read(BinDecoder::new(&wire), RecordType::RRSIG) {
        Ok(RData::DNSSEC(DNSSECRData::RRSIG(back))) => {
            if back != rrsig {
                l.violation("signer-knobs:rrsig-wire-roundtrip", "decoded RRSIG differs from the one that was encoded", case);
            } else if key.signer.dnskey().verify_rrsig(&name, DNSClass::IN, &back, recs.iter().rev()).is_err() {
                l.violation(&format!("signer-knobs:selfverify-fails:{}", key.name), "the decoded RRSIG does not verify", case);
            }
        }
        _ => l.violation("signer-knobs:rrsig-wire-roundtrip", "hickory cannot decode its own RRSIG RDATA", case),
    }
}
