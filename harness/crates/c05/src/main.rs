//! C05 — RRset signed data equals the RFC 4034/4035 canonical form.
//!
//! E-ENUM. TBS family: RRsets (type x every ordered sequence with repetition of 1..3 (thorough: 5)
//! values of a per-type RDATA alphabet = every permutation of every multiset, duplicates and
//! canonical duplicates included) x owners x record-owner case x TTL pattern x class x RRSIG
//! parameter tuples x every Labels value 0..owner_labels+1, through the real `TBS::from_input`,
//! compared byte for byte with `vref::canon` (RFC 4034 6.2/6.3, RFC 4035 5.3.2, RFC 6840 5.1).
//! Crypto family: every RRset shape x every supported signing algorithm, built-in sign -> built-in
//! verify (given and reversed order) -> ring verifies over the reference bytes; reference bytes
//! signed with ring directly -> built-in `DNSKEY::verify_rrsig`.

mod alpha;
mod crypto;
mod tbs;

use hickory_proto::rr::RData;
use serde_json::json;
use vcore::{Ctx, Odometer};
use vref::canon::{Labels, SigParams};

use alpha::{alphabets, nm, sequences, TypeAlpha};
use tbs::Case;

fn swap_case(l: &Labels) -> Labels {
    l.iter()
        .map(|x| {
            x.iter()
                .map(|&b| if b.is_ascii_uppercase() { b + 0x20 } else if b.is_ascii_lowercase() { b - 0x20 } else { b })
                .collect()
        })
        .collect()
}

/// RRSIG parameter tuples (everything except type covered and Labels).
fn sig_tuples() -> Vec<SigParams> {
    let t = |algorithm: u8, original_ttl: u32, expiration: u32, inception: u32, key_tag: u16, signer: &str| SigParams {
        type_covered: 0,
        algorithm,
        labels: 0,
        original_ttl,
        expiration,
        inception,
        key_tag,
        signer: nm(signer),
    };
    vec![
        t(15, 3600, 1_700_086_400, 1_700_000_000, 12345, "z"),
        // serial-number wrap of the validity window, upper-case signer, TTL 0
        t(13, 0, 0x0000_0010, 0xffff_fff0, 0, "Z"),
        t(8, 0xffff_ffff, 0xffff_ffff, 0, 0xffff, "Sub.Z"),
        t(5, 1, 1, 2, 256, ""),
    ]
}

fn ttl_pattern(pat: u64, n: usize) -> Vec<u32> {
    match pat {
        0 => vec![300; n],
        // descending record TTLs (a response assembled from caches with different remaining TTLs)
        _ => (0..n).map(|i| 100 * (n - i) as u32).collect(),
    }
}

struct Prepared {
    alpha: TypeAlpha,
    hr: Vec<RData>,
    seqs: Vec<Vec<usize>>,
}

fn main() {
    // a stack overflow / abort in the code under test must become a verdict, not a dead check
    vcore::supervise("C05");
    let ctx = Ctx::from_args("C05", "exploration");
    let thorough = !ctx.quick();

    let signer_name = nm("z");
    let keys = match crypto::keys(&signer_name) {
        Ok(k) => k,
        Err(e) => {
            // the public-key encoding clause is part of "a conforming third-party signer verifies"
            if e.contains("public key encoding differs") {
                ctx.with_local(|l| {
                    l.eval();
                    l.violation("dnskey-public-key-encoding", &e, || json!({"family": "keys"}))
                });
                ctx.finish(false);
            }
            vcore::machinery_exit(&format!("key material: {e}"))
        }
    };

    if let Some((_key, case)) = ctx.replay_case() {
        let c = Case::from_json(&case);
        let hr: Result<Vec<RData>, String> = c.rdatas.iter().map(|r| tbs::hrdata(c.p.type_covered, r)).collect();
        let hr = hr.unwrap_or_else(|e| vcore::machinery_exit(&format!("replay: RDATA does not decode: {e}")));
        ctx.with_local(|l| {
            if case["family"].as_str() == Some("crypto") {
                let k = keys.iter().find(|k| Some(k.name) == case["key"].as_str()).unwrap_or(&keys[0]);
                crypto::run_crypto_case(&c, &hr, k, l);
            } else {
                tbs::run_tbs_case(&c, &hr, l);
            }
        });
        ctx.finish(false);
    }

    ctx.set_rule(
        "E-ENUM. RRsets: type in {A, AAAA, NS, CNAME, PTR, MX, SOA, SRV, NAPTR, TXT, DS, DNSKEY, NSEC, SVCB, HTTPS, CAA, \
         TYPE65280 (opaque), DNAME, KX; thorough: RP, AFSDB, HINFO}; per-type RDATA alphabets of 3..6 values with mixed-case \
         embedded names, case-only pairs (canonical duplicates), prefix-related values, compressible name pairs; EVERY ordered \
         sequence with repetition of 1..3 (thorough 1..5) values = every permutation of every multiset incl. exact duplicates; \
         owner (name argument) in {z. a.z. A.Z. *.z. x.y.z.; thorough: root}; records carry the owner as given or with swapped case; \
         record TTLs all 300 or descending 100*k; class IN/CH; 4 RRSIG parameter tuples (original TTL != record TTL, 0 and \
         2^32-1, validity window wrapping 2^32, upper-case signer, root signer) x every Labels value 0..owner_labels+1. Each \
         RDATA is decoded from its plain wire form by the real decoder, TBS::from_input is executed and compared byte for byte \
         with vref::canon. Labels > owner labels must be an error; a wildcard owner whose Labels value counts the '*' is not \
         judged (RFC 4034 3.1.3 vs RFC 4035 5.3.2). Crypto: every RRset shape of <= 3 (thorough 4) records x {RSASHA256, RSASHA512, ECDSAP256SHA256, \
         ECDSAP384SHA384, ED25519}: RRSIG::from_rrset -> verify_rrsig (given + reversed order) -> ring verifies the built-in \
         signature over the reference bytes; reference bytes signed by ring -> verify_rrsig must accept iff the TBS bytes equal \
         the reference. Non-trivial = distinct cases with >= 2 records whose input order is not the canonical duplicate-free \
         order, or with embedded names, and every deviating case.",
    );
    ctx.assume("vref::canon (RFC 4034 6.2/6.3, RFC 4035 5.3.2, RFC 6840 5.1) is the reference for the signed data");
    ctx.assume("ring's Ed25519 / ECDSA / RSA PKCS#1 v1.5 primitives are correct (they stand for the conforming third-party signer and validator)");
    ctx.assume("RDATA values enter hickory through its own wire decoder (the validator's path); C02 owns decoder fidelity");

    // ------------------------------------------------------------------ prepare alphabets
    let max_len = if thorough { 5 } else { 3 };
    let mut prepared: Vec<Prepared> = vec![];
    for a in alphabets(thorough) {
        let mut hr = vec![];
        for v in &a.values {
            match tbs::hrdata(a.code, v) {
                Ok(r) => hr.push(r),
                Err(e) => {
                    ctx.machinery_failure(&format!("alphabet value of {} does not decode: {e} ({:?})", a.name, v));
                }
            }
        }
        if hr.len() != a.values.len() {
            continue;
        }
        let seqs = sequences(a.values.len(), max_len);
        prepared.push(Prepared { alpha: a, hr, seqs });
    }
    let mut owners: Vec<Labels> = vec![nm("z"), nm("a.z"), nm("A.Z"), nm("*.z"), nm("x.y.z")];
    if thorough {
        owners.push(vec![]);
    }
    let tuples = sig_tuples();
    let classes = [1u16, 3];

    // ------------------------------------------------------------------ TBS family
    let mut total_shapes = 0u64;
    for pr in &prepared {
        total_shapes += pr.seqs.len() as u64;
        // digits: seq, owner, rec-owner case, ttl pattern, class, tuple ; Labels enumerated inside
        let od = Odometer::new(&[pr.seqs.len() as u64, owners.len() as u64, 2, 2, classes.len() as u64, tuples.len() as u64]);
        ctx.par_run(od.space(), 64, |i, l| {
            let d = od.get(i);
            let seq = &pr.seqs[d[0] as usize];
            let owner = &owners[d[1] as usize];
            let rec_owner = if d[2] == 0 { owner.clone() } else { swap_case(owner) };
            let hr: Vec<RData> = seq.iter().map(|&k| pr.hr[k].clone()).collect();
            let mut p = tuples[d[5] as usize].clone();
            p.type_covered = pr.alpha.code;
            let mut c = Case {
                tname: pr.alpha.name.to_string(),
                owner: owner.clone(),
                rec_owner,
                class: classes[d[4] as usize],
                rdatas: seq.iter().map(|&k| pr.alpha.values[k].clone()).collect(),
                ttls: ttl_pattern(d[3], seq.len()),
                p,
            };
            for labels in 0..=(owner.len() as u8 + 1) {
                c.p.labels = labels;
                tbs::run_tbs_case(&c, &hr, l);
            }
            if i % 40009 == 11 {
                c.p.labels = owner.len() as u8;
                l.sample(c.to_json());
            }
        });
    }
    ctx.set("rrset_shapes", json!(total_shapes));
    ctx.set("types", json!(prepared.iter().map(|p| p.alpha.name).collect::<Vec<_>>()));
    ctx.set("wall_after_tbs_s", json!(ctx.elapsed_s()));

    // ------------------------------------------------------------------ crypto family
    // every RRset shape x every key; one parameter tuple; owner a.z. (plus the wildcard-reduced
    // x.y.z. / Labels=1 for the reference-signed direction on the shortest shapes)
    {
        let crypto_len = if thorough { 4 } else { 3 };
        for pr in &prepared {
            let seqs: Vec<&Vec<usize>> = pr.seqs.iter().filter(|s| s.len() <= crypto_len).collect();
            let od = Odometer::new(&[seqs.len() as u64, keys.len() as u64]);
            ctx.par_run(od.space(), 4, |i, l| {
                let d = od.get(i);
                let seq = seqs[d[0] as usize];
                let key = &keys[d[1] as usize];
                let hr: Vec<RData> = seq.iter().map(|&k| pr.hr[k].clone()).collect();
                let mut p = tuples[0].clone();
                p.type_covered = pr.alpha.code;
                p.labels = 2;
                let owner = nm("a.z");
                let c = Case {
                    tname: pr.alpha.name.to_string(),
                    owner: owner.clone(),
                    rec_owner: owner,
                    class: 1,
                    rdatas: seq.iter().map(|&k| pr.alpha.values[k].clone()).collect(),
                    ttls: vec![3600; seq.len()],
                    p,
                };
                crypto::run_crypto_case(&c, &hr, key, l);
                if seq.len() == 1 {
                    // wildcard-expanded answer: owner x.y.z., Labels = 1 (signed name *.z.), mixed-case record owner
                    let mut w = c.clone();
                    w.owner = nm("x.y.z");
                    w.rec_owner = nm("X.y.Z");
                    w.p.labels = 1;
                    crypto::run_crypto_case(&w, &hr, key, l);
                }
                if i % 1009 == 5 {
                    let mut j = c.to_json();
                    j["family"] = json!("crypto");
                    j["key"] = json!(key.name);
                    l.sample(j);
                }
            });
        }
    }

    // ------------------------------------------------------------------ vacuity guards
    let mut need: Vec<String> = vec![
        "tbs:equal".into(),
        "tbs:equal:wildcard-reduced-owner".into(),
        "tbs:labels-exceed-owner:rejected".into(),
    ];
    for k in &keys {
        need.push(format!("refsigned:verified:{}", k.name));
        need.push(format!("selfsign:verified:{}", k.name));
        need.push(format!("selfsign:third-party-verifies:{}", k.name));
    }
    for class in need {
        if ctx.outcome_count(&class) == 0 {
            ctx.machinery_failure(&format!("vacuous run: outcome class {class} was never exercised"));
        }
    }
    ctx.finish(true);
}
