//! C05 — RRset signed data equals the RFC 4034/4035 canonical form.
//!
//! E-ENUM. TBS family: RRsets (type x every ordered sequence with repetition of 1..3 (thorough: 5)
//! values of a per-type RDATA alphabet = every permutation of every multiset, duplicates and
//! canonical duplicates included) x owners x record-owner case x TTL pattern x class x RRSIG
//! parameter tuples x every Labels value 0..owner_labels+1, through the real `TBS::from_input`,
//! compared byte for byte with `vref::canon` (RFC 4034 6.2/6.3, RFC 4035 5.3.2, RFC 6840 5.1).
//! Crypto family: every RRset shape x every supported signing algorithm, built-in sign -> built-in
//! verify (given and reversed order) -> ring verifies over the reference bytes; reference bytes
//! signed with ring directly -> built-in `DNSKEY::verify_rrsig`.

mod alpha;
mod crypto;
mod tbs;

use hickory_proto::rr::RData;
use serde_json::json;
use vcore::{Ctx, Odometer};
use vref::canon::{Labels, SigParams};

use alpha::{alphabets, nm, sequences, TypeAlpha};
use tbs::{Case, Foreign};
use vref::canon::{Field, Rdata};

fn swap_case(l: &Labels) -> Labels {
    l.iter()
        .map(|x| {
            x.iter()
                .map(|&b| if b.is_ascii_uppercase() { b + 0x20 } else if b.is_ascii_lowercase() { b - 0x20 } else { b })
                .collect()
        })
        .collect()
}

/// RRSIG parameter tuples (everything except type covered and Labels).
fn sig_tuples() -> Vec<SigParams> {
    let t = |algorithm: u8, original_ttl: u32, expiration: u32, inception: u32, key_tag: u16, signer: &str| SigParams {
        type_covered: 0,
        algorithm,
        labels: 0,
        original_ttl,
        expiration,
        inception,
        key_tag,
        signer: nm(signer),
    };
    vec![
        t(15, 3600, 1_700_086_400, 1_700_000_000, 12345, "z"),
        // serial-number wrap of the validity window, upper-case signer, TTL 0
        t(13, 0, 0x0000_0010, 0xffff_fff0, 0, "Z"),
        t(8, 0xffff_ffff, 0xffff_ffff, 0, 0xffff, "Sub.Z"),
        t(5, 1, 1, 2, 256, ""),
        // signer with a dot inside a label, NUL, '[' and octets >= 0x80 (only A-Z may be folded)
        SigParams { signer: vec![b"S.x".to_vec(), vec![0x00, b'[', 0xc0, 0xdf], b"Z".to_vec()], ..t(14, 60, 2, 1, 1, "") },
    ]
}

/// Records outside the RRset (`owner`, `class`, `rtype`) to be mixed into the iterator.
fn foreign_kinds(owner: &Labels, class: u16, rtype: u16, unused: Option<&Rdata>, sigp: &SigParams, more: bool) -> Vec<Foreign> {
    let mut v = vec![];
    let mk = |kind: &str, owner: Labels, class: u16, rtype: u16, rdata: Rdata| Foreign { pos: 0, kind: kind.to_string(), owner, class, rtype, rdata, ttl: 300 };
    if let Some(rd) = unused {
        // same owner and type, other class
        v.push(mk("class", owner.clone(), if class == 1 { 3 } else { 1 }, rtype, rd.clone()));
        if more {
            v.push(mk("class", owner.clone(), 254, rtype, rd.clone()));
            v.push(mk("class", owner.clone(), 255, rtype, rd.clone()));
        }
        // same class and type, other owner: sibling, child, parent
        let mut sib = owner.clone();
        if sib.is_empty() {
            sib.push(b"q".to_vec());
        } else {
            sib[0] = b"q".to_vec();
        }
        v.push(mk("owner", sib, class, rtype, rd.clone()));
        let mut child = vec![b"q".to_vec()];
        child.extend(owner.iter().cloned());
        v.push(mk("owner", child, class, rtype, rd.clone()));
        if !owner.is_empty() {
            v.push(mk("owner", owner[1..].to_vec(), class, rtype, rd.clone()));
        }
    }
    // same owner and class, other type
    if rtype == 1 {
        v.push(mk("type", owner.clone(), class, 16, vec![Field::Bytes(vec![1, b'x'])]));
    } else {
        v.push(mk("type", owner.clone(), class, 1, vec![Field::Bytes(vec![192, 0, 2, 99])]));
    }
    // the RRSIG that covers the set (what a response carries next to the RRset)
    let mut head = vref::canon::sig_rdata_prefix(&SigParams { signer: vec![], ..sigp.clone() });
    head.truncate(18);
    v.push(mk("rrsig", owner.clone(), class, 46, vec![Field::Bytes(head), Field::Name(sigp.signer.clone()), Field::Bytes(vec![0x5a; 8])]));
    v
}

fn ttl_pattern(pat: u64, n: usize) -> Vec<u32> {
    match pat {
        0 => vec![300; n],
        // descending record TTLs (a response assembled from caches with different remaining TTLs)
        _ => (0..n).map(|i| 100 * (n - i) as u32).collect(),
    }
}

struct Prepared {
    alpha: TypeAlpha,
    hr: Vec<RData>,
    seqs: Vec<Vec<usize>>,
}

/// Large family: `n` A records at a 255-octet owner (`records = true`) or one opaque TYPE65280
/// record with `n` RDATA octets.
fn large_case(tuple: &SigParams, records: bool, n: usize) -> Case {
    let mut p = tuple.clone();
    if records {
        let long_owner: Labels = vec![vec![b'o'; 63], vec![b'P'; 63], vec![b'q'; 63], vec![b'r'; 61]];
        p.type_covered = 1;
        p.labels = 4;
        Case {
            tname: "A".into(),
            owner: long_owner.clone(),
            rec_owner: long_owner,
            class: 1,
            rdatas: (0..n).rev().map(|k| vec![Field::Bytes(vec![10, (k >> 16) as u8, (k >> 8) as u8, k as u8])]).collect(),
            ttls: vec![300; n],
            p,
            foreign: vec![],
            from_message: false,
            observe_only: false,
        }
    } else {
        p.type_covered = 65280;
        p.labels = 2;
        Case {
            tname: "TYPE65280".into(),
            owner: nm("a.z"),
            rec_owner: nm("a.z"),
            class: 1,
            rdatas: vec![vec![Field::Bytes((0..n).map(|k| (k % 251) as u8).collect())]],
            ttls: vec![300],
            p,
            foreign: vec![],
            from_message: false,
            observe_only: false,
        }
    }
}

fn main() {
    // a stack overflow / abort in the code under test must become a verdict, not a dead check
    vcore::supervise("C05");
    vcore::install_log_evaluation(); // logging is part of the environment: log arguments are evaluated as under a real subscriber
    let ctx = Ctx::from_args("C05", "exploration");
    let thorough = !ctx.quick();

    let signer_name = nm("z");
    let keys = match crypto::keys(&signer_name) {
        Ok(k) => k,
        Err(e) => {
            // the public-key encoding clause is part of "a conforming third-party signer verifies"
            if e.contains("public key encoding differs") {
                ctx.with_local(|l| {
                    l.eval();
                    l.violation("dnskey-public-key-encoding", &e, || json!({"family": "keys"}))
                });
                ctx.finish(false);
            }
            vcore::machinery_exit(&format!("key material: {e}"))
        }
    };

    if let Some((_key, case)) = ctx.replay_case() {
        if case["family"].as_str() == Some("keytag") {
            ctx.with_local(|l| {
                crypto::run_keytag_case(
                    case["flags"].as_u64().unwrap_or(0) as u16,
                    case["algorithm"].as_u64().unwrap_or(0) as u8,
                    case["key_len"].as_u64().unwrap_or(0) as usize,
                    case["pattern"].as_u64().unwrap_or(0) as u8,
                    l,
                )
            });
            ctx.finish(false);
        }
        if case["family"].as_str() == Some("signer-knobs") {
            let lab = |v: &serde_json::Value| -> Labels { v.as_array().map(|a| a.iter().map(|x| vcore::hex::dec(x.as_str().unwrap_or("")).unwrap_or_default()).collect()).unwrap_or_default() };
            let k = keys.iter().find(|k| Some(k.name) == case["key"].as_str()).unwrap_or(&keys[0]);
            ctx.with_local(|l| {
                crypto::run_signer_knob_case(
                    k,
                    case["inception"].as_u64().unwrap_or(0) as u32,
                    case["duration"].as_u64().unwrap_or(0) as u32,
                    &lab(&case["signer"]),
                    case["set_ttl"].as_u64().unwrap_or(0) as u32,
                    case["record_ttl"].as_u64().unwrap_or(0) as u32,
                    &lab(&case["owner"]),
                    l,
                )
            });
            ctx.finish(false);
        }
        let c = if case["family"].as_str() == Some("large") {
            let records = case["type"].as_str() == Some("A");
            let n = if records { case["records"].as_u64().unwrap_or(1) } else { case["first_rdata_len"].as_u64().unwrap_or(1) } as usize;
            large_case(&sig_tuples()[0], records, n)
        } else {
            Case::from_json(&case)
        };
        let hr: Result<Vec<RData>, String> = c.rdatas.iter().map(|r| tbs::hrdata(c.p.type_covered, r)).collect();
        let hr = hr.unwrap_or_else(|e| vcore::machinery_exit(&format!("replay: RDATA does not decode: {e}")));
        ctx.with_local(|l| {
            if case["family"].as_str() == Some("crypto") {
                let k = keys.iter().find(|k| Some(k.name) == case["key"].as_str()).unwrap_or(&keys[0]);
                crypto::run_crypto_case(&c, &hr, k, l);
            } else {
                if c.from_message {
                    tbs::run_tbs_case_from_message(&c, l);
                } else {
                    tbs::run_tbs_case(&c, &hr, l);
                }
            }
        });
        ctx.finish(false);
    }

    ctx.set_rule(
        "E-ENUM. RRsets: type in {A, AAAA, NS, CNAME, PTR, MX, SOA, SRV, NAPTR, TXT, DS, DNSKEY, NSEC, SVCB, HTTPS, CAA, \
         TYPE65280 (opaque), DNAME, KX; thorough: RP, AFSDB, HINFO}; per-type RDATA alphabets of 3..6 values with mixed-case \
         embedded names, case-only pairs (canonical duplicates), prefix-related values, compressible name pairs; EVERY ordered \
         sequence with repetition of 1..3 (thorough 1..5) values = every permutation of every multiset incl. exact duplicates; \
         owner (name argument) in {z. a.z. A.Z. *.z. x.y.z.; thorough: root}; records carry the owner as given or with swapped case; \
         record TTLs all 300 or descending 100*k; class IN/CH; 4 RRSIG parameter tuples (original TTL != record TTL, 0 and \
         2^32-1, validity window wrapping 2^32, upper-case signer, root signer) x every Labels value 0..owner_labels+1. Each \
         RDATA is decoded from its plain wire form by the real decoder, TBS::from_input is executed and compared byte for byte \
         with vref::canon. Labels > owner labels must be an error; a wildcard owner whose Labels value counts the '*' is not \
         judged (RFC 4034 3.1.3 vs RFC 4035 5.3.2). Crypto: every RRset shape of <= 2 (thorough 3) records (single records also under a wildcard-expanded owner, a wildcard owner, an owner with odd octets and with foreign records mixed in) x {RSASHA256, RSASHA512, ECDSAP256SHA256, \
         ECDSAP384SHA384, ED25519}: RRSIG::from_rrset -> verify_rrsig (given + reversed order) -> ring verifies the built-in \
         signature over the reference bytes; reference bytes signed by ring -> verify_rrsig must accept iff the TBS bytes equal \
         the reference. Extension round: owners and signer with odd octets (dot inside a label, NUL, '[', '@', 0xc0/0xdf, 63-octet label); every type hickory has typed RDATA for \
         (adds NSEC3, NSEC3PARAM, CDS, CDNSKEY, KEY, TLSA, SMIMEA, SSHFP, CERT, CSYNC, OPENPGPKEY, NULL, HINFO, TYPE65305/ANAME, more SvcParams) with values that are \
         prefixes of one another / differ only in length or in the last octet; filter family: one (thorough: two) record(s) of another class \
         (IN/CH, thorough NONE/ANY), another owner (sibling, child, parent), another type, or the covering RRSIG at every position of the iterator: the \
         signed data must not change; permutation family: the type's whole alphabet plus exact duplicates (7, thorough 8 records) in EVERY order with equal \
         and descending TTLs; key tag family: DNSKEY RDATA = 5 flag values x 9 algorithms x 25 key lengths (0..4097, odd and even) x 6 fill patterns \
         (zeros, 0xff, leading zeros, RSA with zero-padded modulus, ...) decoded and constructed, against RFC 4034 Appendix B. \
         Audit round: message-input family (records decoded by ONE decoder from a message with pointer owners and, for RFC 1035 types, compressed RDATA names: \
         shapes of <= 2 (thorough 3) records x 4 owners x TTL pattern x 2 tuples); field sweeps (algorithm 0..255, Labels 0..255, original TTL / expiration / \
         inception / key tag at integer-width boundaries on A and NS sets; 11 class values x every type); large family (2..1000 A records at a 255-octet owner, one \
         opaque RDATA of up to 65,535 octets: equality with the reference judged below AND above 65,535 octets — the old message-encoder limit, fixed in 263b51f; quick: 243/244 records and 65,499/65,500 octets); signer configuration \
         family (5 keys x 4 inceptions x 5 durations x 4 signer names x 4 (RRset TTL, record TTL) x 3 owners; RSA keys on a deterministic 1/7 diagonal in quick): \
         RRSIG fields, the RRSIG RDATA on the wire parsed by the reference (uncompressed signer, case kept) and verified with ring from those octets; SIG(24); \
         the obsolete RFC 4034-list types without typed RDATA: MB and MINFO in both tiers, MD MF MG MR RT PX NXT A6 in thorough (open findings). \
         Non-trivial = distinct cases with >= 2 records whose input order is not the canonical duplicate-free \
         order, or with embedded names, and every deviating case.",
    );
    ctx.assume("vref::canon (RFC 4034 6.2/6.3, RFC 4035 5.3.2, RFC 6840 5.1) is the reference for the signed data");
    ctx.assume("ring's Ed25519 / ECDSA / RSA PKCS#1 v1.5 primitives are correct (they stand for the conforming third-party signer and validator)");
    ctx.assume("RDATA values enter hickory through its own wire decoder (the validator's path); C02 owns decoder fidelity");

    // ------------------------------------------------------------------ prepare alphabets
    let mut prepared: Vec<Prepared> = vec![];
    for a in alphabets(thorough) {
        let mut hr = vec![];
        for v in &a.values {
            match tbs::hrdata(a.code, v) {
                Ok(r) => hr.push(r),
                Err(e) => {
                    ctx.machinery_failure(&format!("alphabet value of {} does not decode: {e} ({:?})", a.name, v));
                }
            }
        }
        if hr.len() != a.values.len() {
            continue;
        }
        let max_len = if !thorough { 3 } else if a.values.len() <= 4 { 5 } else { 4 };
        let seqs = sequences(a.values.len(), max_len);
        prepared.push(Prepared { alpha: a, hr, seqs });
    }
    let mut owners: Vec<Labels> = vec![
        nm("z"),
        nm("a.z"),
        nm("A.Z"),
        nm("*.z"),
        nm("x.y.z"),
        // odd octets: a dot inside a label, NUL, '[' (0x5b), '@', 0xc0/0xdf (must not be folded), upper case
        vec![b"A.b".to_vec(), vec![0x00, b'[', b'@', 0xc0, 0xdf, b'Q'], b"Z".to_vec()],
    ];
    if thorough {
        owners.push(vec![]);
        owners.push(vec![vec![b'M'; 63], b"*".to_vec(), b"z".to_vec()]);
    }
    let tuples = sig_tuples();
    let classes = [1u16, 3];

    // ------------------------------------------------------------------ TBS family
    let mut total_shapes = 0u64;
    for pr in &prepared {
        total_shapes += pr.seqs.len() as u64;
        // digits: seq, owner, rec-owner case, ttl pattern, class, tuple ; Labels enumerated inside
        let od = Odometer::new(&[pr.seqs.len() as u64, owners.len() as u64, 2, 2, classes.len() as u64, tuples.len() as u64]);
        ctx.par_run(od.space(), 64, |i, l| {
            let d = od.get(i);
            let seq = &pr.seqs[d[0] as usize];
            let owner = &owners[d[1] as usize];
            let rec_owner = if d[2] == 0 { owner.clone() } else { swap_case(owner) };
            let hr: Vec<RData> = seq.iter().map(|&k| pr.hr[k].clone()).collect();
            let mut p = tuples[d[5] as usize].clone();
            p.type_covered = pr.alpha.code;
            let mut c = Case {
                tname: pr.alpha.name.to_string(),
                owner: owner.clone(),
                rec_owner,
                class: classes[d[4] as usize],
                rdatas: seq.iter().map(|&k| pr.alpha.values[k].clone()).collect(),
                ttls: ttl_pattern(d[3], seq.len()),
                p,
                foreign: vec![],
                from_message: false,
                observe_only: !pr.alpha.judged,
            };
            for labels in 0..=(owner.len() as u8 + 1) {
                c.p.labels = labels;
                tbs::run_tbs_case(&c, &hr, l);
            }
            if i % 40009 == 11 {
                c.p.labels = owner.len() as u8;
                l.sample(c.to_json());
            }
        });
    }
    ctx.set("rrset_shapes", json!(total_shapes));
    ctx.set("types", json!(prepared.iter().map(|p| p.alpha.name).collect::<Vec<_>>()));
    ctx.set("wall_after_tbs_s", json!(ctx.elapsed_s()));

    // ------------------------------------------------------------------ filter family
    // records of another class / owner / type and the covering RRSIG at every position of the
    // iterator (thorough: every ordered pair of them): the signed data must not change
    {
        let flen = if thorough { 3 } else { 2 };
        let fowners: Vec<Labels> = vec![nm("a.z"), nm("*.z"), nm("z"), vec![]];
        let mut fcases = 0u64;
        for pr in &prepared {
            let seqs: Vec<&Vec<usize>> = pr.seqs.iter().filter(|s| s.len() <= flen).collect();
            let od = Odometer::new(&[seqs.len() as u64, fowners.len() as u64, classes.len() as u64]);
            fcases += od.space();
            ctx.par_run(od.space(), 16, |i, l| {
                let d = od.get(i);
                let seq = seqs[d[0] as usize];
                let owner = &fowners[d[1] as usize];
                let class = classes[d[2] as usize];
                let hr: Vec<RData> = seq.iter().map(|&k| pr.hr[k].clone()).collect();
                let mut p = tuples[0].clone();
                p.type_covered = pr.alpha.code;
                p.labels = if owner.first().map(|x| x.as_slice() == b"*").unwrap_or(false) { owner.len() as u8 - 1 } else { owner.len() as u8 };
                let unused = (0..pr.alpha.values.len()).find(|k| {
                    let cand = vref::canon::rdata_canonical(pr.alpha.code, &pr.alpha.values[*k]);
                    !seq.iter().any(|&j| vref::canon::rdata_canonical(pr.alpha.code, &pr.alpha.values[j]) == cand)
                });
                let kinds = foreign_kinds(owner, class, pr.alpha.code, unused.map(|k| &pr.alpha.values[k]), &p, thorough);
                let mut c = Case {
                    tname: pr.alpha.name.to_string(),
                    owner: owner.clone(),
                    rec_owner: swap_case(owner),
                    class,
                    rdatas: seq.iter().map(|&k| pr.alpha.values[k].clone()).collect(),
                    ttls: vec![300; seq.len()],
                    p,
                    foreign: vec![],
                from_message: false,
                observe_only: !pr.alpha.judged,
                };
                for f in &kinds {
                    for pos in 0..=seq.len() {
                        let mut f1 = f.clone();
                        f1.pos = pos;
                        c.foreign = vec![f1.clone()];
                        tbs::run_tbs_case(&c, &hr, l);
                        if thorough && (pos == 0 || pos == seq.len()) {
                            for g in &kinds {
                                for pos2 in [0, seq.len() + 1] {
                                    let mut g1 = g.clone();
                                    g1.pos = pos2;
                                    c.foreign = vec![f1.clone(), g1];
                                    tbs::run_tbs_case(&c, &hr, l);
                                }
                            }
                        }
                    }
                }
                if i % 5003 == 7 {
                    l.sample(c.to_json());
                }
            });
        }
        ctx.set("filter_base_cases", json!(fcases));
    }
    ctx.set("wall_after_filter_s", json!(ctx.elapsed_s()));

    // ------------------------------------------------------------------ message-input family
    // the records as a validator gets them: decoded by one decoder from a buffer in which the owner
    // is a pointer and the names inside RFC 1035 RDATA are compressed against everything before
    {
        let mlen = if thorough { 3 } else { 2 };
        let mowners: Vec<(Labels, u8)> = vec![(nm("a.z"), 2), (nm("A.Z"), 2), (nm("x.y.z"), 1), (nm("z"), 1)];
        let mut mcases = 0u64;
        for pr in &prepared {
            let seqs: Vec<&Vec<usize>> = pr.seqs.iter().filter(|s| s.len() <= mlen).collect();
            let od = Odometer::new(&[seqs.len() as u64, mowners.len() as u64, 2, 2]);
            mcases += od.space();
            ctx.par_run(od.space(), 32, |i, l| {
                let d = od.get(i);
                let seq = seqs[d[0] as usize];
                let (owner, labels) = &mowners[d[1] as usize];
                let mut p = tuples[d[3] as usize].clone();
                p.type_covered = pr.alpha.code;
                p.labels = *labels;
                let c = Case {
                    tname: pr.alpha.name.to_string(),
                    owner: owner.clone(),
                    rec_owner: swap_case(owner),
                    class: 1,
                    rdatas: seq.iter().map(|&k| pr.alpha.values[k].clone()).collect(),
                    ttls: ttl_pattern(d[2], seq.len()),
                    p,
                    foreign: vec![],
                    from_message: true,
                    observe_only: !pr.alpha.judged,
                };
                tbs::run_tbs_case_from_message(&c, l);
                if i % 7001 == 5 {
                    l.sample(c.to_json());
                }
            });
        }
        ctx.set("message_input_cases", json!(mcases));
    }

    // ------------------------------------------------------------------ field sweep family
    // every RRSIG field that feeds the signed data, one at a time over its whole range (8-bit
    // fields) or its integer-width boundaries; every class value of interest x every type
    {
        let mk = |pr: &Prepared, seq: &[usize], p: SigParams, class: u16| -> (Case, Vec<RData>) {
            let owner = nm("X.y.z");
            (
                Case {
                    tname: pr.alpha.name.to_string(),
                    owner: owner.clone(),
                    rec_owner: owner,
                    class,
                    rdatas: seq.iter().map(|&k| pr.alpha.values[k].clone()).collect(),
                    ttls: vec![300; seq.len()],
                    p,
                    foreign: vec![],
                    from_message: false,
                observe_only: !pr.alpha.judged,
                },
                seq.iter().map(|&k| pr.hr[k].clone()).collect(),
            )
        };
        let b32: [u32; 8] = [0, 1, 0x7fff_ffff, 0x8000_0000, 0x8000_0001, 0xffff_fffe, 0xffff_ffff, 0x0100_0000];
        let b16: [u16; 8] = [0, 1, 0xff, 0x100, 0x7fff, 0x8000, 0xfffe, 0xffff];
        let classes_all: [u16; 11] = [0, 1, 2, 3, 4, 254, 255, 256, 0xfedc, 0xfffe, 0xffff];
        let sweeps = ctx.with_local(|l| {
            let mut n = 0u64;
            for pr in prepared.iter().filter(|p| p.alpha.name == "A" || p.alpha.name == "NS") {
                let seq: Vec<usize> = vec![1, 0];
                let mut base = tuples[0].clone();
                base.type_covered = pr.alpha.code;
                base.labels = 3;
                for v in 0..=255u8 {
                    let (c, hr) = mk(pr, &seq, SigParams { algorithm: v, ..base.clone() }, 1);
                    tbs::run_tbs_case(&c, &hr, l);
                    let (c, hr) = mk(pr, &seq, SigParams { labels: v, ..base.clone() }, 1);
                    tbs::run_tbs_case(&c, &hr, l);
                    n += 2;
                }
                for v in b32 {
                    for f in 0..3 {
                        let p = match f {
                            0 => SigParams { original_ttl: v, ..base.clone() },
                            1 => SigParams { expiration: v, ..base.clone() },
                            _ => SigParams { inception: v, ..base.clone() },
                        };
                        let (c, hr) = mk(pr, &seq, p, 1);
                        tbs::run_tbs_case(&c, &hr, l);
                        n += 1;
                    }
                }
                for v in b16 {
                    let (c, hr) = mk(pr, &seq, SigParams { key_tag: v, ..base.clone() }, 1);
                    tbs::run_tbs_case(&c, &hr, l);
                    n += 1;
                }
            }
            for pr in &prepared {
                let mut base = tuples[0].clone();
                base.type_covered = pr.alpha.code;
                base.labels = 3;
                for class in classes_all {
                    let (c, hr) = mk(pr, &[0], base.clone(), class);
                    tbs::run_tbs_case(&c, &hr, l);
                    l.outcome("sweep:class-x-type");
                    n += 1;
                }
            }
            n
        });
        ctx.set("field_sweep_cases", json!(sweeps));
    }

    // ------------------------------------------------------------------ large family
    // signed data near and above 65,535 octets: many A records at a 255-octet owner name, one
    // opaque record with RDATA up to 65,535 octets
    {
        let counts: Vec<usize> = if thorough { vec![2, 100, 200, 242, 243, 244, 245, 300, 1000] } else { vec![2, 243, 244, 300] };
        let lens: Vec<usize> = if thorough { vec![1000, 60000, 65498, 65499, 65500, 65501, 65534, 65535] } else { vec![60000, 65499, 65500, 65535] };
        ctx.par_run((counts.len() + lens.len()) as u64, 1, |i, l| {
            let i = i as usize;
            let c = if i < counts.len() { large_case(&tuples[0], true, counts[i]) } else { large_case(&tuples[0], false, lens[i - counts.len()]) };
            let hr: Result<Vec<RData>, String> = c.rdatas.iter().map(|r| tbs::hrdata(c.p.type_covered, r)).collect();
            match hr {
                Ok(hr) => {
                    tbs::run_tbs_case(&c, &hr, l);
                }
                Err(_) => l.outcome("obs:large:rdata-does-not-decode"),
            }
        });
    }
    ctx.set("wall_after_sweeps_s", json!(ctx.elapsed_s()));

    // ------------------------------------------------------------------ permutation family
    // larger RRsets: the whole alphabet of the type plus exact duplicates, up to 7 (thorough 8)
    // records, in EVERY order, with equal and with descending record TTLs
    {
        let cap = if thorough { 8 } else { 7 };
        let mut pcases = 0u64;
        for pr in &prepared {
            let k = pr.alpha.values.len();
            let mut multiset: Vec<usize> = (0..k.min(cap - 1)).collect();
            let mut d = 0;
            while multiset.len() < cap.min(k + if thorough { 3 } else { 1 }) {
                multiset.push(d % k);
                d += 1;
            }
            let perms = vcore::enumerate::permutations(multiset.len());
            pcases += 2 * perms.len() as u64;
            ctx.par_run(perms.len() as u64, 64, |i, l| {
                let seq: Vec<usize> = perms[i as usize].iter().map(|&j| multiset[j]).collect();
                let hr: Vec<RData> = seq.iter().map(|&k| pr.hr[k].clone()).collect();
                let mut p = tuples[0].clone();
                p.type_covered = pr.alpha.code;
                p.labels = 2;
                let owner = nm("a.z");
                let mut c = Case {
                    tname: pr.alpha.name.to_string(),
                    owner: owner.clone(),
                    rec_owner: owner,
                    class: 1,
                    rdatas: seq.iter().map(|&k| pr.alpha.values[k].clone()).collect(),
                    ttls: ttl_pattern(0, seq.len()),
                    p,
                    foreign: vec![],
                from_message: false,
                observe_only: !pr.alpha.judged,
                };
                tbs::run_tbs_case(&c, &hr, l);
                c.ttls = ttl_pattern(1, seq.len());
                tbs::run_tbs_case(&c, &hr, l);
                l.outcome("perm:case-pair");
                if i % 30011 == 3 {
                    l.sample(c.to_json());
                }
            });
        }
        ctx.set("permutation_cases", json!(pcases));
    }
    ctx.set("wall_after_perm_s", json!(ctx.elapsed_s()));

    // ------------------------------------------------------------------ key tag family
    {
        let flags: [u16; 5] = [0, 256, 257, 0x0180, 0xffff];
        let algs: [u8; 9] = [5, 7, 8, 10, 13, 14, 15, 16, 253];
        let lens: Vec<usize> = vec![0, 1, 2, 3, 4, 5, 31, 32, 33, 64, 65, 96, 97, 131, 132, 255, 256, 257, 259, 260, 516, 517, 1023, 4096, 4097];
        let od = Odometer::new(&[flags.len() as u64, algs.len() as u64, lens.len() as u64, 6]);
        ctx.set("keytag_cases", json!(od.space()));
        ctx.par_run(od.space(), 32, |i, l| {
            let d = od.get(i);
            crypto::run_keytag_case(flags[d[0] as usize], algs[d[1] as usize], lens[d[2] as usize], d[3] as u8, l);
        });
    }

    // ------------------------------------------------------------------ crypto family
    // every RRset shape x every key; one parameter tuple; owner a.z. (plus the wildcard-reduced
    // x.y.z. / Labels=1 for the reference-signed direction on the shortest shapes)
    {
        let crypto_len = if thorough { 3 } else { 2 };
        for pr in &prepared {
            let seqs: Vec<&Vec<usize>> = pr.seqs.iter().filter(|s| s.len() <= crypto_len).collect();
            let od = Odometer::new(&[seqs.len() as u64, keys.len() as u64]);
            ctx.par_run(od.space(), 4, |i, l| {
                let d = od.get(i);
                let seq = seqs[d[0] as usize];
                let key = &keys[d[1] as usize];
                let hr: Vec<RData> = seq.iter().map(|&k| pr.hr[k].clone()).collect();
                let mut p = tuples[0].clone();
                p.type_covered = pr.alpha.code;
                p.labels = 2;
                let owner = nm("a.z");
                let c = Case {
                    tname: pr.alpha.name.to_string(),
                    owner: owner.clone(),
                    rec_owner: owner,
                    class: 1,
                    rdatas: seq.iter().map(|&k| pr.alpha.values[k].clone()).collect(),
                    ttls: vec![3600; seq.len()],
                    p,
                    foreign: vec![],
                from_message: false,
                observe_only: !pr.alpha.judged,
                };
                crypto::run_crypto_case(&c, &hr, key, l);
                if seq.len() == 1 {
                    // wildcard-expanded answer: owner x.y.z., Labels = 1 (signed name *.z.), mixed-case record owner
                    let mut w = c.clone();
                    w.owner = nm("x.y.z");
                    w.rec_owner = nm("X.y.Z");
                    w.p.labels = 1;
                    crypto::run_crypto_case(&w, &hr, key, l);
                    // wildcard owner (Labels must not count the `*`) and an owner with odd octets
                    let mut w2 = c.clone();
                    w2.owner = nm("*.z");
                    w2.rec_owner = nm("*.Z");
                    w2.p.labels = 1;
                    crypto::run_crypto_case(&w2, &hr, key, l);
                    let mut w3 = c.clone();
                    w3.owner = vec![b"A.b".to_vec(), vec![0x00, b'[', 0xc0, b'Q'], b"z".to_vec()];
                    w3.rec_owner = w3.owner.clone();
                    w3.p.labels = 3;
                    crypto::run_crypto_case(&w3, &hr, key, l);
                    // the verifier's filter: foreign records before and after the genuine one
                    let unused = (0..pr.alpha.values.len()).find(|k| {
                        vref::canon::rdata_canonical(pr.alpha.code, &pr.alpha.values[*k]) != vref::canon::rdata_canonical(pr.alpha.code, &pr.alpha.values[seq[0]])
                    });
                    for f in foreign_kinds(&c.owner, 1, pr.alpha.code, unused.map(|k| &pr.alpha.values[k]), &c.p, false) {
                        for pos in [0usize, 1] {
                            let mut x = c.clone();
                            x.foreign = vec![Foreign { pos, ..f.clone() }];
                            crypto::run_crypto_case(&x, &hr, key, l);
                        }
                    }
                }
                if i % 1009 == 5 {
                    let mut j = c.to_json();
                    j["family"] = json!("crypto");
                    j["key"] = json!(key.name);
                    l.sample(j);
                }
            });
        }
    }

    // ------------------------------------------------------------------ signer configuration family
    {
        let incs: [u32; 4] = [0, 1_700_000_000, 0x7fff_ffff, 0xffff_fff0];
        let durs: [u32; 5] = [0, 1, 86_400, 0x7fff_ffff, 0xffff_ffff];
        let signers: Vec<Labels> = vec![nm("z"), nm("Z"), vec![], vec![b"S.x".to_vec(), vec![0x00, 0xc0], b"Z".to_vec()]];
        let ttls: [(u32, u32); 4] = [(3600, 3600), (7200, 3600), (0, 300), (0xffff_ffff, 1)];
        let kowners: Vec<Labels> = vec![nm("a.z"), nm("*.Z"), vec![]];
        let od = Odometer::new(&[keys.len() as u64, incs.len() as u64, durs.len() as u64, signers.len() as u64, ttls.len() as u64, kowners.len() as u64]);
        // RSA signing is ~1 ms: the full product for the EC/Ed keys, a diagonal for the two RSA keys
        ctx.set("signer_knob_cases", json!(od.space()));
        ctx.par_run(od.space(), 8, |i, l| {
            let d = od.get(i);
            let key = &keys[d[0] as usize];
            if key.code <= 10 && !thorough && (d[1] + d[2] + d[3] + d[4] + d[5]) % 7 != 0 {
                return;
            }
            let (st, rt) = ttls[d[4] as usize];
            crypto::run_signer_knob_case(key, incs[d[1] as usize], durs[d[2] as usize], &signers[d[3] as usize], st, rt, &kowners[d[5] as usize], l);
        });
    }

    // ------------------------------------------------------------------ vacuity guards
    let mut need: Vec<String> = vec![
        "tbs:equal".into(),
        "tbs:equal:wildcard-reduced-owner".into(),
        "tbs:labels-exceed-owner:rejected".into(),
        "tbs:equal:foreign-records-ignored".into(),
        "perm:case-pair".into(),
        "tbs:equal:records-decoded-from-compressed-message".into(),
        "sweep:class-x-type".into(),
        "tbs:equal:signed-data-above-60000-octets".into(),
        "tbs:equal:signed-data-above-65535-octets".into(),
        "keytag:equal".into(),
        "keytag:equal:odd-length-rdata".into(),
    ];
    for k in &keys {
        need.push(format!("refsigned:verified:{}", k.name));
        need.push(format!("selfsign:verified:{}", k.name));
        need.push(format!("selfsign:third-party-verifies:{}", k.name));
        need.push(format!("signer-knobs:third-party-verifies-from-wire:{}", k.name));
    }
    for class in need {
        if ctx.outcome_count(&class) == 0 {
            ctx.machinery_failure(&format!("vacuous run: outcome class {class} was never exercised"));
        }
    }
    ctx.finish(true);
}
