//! One TBS case: build the RRset and the RRSIG parameters for the real `TBS::from_input`, build
//! the reference signed data with `vref::canon`, compare bytes, and explain any deviation with a
//! key that names the deviating clause (prefix field / owner / ttl / RDATA of type T / missing /
//! duplicates kept / order + the features of the mis-ordered pair).

use hickory_proto::dnssec::rdata::SigInput;
use hickory_proto::dnssec::{Algorithm, TBS};
use hickory_proto::rr::{DNSClass, Name, RData, Record, RecordType, SerialNumber};
use hickory_proto::serialize::binary::BinDecoder;
use serde_json::{json, Value};
use vcore::{catch, fnv64, hex, Local};
use vref::canon::{self, CanonErr, Field, Labels, Rdata, SigParams};

#[derive(Clone, Debug)]
pub struct Case {
    pub tname: String,
    /// name argument of TBS::from_input (the RRset's owner)
    pub owner: Labels,
    /// owner name carried by the records (may differ in case)
    pub rec_owner: Labels,
    pub class: u16,
    pub rdatas: Vec<Rdata>,
    pub ttls: Vec<u32>,
    pub p: SigParams,
    /// records that do NOT belong to the RRset (other class / owner / type), mixed into the
    /// iterator handed to TBS::from_input / verify_rrsig; the signed data must ignore them
    pub foreign: Vec<Foreign>,
    /// the records are decoded from a message-like buffer with compressed names (validator's path)
    pub from_message: bool,
    /// deviations of this case are observations (type not yet triaged with the lead)
    pub observe_only: bool,
}

/// A record outside the RRset. `pos` = index in the final record list at which it is inserted.
#[derive(Clone, Debug)]
pub struct Foreign {
    pub pos: usize,
    pub kind: String,
    pub owner: Labels,
    pub class: u16,
    pub rtype: u16,
    pub rdata: Rdata,
    pub ttl: u32,
}

fn rdata_json(r: &Rdata) -> Value {
    Value::Array(
        r.iter()
            .map(|f| match f {
                Field::Bytes(b) => json!({"b": hex::enc(b)}),
                Field::Name(n) => json!({"n": labels_json(n), "text": text(n)}),
            })
            .collect(),
    )
}
fn rdata_from(r: &Value) -> Rdata {
    r.as_array()
        .map(|fs| {
            fs.iter()
                .map(|f| {
                    if f.get("b").is_some() {
                        Field::Bytes(hex::dec(f["b"].as_str().unwrap_or("")).unwrap_or_default())
                    } else {
                        Field::Name(labels_from(&f["n"]))
                    }
                })
                .collect()
        })
        .unwrap_or_default()
}

fn labels_json(l: &Labels) -> Value {
    json!(l.iter().map(|x| hex::enc(x)).collect::<Vec<_>>())
}
fn labels_from(v: &Value) -> Labels {
    v.as_array().map(|a| a.iter().map(|x| hex::dec(x.as_str().unwrap_or("")).unwrap_or_default()).collect()).unwrap_or_default()
}
pub fn text(l: &Labels) -> String {
    vref::wire::name_to_string(l)
}

impl Case {
    pub fn to_json(&self) -> Value {
        let rd: Vec<Value> = self
            .rdatas
            .iter()
            .map(|r| {
                Value::Array(
                    r.iter()
                        .map(|f| match f {
                            Field::Bytes(b) => json!({"b": hex::enc(b)}),
                            Field::Name(n) => json!({"n": labels_json(n), "text": text(n)}),
                        })
                        .collect(),
                )
            })
            .collect();
        json!({
            "family": "tbs", "from_message": self.from_message, "type": self.tname, "type_code": self.p.type_covered,
            "owner": labels_json(&self.owner), "owner_text": text(&self.owner),
            "rec_owner": labels_json(&self.rec_owner), "class": self.class,
            "rdatas": rd, "ttls": self.ttls,
            "foreign": self.foreign.iter().map(|f| json!({"pos": f.pos, "kind": f.kind, "owner": labels_json(&f.owner), "owner_text": text(&f.owner),
                "class": f.class, "type_code": f.rtype, "rdata": rdata_json(&f.rdata), "ttl": f.ttl})).collect::<Vec<_>>(),
            "sig": {"algorithm": self.p.algorithm, "labels": self.p.labels, "original_ttl": self.p.original_ttl,
                "expiration": self.p.expiration, "inception": self.p.inception, "key_tag": self.p.key_tag,
                "signer": labels_json(&self.p.signer), "signer_text": text(&self.p.signer)},
        })
    }
    pub fn from_json(v: &Value) -> Case {
        let rdatas = v["rdatas"]
            .as_array()
            .map(|a| {
                a.iter()
                    .map(|r| {
                        r.as_array()
                            .map(|fs| {
                                fs.iter()
                                    .map(|f| {
                                        if f.get("b").is_some() {
                                            Field::Bytes(hex::dec(f["b"].as_str().unwrap_or("")).unwrap_or_default())
                                        } else {
                                            Field::Name(labels_from(&f["n"]))
                                        }
                                    })
                                    .collect()
                            })
                            .unwrap_or_default()
                    })
                    .collect()
            })
            .unwrap_or_default();
        let s = &v["sig"];
        Case {
            tname: v["type"].as_str().unwrap_or("?").to_string(),
            owner: labels_from(&v["owner"]),
            rec_owner: labels_from(&v["rec_owner"]),
            class: v["class"].as_u64().unwrap_or(1) as u16,
            rdatas,
            ttls: v["ttls"].as_array().map(|a| a.iter().map(|x| x.as_u64().unwrap_or(0) as u32).collect()).unwrap_or_default(),
            from_message: v["from_message"].as_bool().unwrap_or(false),
            observe_only: false,
            foreign: v["foreign"]
                .as_array()
                .map(|a| {
                    a.iter()
                        .map(|f| Foreign {
                            pos: f["pos"].as_u64().unwrap_or(0) as usize,
                            kind: f["kind"].as_str().unwrap_or("?").to_string(),
                            owner: labels_from(&f["owner"]),
                            class: f["class"].as_u64().unwrap_or(1) as u16,
                            rtype: f["type_code"].as_u64().unwrap_or(1) as u16,
                            rdata: rdata_from(&f["rdata"]),
                            ttl: f["ttl"].as_u64().unwrap_or(0) as u32,
                        })
                        .collect()
                })
                .unwrap_or_default(),
            p: SigParams {
                type_covered: v["type_code"].as_u64().unwrap_or(1) as u16,
                algorithm: s["algorithm"].as_u64().unwrap_or(15) as u8,
                labels: s["labels"].as_u64().unwrap_or(0) as u8,
                original_ttl: s["original_ttl"].as_u64().unwrap_or(0) as u32,
                expiration: s["expiration"].as_u64().unwrap_or(0) as u32,
                inception: s["inception"].as_u64().unwrap_or(0) as u32,
                key_tag: s["key_tag"].as_u64().unwrap_or(0) as u16,
                signer: labels_from(&s["signer"]),
            },
        }
    }
}

pub fn hname(l: &Labels) -> Name {
    Name::from_labels(l.iter().map(|x| x.as_slice())).expect("alphabet names are valid")
}

/// Decode the plain wire RDATA with the real decoder.
pub fn hrdata(rtype: u16, rd: &Rdata) -> Result<RData, String> {
    let plain = canon::rdata_plain(rd);
    RData::read(BinDecoder::new(&plain), RecordType::from(rtype)).map_err(|e| e.to_string())
}

pub fn hrecords(c: &Case, rdatas: &[RData]) -> Vec<Record> {
    let name = hname(&c.rec_owner);
    let mut v: Vec<Record> = rdatas
        .iter()
        .zip(c.ttls.iter())
        .map(|(rd, ttl)| {
            let mut r = Record::from_rdata(name.clone(), *ttl, rd.clone());
            r.dns_class = DNSClass::from(c.class);
            r
        })
        .collect();
    let mut fs: Vec<&Foreign> = c.foreign.iter().collect();
    fs.sort_by_key(|f| f.pos);
    for f in fs {
        if let Ok(rd) = hrdata(f.rtype, &f.rdata) {
            let mut r = Record::from_rdata(hname(&f.owner), f.ttl, rd);
            r.dns_class = DNSClass::from(f.class);
            let p = f.pos.min(v.len());
            v.insert(p, r);
        }
    }
    v
}

pub fn hinput(p: &SigParams) -> SigInput {
    SigInput {
        type_covered: RecordType::from(p.type_covered),
        algorithm: Algorithm::from_u8(p.algorithm),
        num_labels: p.labels,
        original_ttl: p.original_ttl,
        sig_expiration: SerialNumber::new(p.expiration),
        sig_inception: SerialNumber::new(p.inception),
        key_tag: p.key_tag,
        signer_name: hname(&p.signer),
    }
}

#[derive(Debug, Clone, PartialEq, Eq)]
pub enum Verdict {
    /// hickory's bytes equal the reference signed data
    Equal(Vec<u8>),
    /// hickory's bytes differ (violations recorded); carries (reference, hickory)
    Deviates(Vec<u8>, Vec<u8>),
    /// no signed data exists for this case (error expected / not judged / hickory error)
    NoData,
}

fn has_canonical_duplicates(rtype: u16, rds: &[Rdata]) -> bool {
    canon::canonical_rdatas(rtype, rds).len() < rds.len()
}

fn compressible(rd: &Rdata) -> bool {
    // a later embedded name shares its last label(s) with an earlier one
    let names: Vec<&Labels> = rd.iter().filter_map(|f| if let Field::Name(n) = f { Some(n) } else { None }).collect();
    for i in 1..names.len() {
        for j in 0..i {
            if let (Some(a), Some(b)) = (names[i].last(), names[j].last()) {
                if a == b {
                    return true;
                }
            }
        }
    }
    false
}

/// Explain why `got` differs from `want`; returns (key, what) pairs.
pub fn classify(c: &Case, want: &[u8], got: &[u8]) -> Vec<(String, String)> {
    let rtype = c.p.type_covered;
    let prefix = canon::sig_rdata_prefix(&c.p);
    let plen = prefix.len();
    if got.len() < plen || got[..plen] != prefix[..] {
        let fields: [(&str, usize, usize); 7] =
            [("type-covered", 0, 2), ("algorithm", 2, 3), ("labels", 3, 4), ("original-ttl", 4, 8), ("expiration", 8, 12), ("inception", 12, 16), ("key-tag", 16, 18)];
        for (name, a, b) in fields {
            if got.get(a..b) != Some(&prefix[a..b]) {
                return vec![(format!("sig-rdata:{name}"), format!("RRSIG RDATA field {name} differs"))];
            }
        }
        let g = got.get(18..plen).unwrap_or(&[]);
        let kind = if g.eq_ignore_ascii_case(&prefix[18..]) { "signer-not-lowercased" } else { "signer-name" };
        return vec![(format!("sig-rdata:{kind}"), "signer name in the signed RRSIG RDATA is not the canonical form".into())];
    }
    let Some(ch) = canon::parse_chunks(&got[plen..]) else {
        return vec![("rr-unparseable".into(), "bytes after the RRSIG RDATA are not a sequence of uncompressed RRs".into())];
    };
    let cr = canon::parse_chunks(&want[plen..]).expect("reference output parses");
    let want_name = canon::signed_owner(&c.owner, c.p.labels).expect("judged cases have a name");
    let mut keys: Vec<(String, String)> = vec![];
    fn add(keys: &mut Vec<(String, String)>, k: String, w: String) {
        if !keys.iter().any(|(x, _)| *x == k) {
            keys.push((k, w));
        }
    }
    let owner_labels = c.owner.len();
    let rel = if (c.p.labels as usize) < owner_labels { "labels-lt-owner" } else { "labels-eq-owner" };
    for x in &ch {
        if x.name != want_name {
            let kind = if x.name.len() == want_name.len() && x.name.iter().zip(want_name.iter()).all(|(a, b)| a.eq_ignore_ascii_case(b)) {
                "not-lowercased".to_string()
            } else {
                format!("wrong-name:{rel}")
            };
            add(&mut keys, format!("rr-owner:{kind}"), format!("signed owner is {} instead of {}", text(&x.name), text(&want_name)));
        }
        if x.rtype != rtype {
            add(&mut keys, "rr-type".into(), format!("type {} instead of {}", x.rtype, rtype));
        }
        if x.class != c.class {
            add(&mut keys, "rr-class".into(), format!("class {} instead of {}", x.class, c.class));
        }
        if x.ttl != c.p.original_ttl {
            let kind = if c.ttls.contains(&x.ttl) { "record-ttl" } else { "other" };
            add(&mut keys, format!("rr-ttl:{kind}"), format!("TTL {} instead of the original TTL {}", x.ttl, c.p.original_ttl));
        }
    }
    let want_rd: Vec<&Vec<u8>> = cr.iter().map(|x| &x.rdata).collect();
    let foreign_rd: Vec<(Vec<u8>, &str)> = c.foreign.iter().map(|f| (canon::rdata_canonical(f.rtype, &f.rdata), f.kind.as_str())).collect();
    for x in &ch {
        if !want_rd.contains(&&x.rdata) {
            if let Some((_, kind)) = foreign_rd.iter().find(|(rd, _)| *rd == x.rdata) {
                add(&mut keys, format!("tbs-filter:foreign-{kind}-record-included"), format!("a record outside the RRset ({kind}) is part of the signed data"));
                continue;
            }
            let kind = match want_rd.iter().find(|w| w.eq_ignore_ascii_case(&x.rdata)) {
                Some(w) => {
                    if w.iter().zip(x.rdata.iter()).any(|(a, b)| a != b && b.is_ascii_uppercase()) {
                        "name-not-lowercased"
                    } else {
                        "lowercased-but-case-must-be-kept"
                    }
                }
                None => {
                    if c.from_message
                        && x.rdata.iter().any(|b| b & 0xc0 == 0xc0)
                        && !c.rdatas.iter().any(|r| canon::rdata_plain(r).eq_ignore_ascii_case(&x.rdata))
                    {
                        // not even the uncompressed RDATA of an input: the compressed octets of the message
                        "compression-pointer-kept"
                    } else if want_rd.iter().any(|w| w.len() != x.rdata.len()) && !want_rd.iter().any(|w| w.len() == x.rdata.len()) {
                        "length-differs"
                    } else {
                        "bytes-differ"
                    }
                }
            };
            add(&mut keys, format!("rr-rdata:{}:{kind}", c.tname), format!("RDATA {} is not the canonical RDATA of any RR of the set", hex::enc(&x.rdata)));
        }
    }
    let unmatched = ch.iter().filter(|x| !want_rd.contains(&&x.rdata)).count();
    let mut missing = 0usize;
    for w in &want_rd {
        if !ch.iter().any(|x| &&x.rdata == w) {
            missing += 1;
            let lost_by_case = ch.iter().any(|x| x.rdata.eq_ignore_ascii_case(w));
            // a canonical RDATA that is missing because hickory emitted a deviating form of the same
            // RR is explained by the rr-rdata key above
            if !lost_by_case && missing > unmatched {
                add(&mut keys, "rr-missing".into(), format!("canonical RDATA {} is missing from the signed data", hex::enc(w)));
            }
        }
    }
    if !keys.is_empty() {
        return keys;
    }
    // same set of RRs: duplicates and order
    let mut dedup: Vec<&Vec<u8>> = vec![];
    for x in &ch {
        if !dedup.contains(&&x.rdata) {
            dedup.push(&x.rdata);
        }
    }
    if dedup.len() < ch.len() {
        add(&mut keys, "tbs-duplicates-kept".into(), format!("{} RRs emitted for {} distinct RRs", ch.len(), dedup.len()));
    }
    if dedup != want_rd {
        // first adjacent inversion
        let mut feat: Vec<&str> = vec![];
        for w in dedup.windows(2) {
            if w[0] > w[1] {
                let idx_of = |rd: &Vec<u8>| -> Vec<usize> {
                    (0..c.rdatas.len()).filter(|&i| &canon::rdata_canonical(rtype, &c.rdatas[i]) == rd).collect()
                };
                let (ix, iy) = (idx_of(w[0]), idx_of(w[1]));
                if ix.iter().any(|&i| iy.iter().any(|&j| c.ttls[i] != c.ttls[j])) {
                    feat.push("ttl");
                }
                if ix.iter().chain(iy.iter()).any(|&i| canon::rdata_plain(&c.rdatas[i]) != canon::rdata_canonical(rtype, &c.rdatas[i])) {
                    feat.push("case");
                }
                if ix.iter().chain(iy.iter()).any(|&i| compressible(&c.rdatas[i])) {
                    feat.push("compressible");
                }
                break;
            }
        }
        let f = if feat.is_empty() { "plain".to_string() } else { feat.join("+") };
        add(&mut keys, 
            format!("tbs-order:{f}"),
            "RRs are not in RFC 4034 6.3 canonical order (ascending canonical RDATA)".into(),
        );
    }
    if keys.is_empty() {
        keys.push(("tbs-differs:unexplained".into(), "signed data differs from the reference".into()));
    }
    keys
}

/// Run one case through the real TBS construction and judge it.
pub fn run_tbs_case(c: &Case, hr: &[RData], l: &mut Local) -> Verdict {
    let recs = hrecords(c, hr);
    run_tbs_with_records(c, &recs, l)
}

/// RDATA types whose embedded names may be compressed in a message (RFC 3597 4: only the types of
/// RFC 1035).
pub fn rdata_names_compressible(rtype: u16) -> bool {
    matches!(rtype, 2 | 3 | 4 | 5 | 6 | 7 | 8 | 9 | 12 | 14 | 15)
}

/// The records of the case as a validator receives them: a message-like buffer (12 octet header,
/// the owner name once, every record's owner as a pointer to it, names inside the RDATA of RFC 1035
/// types compressed maximally against everything before them), decoded with ONE real decoder.
pub fn records_from_message(c: &Case) -> Result<Vec<Record>, String> {
    use hickory_proto::serialize::binary::BinDecodable;
    let rtype = c.p.type_covered;
    let mut buf = vec![0u8; 12];
    let mut table: Vec<(Labels, usize)> = vec![];
    fn put_name(buf: &mut Vec<u8>, table: &mut Vec<(Labels, usize)>, n: &Labels, compress: bool) {
        let mut fresh = vec![];
        for i in 0..n.len() {
            let suffix: Labels = n[i..].to_vec();
            if compress {
                if let Some((_, pos)) = table.iter().find(|(s, _)| *s == suffix) {
                    buf.extend_from_slice(&[0xc0 | (*pos >> 8) as u8, *pos as u8]);
                    table.extend(fresh);
                    return;
                }
            }
            if buf.len() < 0x4000 {
                fresh.push((suffix, buf.len()));
            }
            buf.push(n[i].len() as u8);
            buf.extend_from_slice(&n[i]);
        }
        buf.push(0);
        table.extend(fresh);
    }
    // "question": the owner name, type, class
    put_name(&mut buf, &mut table, &c.rec_owner, false);
    buf.extend_from_slice(&rtype.to_be_bytes());
    buf.extend_from_slice(&c.class.to_be_bytes());
    let first = buf.len();
    for (rd, ttl) in c.rdatas.iter().zip(c.ttls.iter()) {
        put_name(&mut buf, &mut table, &c.rec_owner, true);
        buf.extend_from_slice(&rtype.to_be_bytes());
        buf.extend_from_slice(&c.class.to_be_bytes());
        buf.extend_from_slice(&ttl.to_be_bytes());
        let lenpos = buf.len();
        buf.extend_from_slice(&[0, 0]);
        for f in rd {
            match f {
                Field::Bytes(b) => buf.extend_from_slice(b),
                Field::Name(n) => put_name(&mut buf, &mut table, n, rdata_names_compressible(rtype)),
            }
        }
        let rdlen = buf.len() - lenpos - 2;
        if rdlen > 65535 || buf.len() > 65535 {
            return Err("message too large".into());
        }
        buf[lenpos..lenpos + 2].copy_from_slice(&(rdlen as u16).to_be_bytes());
    }
    let mut dec = BinDecoder::new(&buf).clone(first as u16);
    let mut out = vec![];
    for _ in 0..c.rdatas.len() {
        out.push(Record::read(&mut dec).map_err(|e| e.to_string())?);
    }
    Ok(out)
}

/// As `run_tbs_case`, with the records decoded from a compressed message.
pub fn run_tbs_case_from_message(c: &Case, l: &mut Local) -> Verdict {
    match catch(|| records_from_message(c)) {
        Err(p) => {
            l.violation(&format!("panic:{}", vcore::short_loc(&p.loc)), &p.msg, || c.to_json());
            Verdict::NoData
        }
        Ok(Err(e)) => {
            // a valid message built by the reference: a validator that cannot read it cannot verify
            // the (conforming) signature either
            if c.observe_only {
                l.outcome(&format!("obs:untriaged-type:message-input:records-do-not-decode:{}", c.tname));
            } else {
                l.violation(&format!("message-input:records-do-not-decode:{}", c.tname), &e, || c.to_json());
            }
            Verdict::NoData
        }
        Ok(Ok(recs)) => {
            let v = run_tbs_with_records(c, &recs, l);
            if let Verdict::Equal(_) = v {
                l.outcome("tbs:equal:records-decoded-from-compressed-message");
            }
            v
        }
    }
}

pub fn run_tbs_with_records(c: &Case, recs: &[Record], l: &mut Local) -> Verdict {
    l.eval();
    let rtype = c.p.type_covered;
    let want = canon::signed_data(&c.owner, c.class, &c.p, &c.rdatas);
    let name = hname(&c.owner);
    let input = hinput(&c.p);
    let got = catch(|| TBS::from_input(&name, DNSClass::from(c.class), &input, recs.iter()).map(|t| t.as_ref().to_vec()).map_err(|e| e.to_string()));
    let got = match got {
        Err(p) => {
            l.violation(&format!("panic:{}", vcore::short_loc(&p.loc)), &p.msg, || c.to_json());
            return Verdict::NoData;
        }
        Ok(g) => g,
    };
    match (want, got) {
        (Err(CanonErr::LabelsExceedOwner), Err(_)) => {
            l.outcome("tbs:labels-exceed-owner:rejected");
            Verdict::NoData
        }
        (Err(CanonErr::LabelsExceedOwner), Ok(_)) => {
            l.violation("labels-exceed-owner-accepted", "RRSIG Labels > owner labels must not yield signed data (RFC 4035 5.3.2)", || c.to_json());
            Verdict::NoData
        }
        (Err(CanonErr::WildcardCountAmbiguous), g) => {
            l.outcome(if g.is_ok() { "obs:wildcard-owner-labels-count-star:accepted" } else { "obs:wildcard-owner-labels-count-star:rejected" });
            Verdict::NoData
        }
        (Ok(w), Err(e)) if w.len() > 65535 => {
            // fixed in 263b51f: the signed data used to be assembled in a message encoder (65,535 octets)
            if c.observe_only {
                l.outcome("obs:untriaged-type:tbs-error:signed-data-above-65535-octets");
            } else {
                l.violation("tbs-error:signed-data-above-65535-octets", &format!("reference signed data has {} octets, hickory fails: {e}", w.len()), || {
                    json!({"family": "large", "type": c.tname, "records": c.rdatas.len(), "owner_wire_len": vref::name::wire_len(&c.owner),
                        "first_rdata_len": canon::rdata_plain(&c.rdatas[0]).len(), "reference_len": w.len()})
                });
            }
            Verdict::NoData
        }
        (Ok(_), Err(e)) => {
            if has_canonical_duplicates(rtype, &c.rdatas) {
                // RFC 4034 6.3: duplicates MUST be treated as a protocol error *or* be removed
                l.outcome("tbs:duplicates-rejected");
            } else {
                l.violation("tbs-unexpected-error", &e, || c.to_json());
            }
            Verdict::NoData
        }
        (Ok(w), Ok(g)) => {
            if w == g {
                let reordered = c.rdatas.len() >= 2 && {
                    let canon_in: Vec<Vec<u8>> = c.rdatas.iter().map(|r| canon::rdata_canonical(rtype, r)).collect();
                    canon_in != canon::canonical_rdatas(rtype, &c.rdatas)
                };
                let names = c.rdatas.iter().any(|r| r.iter().any(|f| matches!(f, Field::Name(_))));
                if reordered {
                    l.outcome("tbs:equal:input-not-in-canonical-order-or-with-duplicates");
                } else {
                    l.outcome("tbs:equal");
                }
                if (c.p.labels as usize) < c.owner.len() {
                    l.outcome("tbs:equal:wildcard-reduced-owner");
                }
                if w.len() > 60000 {
                    l.outcome("tbs:equal:signed-data-above-60000-octets");
                }
                if w.len() > 65535 {
                    l.outcome("tbs:equal:signed-data-above-65535-octets");
                }
                if !c.foreign.is_empty() {
                    l.outcome("tbs:equal:foreign-records-ignored");
                }
                if reordered || (names && c.rdatas.len() >= 2) || !c.foreign.is_empty() {
                    l.nontrivial(fnv64(&w) ^ fnv64(format!("{:?}{:?}{:?}{:?}", c.ttls, c.rec_owner, c.rdatas, c.foreign).as_bytes()));
                }
                Verdict::Equal(w)
            } else {
                for (k, what) in classify(c, &w, &g) {
                    if c.observe_only {
                        l.outcome(&format!("obs:untriaged-type:{k}{}", if c.from_message { ":from-compressed-message" } else { "" }));
                        continue;
                    }
                    l.violation(&k, &what, || {
                        let mut j = c.to_json();
                        j["reference_hex"] = json!(hex::enc(&w));
                        j["hickory_hex"] = json!(hex::enc(&g));
                        j
                    });
                }
                l.nontrivial(fnv64(&w) ^ fnv64(&g) ^ fnv64(format!("{:?}{:?}", c.ttls, c.rdatas).as_bytes()));
                Verdict::Deviates(w, g)
            }
        }
    }
}
