//! Per-type RDATA alphabets. Every value is written down as the reference field list (opaque
//! octets / embedded names) from the type's RFC wire layout; the hickory `RData` is obtained by
//! decoding the plain (uncompressed, case-preserving) wire form with the real decoder, exactly
//! what a validator does with a received RRset.

use vref::canon::{type_bitmap, Field, Labels, Rdata};

pub fn nm(s: &str) -> Labels {
    s.split('.').filter(|x| !x.is_empty()).map(|x| x.as_bytes().to_vec()).collect()
}

fn b(x: &[u8]) -> Field {
    Field::Bytes(x.to_vec())
}
fn n(s: &str) -> Field {
    Field::Name(nm(s))
}
fn u16b(x: u16) -> Field {
    Field::Bytes(x.to_be_bytes().to_vec())
}
fn cs(s: &[u8]) -> Vec<u8> {
    let mut v = vec![s.len() as u8];
    v.extend_from_slice(s);
    v
}

pub struct TypeAlpha {
    pub name: &'static str,
    pub code: u16,
    pub values: Vec<Rdata>,
    /// false: deviations are recorded as observations only (reported to the lead, not yet triaged)
    pub judged: bool,
}

/// Embedded-name alphabet: mixed case, a case-only pair (canonical duplicates for lower-casing
/// types), prefix-like names, more labels.
const NAMES: [&str; 5] = ["a.z", "B.z", "b.z", "C.a.z", "ab.z"];

pub fn alphabets(thorough: bool) -> Vec<TypeAlpha> {
    let mut v = vec![];
    v.push(TypeAlpha { judged: true,
        name: "A",
        code: 1,
        values: vec![vec![b(&[10, 0, 0, 1])], vec![b(&[10, 0, 0, 2])], vec![b(&[9, 255, 255, 255])], vec![b(&[10, 0, 0, 0])]],
    });
    v.push(TypeAlpha { judged: true,
        name: "AAAA",
        code: 28,
        values: vec![
            vec![b(&[0, 0, 0, 0, 0, 0, 0, 0, 0, 0, 0, 0, 0, 0, 0, 1])],
            vec![b(&[0, 0, 0, 0, 0, 0, 0, 0, 0, 0, 0, 0, 0, 0, 1, 0])],
            vec![b(&[0x20, 1, 0x0d, 0xb8, 0, 0, 0, 0, 0, 0, 0, 0, 0, 0, 0, 1])],
            vec![b(&[0xff; 16])],
        ],
    });
    for (name, code) in [("NS", 2u16), ("CNAME", 5), ("PTR", 12)] {
        v.push(TypeAlpha { judged: true, name, code, values: NAMES.iter().map(|s| vec![n(s)]).collect() });
    }
    v.push(TypeAlpha { judged: true,
        name: "MX",
        code: 15,
        values: vec![
            vec![u16b(10), n("Mail.z")],
            vec![u16b(10), n("mail.z")],
            vec![u16b(5), n("b.z")],
            vec![u16b(10), n("a.z")],
            vec![u16b(10), n("MAIL.y")],
        ],
    });
    let soa = |m: &str, r: &str, serial: u32| -> Rdata {
        let mut tail = vec![];
        for x in [serial, 7200, 3600, 1209600, 300] {
            tail.extend_from_slice(&x.to_be_bytes());
        }
        vec![n(m), n(r), Field::Bytes(tail)]
    };
    v.push(TypeAlpha { judged: true,
        name: "SOA",
        code: 6,
        values: vec![
            soa("NS.z", "Host.z", 1),
            soa("ns.z", "host.z", 1),
            soa("ns.z", "host.z", 2),
            // the second name shares a suffix with the first: compressible in the ordinary encoding
            soa("m.z", "b.z", 1),
            soa("m.z", "b.zz", 1),
        ],
    });
    let srv = |p: u16, w: u16, port: u16, t: &str| -> Rdata { vec![u16b(p), u16b(w), u16b(port), n(t)] };
    v.push(TypeAlpha { judged: true,
        name: "SRV",
        code: 33,
        values: vec![srv(1, 2, 80, "T.z"), srv(1, 2, 80, "t.z"), srv(1, 2, 80, "a.z"), srv(0, 0, 0, ""), srv(1, 2, 79, "z.z")],
    });
    let naptr = |order: u16, pref: u16, flags: &[u8], svc: &[u8], re: &[u8], rep: &str| -> Rdata {
        let mut x = vec![];
        x.extend_from_slice(&order.to_be_bytes());
        x.extend_from_slice(&pref.to_be_bytes());
        x.extend_from_slice(&cs(flags));
        x.extend_from_slice(&cs(svc));
        x.extend_from_slice(&cs(re));
        vec![Field::Bytes(x), n(rep)]
    };
    v.push(TypeAlpha { judged: true,
        name: "NAPTR",
        code: 35,
        values: vec![
            naptr(100, 10, b"S", b"SIP+D2U", b"", "R.z"),
            naptr(100, 10, b"S", b"SIP+D2U", b"", "r.z"),
            naptr(100, 10, b"S", b"SIP+D2U", b"", "a.z"),
            naptr(100, 10, b"U", b"E2U+sip", b"!^.*$!sip:info@z!", ""),
        ],
    });
    let txt = |ss: &[&[u8]]| -> Rdata { vec![Field::Bytes(ss.iter().flat_map(|s| cs(s)).collect())] };
    v.push(TypeAlpha { judged: true,
        name: "TXT",
        code: 16,
        values: vec![txt(&[b"a"]), txt(&[b"a", b"b"]), txt(&[b"ab"]), txt(&[b"A"]), txt(&[b""])],
    });
    let ds = |tag: u16, alg: u8, dt: u8, fill: u8, len: usize| -> Rdata {
        let mut x = tag.to_be_bytes().to_vec();
        x.push(alg);
        x.push(dt);
        x.extend(std::iter::repeat(fill).take(len));
        vec![Field::Bytes(x)]
    };
    v.push(TypeAlpha { judged: true,
        name: "DS",
        code: 43,
        values: vec![ds(1, 8, 2, 0xaa, 32), ds(1, 8, 2, 0xab, 32), ds(1, 8, 1, 0xaa, 20), ds(0, 13, 2, 0x00, 32)],
    });
    let dnskey = |flags: u16, alg: u8, key: &[u8]| -> Rdata {
        let mut x = flags.to_be_bytes().to_vec();
        x.push(3);
        x.push(alg);
        x.extend_from_slice(key);
        vec![Field::Bytes(x)]
    };
    v.push(TypeAlpha { judged: true,
        name: "DNSKEY",
        code: 48,
        values: vec![dnskey(256, 15, &[7u8; 32]), dnskey(257, 15, &[7u8; 32]), dnskey(256, 15, &[8u8; 32]), dnskey(256, 13, &[9u8; 64])],
    });
    let nsec = |next: &str, types: &[u16]| -> Rdata { vec![n(next), Field::Bytes(type_bitmap(types))] };
    v.push(TypeAlpha { judged: true,
        name: "NSEC",
        code: 47,
        // no two values differ only in the case of the next name (whether those would be
        // "duplicates" is not settled by the RFCs)
        values: vec![nsec("B.z", &[1, 2, 46, 47]), nsec("a.z", &[1, 46, 47]), nsec("C.a.z", &[1, 16, 46, 47, 1234]), nsec("a.z", &[1, 28, 46, 47])],
    });
    let svcb = |prio: u16, target: &str, params: &[(u16, &[u8])]| -> Rdata {
        let mut x = vec![];
        for (k, val) in params {
            x.extend_from_slice(&k.to_be_bytes());
            x.extend_from_slice(&(val.len() as u16).to_be_bytes());
            x.extend_from_slice(val);
        }
        vec![u16b(prio), n(target), Field::Bytes(x)]
    };
    for (name, code) in [("SVCB", 64u16), ("HTTPS", 65)] {
        v.push(TypeAlpha { judged: true,
            name,
            code,
            values: vec![
                svcb(1, "Svc.z", &[(1, b"\x02h2"), (3, &[0x01, 0xbb])]),
                svcb(1, "a.z", &[(1, b"\x02h2")]),
                svcb(0, "T.z", &[]),
                svcb(1, "", &[(3, &[0x01, 0xbb])]),
            ],
        });
    }
    let caa = |flags: u8, tag: &[u8], val: &[u8]| -> Rdata {
        let mut x = vec![flags];
        x.extend_from_slice(&cs(tag));
        x.extend_from_slice(val);
        vec![Field::Bytes(x)]
    };
    v.push(TypeAlpha { judged: true,
        name: "CAA",
        code: 257,
        values: vec![
            caa(0, b"issue", b"ca.example"),
            caa(128, b"issue", b"ca.example"),
            caa(0, b"issuewild", b";"),
            caa(0, b"iodef", b"mailto:sec@z.example"),
        ],
    });
    v.push(TypeAlpha { judged: true,
        name: "TYPE65280",
        code: 65280,
        // opaque RDATA (RFC 3597): nothing inside may be lower-cased, even if it looks like a name
        values: vec![vec![b(&[])], vec![b(&[0])], vec![b(&[0, 0])], vec![b(&[1])], vec![b(b"\x01A\x01z\x00")], vec![b(b"\x01a\x01z\x00")]],
    });
    // Types of the RFC 4034 6.2 list that hickory has no typed RDATA for
    v.push(TypeAlpha { judged: true, name: "DNAME", code: 39, values: vec![vec![n("T.z")], vec![n("a.z")], vec![n("b.z")]] });
    v.push(TypeAlpha { judged: true, name: "KX", code: 36, values: vec![vec![u16b(1), n("K.z")], vec![u16b(1), n("a.z")], vec![u16b(0), n("z.z")]] });
    // ---- extension round: every remaining type hickory has typed RDATA for
    let nsec3 = |alg: u8, flags: u8, iter: u16, salt: &[u8], next: &[u8], types: &[u16]| -> Rdata {
        let mut x = vec![alg, flags];
        x.extend_from_slice(&iter.to_be_bytes());
        x.extend_from_slice(&cs(salt));
        x.extend_from_slice(&cs(next));
        x.extend_from_slice(&type_bitmap(types));
        vec![Field::Bytes(x)]
    };
    v.push(TypeAlpha { judged: true,
        name: "NSEC3",
        code: 50,
        values: vec![
            nsec3(1, 0, 0, &[], &[0x11; 20], &[1, 46]),
            nsec3(1, 1, 0, &[], &[0x11; 20], &[1, 46]),
            nsec3(1, 0, 1, &[0xab], &[0x11; 20], &[1, 2, 46]),
            nsec3(1, 0, 1, &[0xab, 0xcd], &[0x10; 20], &[]),
            nsec3(1, 0, 0, &[], &[0x11; 20], &[1, 46, 1234]),
        ],
    });
    let n3p = |alg: u8, flags: u8, iter: u16, salt: &[u8]| -> Rdata {
        let mut x = vec![alg, flags];
        x.extend_from_slice(&iter.to_be_bytes());
        x.extend_from_slice(&cs(salt));
        vec![Field::Bytes(x)]
    };
    v.push(TypeAlpha { judged: true,
        name: "NSEC3PARAM",
        code: 51,
        values: vec![n3p(1, 0, 0, &[]), n3p(1, 0, 0, &[0]), n3p(1, 0, 0, &[0, 0]), n3p(1, 0, 10, &[0xab, 0xcd])],
    });
    v.push(TypeAlpha { judged: true,
        name: "CDS",
        code: 59,
        values: vec![ds(1, 8, 2, 0xaa, 32), ds(1, 8, 2, 0xab, 32), ds(1, 8, 4, 0xaa, 48), vec![b(&[0, 0, 0, 0, 0])]],
    });
    v.push(TypeAlpha { judged: true,
        name: "CDNSKEY",
        code: 60,
        values: vec![dnskey(256, 15, &[7u8; 32]), dnskey(257, 15, &[7u8; 32]), dnskey(257, 13, &[9u8; 64]), vec![b(&[0, 0, 3, 0, 0])]],
    });
    v.push(TypeAlpha { judged: true,
        name: "KEY",
        code: 25,
        values: vec![dnskey(256, 8, &[3, 1, 0, 1, 0xc1, 0xc2, 0xc3, 0xc4]), dnskey(0, 13, &[9u8; 64]), dnskey(512, 15, &[7u8; 32])],
    });
    let assoc = |u: u8, sel: u8, m: u8, data: &[u8]| -> Rdata {
        let mut x = vec![u, sel, m];
        x.extend_from_slice(data);
        vec![Field::Bytes(x)]
    };
    for (name, code) in [("TLSA", 52u16), ("SMIMEA", 53)] {
        v.push(TypeAlpha { judged: true,
            name,
            code,
            // the 2nd..4th value are proper prefixes of one another / differ only in length
            values: vec![assoc(3, 1, 1, &[0xee; 32]), assoc(3, 1, 0, &[0x30, 0x82]), assoc(3, 1, 0, &[0x30, 0x82, 0x00]), assoc(3, 1, 0, &[0x30, 0x82, 0x00, 0x00]), assoc(0, 0, 2, &[0x01; 64])],
        });
    }
    v.push(TypeAlpha { judged: true,
        name: "SSHFP",
        code: 44,
        values: vec![
            vec![b(&[1, 1]), b(&[0x12; 20])],
            vec![b(&[1, 1]), b(&[0x12; 19])],
            vec![b(&[4, 2]), b(&[0xaa; 32])],
            vec![b(&[4, 2]), b(&[0xaa; 31]), b(&[0xab])],
        ],
    });
    let cert = |t: u16, tag: u16, alg: u8, data: &[u8]| -> Rdata {
        let mut x = t.to_be_bytes().to_vec();
        x.extend_from_slice(&tag.to_be_bytes());
        x.push(alg);
        x.extend_from_slice(data);
        vec![Field::Bytes(x)]
    };
    v.push(TypeAlpha { judged: true,
        name: "CERT",
        code: 37,
        values: vec![cert(1, 12345, 8, &[0x30, 0x82, 1, 2]), cert(1, 12345, 8, &[0x30, 0x82, 1, 2, 0]), cert(3, 0, 0, &[0x99; 40]), cert(254, 65535, 253, &[1])],
    });
    let csync = |serial: u32, flags: u16, types: &[u16]| -> Rdata {
        let mut x = serial.to_be_bytes().to_vec();
        x.extend_from_slice(&flags.to_be_bytes());
        x.extend_from_slice(&type_bitmap(types));
        vec![Field::Bytes(x)]
    };
    v.push(TypeAlpha { judged: true,
        name: "CSYNC",
        code: 62,
        values: vec![csync(66, 3, &[1, 2, 28]), csync(66, 1, &[2]), csync(0, 0, &[]), csync(0xffff_ffff, 2, &[1, 2, 28, 1234])],
    });
    {
        // a long common prefix, values that differ only in length or only in the last octet
        let base: Vec<u8> = (0..40u8).map(|i| 0x40 ^ i).collect();
        let ext = |tail: &[u8]| -> Rdata {
            let mut x = base.clone();
            x.extend_from_slice(tail);
            vec![Field::Bytes(x)]
        };
        v.push(TypeAlpha { judged: true,
            name: "OPENPGPKEY",
            code: 61,
            values: vec![ext(&[]), ext(&[0]), ext(&[0, 0]), ext(&[1]), ext(&[0, 1]), vec![b(&base[..39])]],
        });
    }
    v.push(TypeAlpha { judged: true, name: "NULL", code: 10, values: vec![vec![b(&[])], vec![b(&[0xff])], vec![b(&[0xff, 0])], vec![b(b"\x01A\x00")]] });
    v.push(TypeAlpha { judged: true,
        name: "HINFO",
        code: 13,
        // on the RFC 4034 list, but contains no names: nothing may be folded
        values: vec![
            vec![b(&[&cs(b"CPU")[..], &cs(b"Os")[..]].concat())],
            vec![b(&[&cs(b"cpu")[..], &cs(b"os")[..]].concat())],
            vec![b(&[&cs(b"CPU")[..], &cs(b"")[..]].concat())],
            vec![b(&[&cs(b"")[..], &cs(b"")[..]].concat())],
        ],
    });
    // ANAME is a private type of hickory (65305): not on the RFC 4034 list, names keep their case
    v.push(TypeAlpha { judged: true, name: "TYPE65305", code: 65305, values: vec![vec![n("T.z")], vec![n("t.z")], vec![n("a.z")], vec![n("")]] });
    // more SvcParams (RFC 9460 7): mandatory, no-default-alpn, ipv4hint, ipv6hint, an unknown key
    v.push(TypeAlpha { judged: true,
        name: "SVCB",
        code: 64,
        values: vec![
            svcb(1, "Svc.z", &[(0, &[0, 1, 0, 4]), (1, b"\x02h2\x02h3"), (4, &[192, 0, 2, 1])]),
            svcb(1, "Svc.z", &[(1, b"\x02h2"), (2, &[]), (3, &[0x01, 0xbb]), (4, &[192, 0, 2, 1, 192, 0, 2, 2]), (6, &[0x20, 1, 0x0d, 0xb8, 0, 0, 0, 0, 0, 0, 0, 0, 0, 0, 0, 1])]),
            svcb(2, "svc.z", &[(65000, &[1, 2, 3])]),
            svcb(2, "svc.z", &[(65000, &[])]),
        ],
    });
    // SIG (24, RFC 2535) has typed RDATA in hickory and is on the RFC 4034 list: the signer's name is lower-cased
    let sig24 = |covered: u16, alg: u8, labels: u8, signer: &str, sig: &[u8]| -> Rdata {
        let mut x = covered.to_be_bytes().to_vec();
        x.push(alg);
        x.push(labels);
        for v in [3600u32, 1_700_086_400, 1_700_000_000] {
            x.extend_from_slice(&v.to_be_bytes());
        }
        x.extend_from_slice(&4711u16.to_be_bytes());
        vec![Field::Bytes(x), n(signer), b(sig)]
    };
    v.push(TypeAlpha { judged: true,
        name: "SIG",
        code: 24,
        values: vec![sig24(1, 8, 2, "Signer.z", &[1, 2, 3, 4]), sig24(1, 8, 2, "signer.z", &[1, 2, 3, 4]), sig24(1, 8, 2, "a.z", &[1, 2, 3]), sig24(0, 8, 0, "", &[9; 16])],
    });
    // two obsolete RFC 1035 types of the RFC 4034 6.2 list without typed RDATA in hickory (one name /
    // two names; a sender may compress them): the class is present in the quick tier, the other
    // eight types are thorough-only
    v.push(TypeAlpha { judged: true, name: "MB", code: 7, values: vec![vec![n("T.z")], vec![n("a.z")]] });
    v.push(TypeAlpha { judged: true, name: "MINFO", code: 14, values: vec![vec![n("R.z"), n("E.z")], vec![n("a.z"), n("")]] });
    if thorough {
        // the remaining (obsolete) types of the RFC 4034 6.2 list; hickory has no typed RDATA for them
        for (name, code) in [("MD", 3u16), ("MF", 4), ("MG", 8), ("MR", 9)] {
            v.push(TypeAlpha { judged: true, name, code, values: vec![vec![n("T.z")], vec![n("a.z")]] });
        }
        v.push(TypeAlpha { judged: true, name: "RT", code: 21, values: vec![vec![u16b(1), n("R.z")], vec![u16b(1), n("a.z")]] });
        v.push(TypeAlpha { judged: true, name: "PX", code: 26, values: vec![vec![u16b(1), n("M.z"), n("X.z")], vec![u16b(1), n("a.z"), n("")]] });
        v.push(TypeAlpha { judged: true, name: "NXT", code: 30, values: vec![vec![n("N.z"), b(&[0x40, 0x01])], vec![n("a.z"), b(&[0x40])]] });
        v.push(TypeAlpha { judged: true, name: "A6", code: 38, values: vec![vec![b(&[128]), n("P.z")], vec![b(&[128]), n("a.z")]] });
        v.push(TypeAlpha { judged: true, name: "RP", code: 17, values: vec![vec![n("Box.z"), n("Txt.z")], vec![n("a.z"), n("")]] });
        v.push(TypeAlpha { judged: true, name: "AFSDB", code: 18, values: vec![vec![u16b(1), n("Db.z")], vec![u16b(2), n("a.z")]] });
    }
    v
}

/// All index sequences (ordered, with repetition) of length 1..=max over k values: every
/// permutation of every multiset, duplicates included.
pub fn sequences(k: usize, max: usize) -> Vec<Vec<usize>> {
    let mut out = vec![];
    let mut last: Vec<Vec<usize>> = vec![vec![]];
    for _ in 0..max {
        let mut next = vec![];
        for s in &last {
            for i in 0..k {
                let mut t = s.clone();
                t.push(i);
                next.push(t);
            }
        }
        out.extend(next.iter().cloned());
        last = next;
    }
    out
}
