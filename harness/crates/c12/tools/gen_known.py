#!/usr/bin/env python3
"""Build /verif/known_findings.d/C12.json from the replay files of a run on the unchanged tree.
usage: gen_known.py <dir with C12-*.json replay files> [<more dirs>...]
Every key is assigned to a root-cause family by pattern; a key that fits no family aborts."""
import glob, json, re, sys, os

FAMILIES = [
 ("panic-soa-serial-increment-overflow", r"^panic:attempt-to-add-with-overflow@crates/proto/src/rr/rdata/soa\.rs$",
  "SOA::increment_serial does `serial += 1`: at serial 2^32-1 a content-changing update panics in overflow-checked builds AFTER increment_soa_serial removed the SOA from the store, leaving a zone without SOA (release builds wrap to 0, which RFC 1982 wants). Statement: 'after every message the zone has exactly one SOA ... serial has strictly advanced'."),
 ("empty-rrset-key", r"<empty ",
  "deleting the last RR of an RRset (class NONE) leaves an empty RRset key in the store; later messages then misbehave: deleting that 'RRset' or its name advances the serial without any content change, a CNAME add at the name (or any add next to an empty CNAME key) is ignored, and 'name is (not) in use' is judged on the empty key when it shadows real data. Statement: prerequisites judged against the zone as left by earlier messages / accepted message leaves exactly the RFC 2136 3.4.2 contents / serial advanced iff content changed."),
 ("empty-rrset-key", r"^content:zone\{(n0 T0 IN D d0)?\} msg\{P\[\] U\[(n0 T0 IN D d0; )?n0 0 NONE D d0; n0 T0 IN CNAME n1\]\}$",
  "deleting the last RR of an RRset (class NONE) leaves an empty RRset key in the store; a CNAME add later in the same message is then ignored although the name holds no other data (RFC 2136 3.4.2.2 adds it). Statement: accepted message leaves exactly the RFC 2136 3.4.2 contents."),
 ("delete-name-keeps-wrong-rrsets", r"U\[@ 0 ANY ANY -\]|^content:zone\{n0 T0 IN NS o0\} msg\{P\[\] U\[n0 0 ANY ANY -\]\}$",
  "'delete all RRsets from a name' (class ANY type ANY) has its apex test inverted (`k.name != *origin`): at the zone apex it deletes the SOA and all NS (zone left without SOA/NS; the request then fails with SERVFAIL after changing the zone), off the apex it keeps NS (and SOA) RRsets that RFC 2136 3.4.2.3 deletes. Statement: exactly one SOA and at least one apex NS after every message / a rejected message changes nothing / accepted message leaves exactly the 3.4.2 contents."),
 ("second-soa-off-apex", r"U\[n0 T0 IN SOA ",
  "adding an SOA RR at a name that is not the zone apex creates a second SOA (RFC 2136 3.4.2.2: 'if there is no Zone SOA RR [at that name] the Update RR is ignored'). Statement: 'the zone has exactly one SOA'."),
 ("soa-serial-plain-integer-compare", r"\(wraps\)",
  "an SOA Update RR replaces the zone SOA only if its serial is greater as a plain integer (`new <= existing` ignored) instead of RFC 1982 arithmetic: across the 2^32 wrap a legitimately newer SOA (other fields and/or serial) is silently ignored. Statement: accepted message leaves exactly the RFC 2136 3.4.2 contents (3.4.2.2 names RFC 1982) / serial advanced iff content changed."),
 ("serial-incremented-after-soa-replacement", r"^serial\[exp=advance obs=undefined-relation\]",
  "after an Update RR replaced the SOA with serial cur+2^31-1 (the largest RFC 1982 increment) the server increments once more, so the new serial is exactly 2^31 away from the old one: RFC 1982 leaves that relation undefined, the serial has not 'strictly advanced'. Statement: serial strictly advanced (RFC 1982) iff content changed."),
 ("serial-advances-without-net-content-change", r"^serial\[exp=stay obs=advanced\]:(intermediate-changes-cancel-out|zone\{n0 T0 IN CNAME n[01]\} msg\{P\[\] U\[n0 T0 IN CNAME n[01]\]\})$",
  "the serial is bumped whenever any single Update RR touched the store, not when the zone differs after the message: a message whose changes cancel out (add+delete, delete+re-add) or that re-adds the identical CNAME advances the serial although the content after the message equals the content before. Statement: serial strictly advanced if AND ONLY IF the content changed."),
 ("ttl-only-update-ignored", r"^content:zone\{(@|n0) T1 IN (D d0|NS o0)\} msg\{P\[\] U\[(@|n0) T0 IN (D d0|NS o0)\]\}$",
  "adding an RR whose RDATA is already in the RRset but with another TTL is ignored (RecordSet::insert compares with Record::eq, which excludes the TTL); RFC 2136 3.4.2.2: 'the Zone RR is replaced by Update RR'. Statement: accepted message leaves exactly the RFC 2136 3.4.2 contents."),
 ("prescan-accepts-mailb", r"MAILB",
  "the prescan rejects ANY/AXFR/IXFR but not the query metatypes MAILB(253)/MAILA(254): such Update RRs are accepted (NOERROR; a zone-class one is stored as TYPE253) where RFC 2136 3.4.1.2 gives FORMERR. Statement: a message whose prescan fails changes nothing."),
 ("prerequisite-subset-accepted", r"^accepted-failing:zone\{(@|n0) T0 IN (D d0|NS o0); (@|n0) T0 IN (D d1|NS o1)\} msg\{P\[(@|n0) 0 IN (D d0|NS o0)\] U\[\]\}$",
  "a value-dependent prerequisite (class = zone class) is tested per RR with `any()`: a proper subset of the zone RRset satisfies it, RFC 2136 3.2.3 demands set equality (NXRRSET). Statement: each message's prerequisites are judged against the zone ... RFC 2136 semantics."),
 ("prerequisites-judged-through-query-lookup", r"^(accepted-failing|wrong-rejection\[obs=(YXRRSET|NXRRSET|YXDOMAIN)\]):zone\{[^}]*(CNAME|NS o0|\*\.@)[^}]*\} msg\{P\[[^\]]+\] U\[\]\}$",
  "prerequisites are evaluated through the query path lookup() instead of the zone's own RRs: a CNAME at the name answers for every type (so 'RRset exists' holds and 'RRset does not exist' fails for types the name does not have), an NS RRset at or above the name (zone cut) answers for every name and type below it, a wildcard sibling is synthesised for a name that does not exist, and at such names exact value-dependent prerequisites fail. Statement: each message's prerequisites are judged against the zone as left by the earlier messages (RFC 2136 3.2: zone_rrset<>/zone_name<> are the zone's own RRs)."),
]

def family(key):
    for fid, pat, desc in FAMILIES:
        if re.search(pat, key):
            return fid, desc
    return None

def main():
    best = {}
    for d in sys.argv[1:]:
        for f in glob.glob(os.path.join(d, "C12-*.json")):
            r = json.load(open(f))
            k = r["key"]
            c = r["case"]
            size = len(c.get("history", [])) * 100 + len(json.dumps(c.get("message", {})))
            if k not in best or size < best[k][0]:
                best[k] = (size, r)
    out = []
    unknown = []
    for k in sorted(best):
        r = best[k][1]
        fam = family(k)
        if fam is None:
            unknown.append(k)
            continue
        c = r["case"]
        mw = c.get("minimal_witness") or {}
        out.append({
            "property": "C12", "status": "open", "key": k,
            "what": "[%s] %s Observed here: %s" % (fam[0], fam[1], r["what"][:400]),
            "witness": {
                "minimal": {"zone": mw.get("zone"), "message": mw.get("message")},
                "observed": {"rcode": c.get("rcode"), "pre_state": c.get("pre_state"), "post_state": c.get("post_state")},
                "replay_case": {"initial_zone": c.get("initial_zone"), "history": c.get("history"), "message": c.get("message"), "text": c.get("text")},
            },
        })
    if unknown:
        print("keys that fit no family:", *unknown, sep="\n  ")
        sys.exit(1)
    json.dump(out, open("/verif/known_findings.d/C12.json", "w"), indent=1)
    fams = {}
    for e in out:
        fams.setdefault(e["what"].split("]")[0][1:], []).append(e["key"])
    for f, ks in sorted(fams.items()):
        print(len(ks), f)
    print(len(out), "entries")

main()
