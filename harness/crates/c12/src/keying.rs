//! Finding keys for C12: `<clause>[<expected/observed>]:<canonical minimal witness>`.
//!
//! A violating (state, message) is first cut down to the part of the state the message can
//! depend on (the owners of its atoms, their ancestors/descendants, wildcard siblings, CNAME
//! targets); then atoms and zone elements are removed greedily while the same oracle clause still
//! fails with the same expected/observed descriptor (every candidate is re-executed on the real
//! handler put into that state); the remaining witness is printed with names, addresses, TTLs
//! renamed in order of first appearance. The result is memoised per (clause, relevant state,
//! message), so it is a deterministic function of the case and independent of visiting order.
//! Verdicts never depend on this module: it only names violations that were already observed on
//! a handler built from its history.

use std::collections::HashMap;
use std::sync::RwLock;

use vref::update as ru;
use vref::wire::Labels;
use vupd::{Msg, Rr, Snap};

use crate::{Finding, Worker};

pub struct Keyer {
    memo: RwLock<HashMap<(u64, u64), String>>,
    /// key -> a minimal concrete witness (zone beyond the implied apex SOA/NS, message); when
    /// several cases minimise to the same key the textually smallest witness is kept
    witnesses: RwLock<HashMap<String, String>>,
}

fn origin() -> Labels {
    ru::name_from_str(vupd::ORIGIN)
}

fn in_zone(n: &Labels) -> bool {
    let o = origin();
    n.len() >= o.len() && n[n.len() - o.len()..] == o[..]
}

fn is_ancestor_or_self(anc: &Labels, n: &Labels) -> bool {
    n.len() >= anc.len() && n[n.len() - anc.len()..] == anc[..]
}

fn rdata_target(r: &Rr) -> Option<Labels> {
    if (r.rtype == ru::T_CNAME || r.rtype == ru::T_NS) && !r.rdata.is_empty() {
        vref::wire::read_name(&r.rdata, 0).ok().map(|(n, _)| n)
    } else {
        None
    }
}

/// The part of `pre` the outcome of `msg` can depend on.
fn relevant(pre: &Snap, msg: &Msg) -> Snap {
    let o = origin();
    let mut owners: Vec<Labels> = msg.prereqs.iter().chain(msg.updates.iter()).map(|r| r.name.clone()).filter(in_zone).collect();
    // CNAME targets of CNAMEs at the owners (one level is enough for the universe's chains of <= 2)
    for _ in 0..2 {
        let mut add = vec![];
        for r in &pre.rrs {
            if r.rtype == ru::T_CNAME && owners.contains(&r.name) {
                if let Some(t) = rdata_target(r) {
                    if in_zone(&t) && !owners.contains(&t) {
                        add.push(t);
                    }
                }
            }
        }
        owners.extend(add);
    }
    let keep_name = |n: &Labels| -> bool {
        if *n == o {
            return owners.contains(&o);
        }
        owners.iter().any(|w| {
            if *w == o {
                return false;
            }
            // same, ancestor (below the apex) or descendant
            if is_ancestor_or_self(n, w) || is_ancestor_or_self(w, n) {
                return true;
            }
            // wildcard sibling of the owner or of one of its ancestors
            if n.first().map(|l| l.as_slice() == b"*").unwrap_or(false) {
                let parent: Labels = n[1..].to_vec();
                return is_ancestor_or_self(&parent, w) && w.len() > parent.len();
            }
            false
        })
    };
    let mut s = Snap::default();
    for r in &pre.rrs {
        let mandatory = r.name == o && (r.rtype == ru::T_SOA || r.rtype == ru::T_NS);
        if mandatory || keep_name(&r.name) {
            s.rrs.push(r.clone());
        }
    }
    for (n, t) in &pre.empty_keys {
        if keep_name(n) {
            s.empty_keys.push((n.clone(), *t));
        }
    }
    s
}

/// The message with every name (owners, NS/CNAME targets) in lower case: zone names are stored in
/// lower case, relevance and rendering work on this form; what is executed keeps its spelling.
fn lower_msg(msg: &Msg) -> Msg {
    let lo = |r: &Rr| -> Rr {
        let mut r = r.clone();
        r.name = vref::wire::lower(&r.name);
        if let Some(t) = rdata_target(&r) {
            let mut rd = vec![];
            vref::wire::emit_name(&vref::wire::lower(&t), &mut rd);
            r.rdata = rd;
        }
        r
    };
    Msg { prereqs: msg.prereqs.iter().map(lo).collect(), updates: msg.updates.iter().map(lo).collect() }
}

fn render_cased(zone: &Snap, msg: &Msg, cur: u32) -> String {
    let l = lower_msg(msg);
    let r = render(zone, &l, cur);
    if l != *msg {
        format!("{r} (names of the message spelled in another case)")
    } else {
        r
    }
}

impl Keyer {
    pub fn new() -> Keyer {
        Keyer { memo: RwLock::new(HashMap::new()), witnesses: RwLock::new(HashMap::new()) }
    }

    pub fn key(&self, w: &Worker, f: &Finding, pre: &Snap, msg: &Msg) -> String {
        if f.clause.starts_with("dnssec:") {
            // signed-zone clauses carry their own abstract scene
            return f.clause.clone();
        }
        if f.clause == "panic" {
            // keyed by what panicked (message + source file); no witness needed
            return format!("panic:{}", f.detail);
        }
        let sub = relevant(pre, &lower_msg(msg));
        let k0 = (vupd::digest(&(&f.clause, &f.detail, msg, &sub)), vupd::digest(&(1u8, &sub, msg, &f.detail, &f.clause)));
        if let Some(k) = self.memo.read().unwrap().get(&k0) {
            return k.clone();
        }
        let key = self.compute(w, f, pre, &sub, msg);
        self.memo.write().unwrap().insert(k0, key.clone());
        key
    }

    /// The minimal concrete witness recorded for `key` (JSON text), if any.
    pub fn witness(&self, key: &str) -> Option<serde_json::Value> {
        self.witnesses.read().unwrap().get(key).and_then(|s| serde_json::from_str(s).ok())
    }

    fn record_witness(&self, key: &str, zone: &Snap, msg: &Msg) {
        let j = serde_json::json!({"zone": zone.text(), "message": msg.text(), "zone_json": zone.to_json(), "message_json": msg.to_json()}).to_string();
        let mut g = self.witnesses.write().unwrap();
        match g.get(key) {
            Some(old) if *old <= j => {}
            _ => {
                g.insert(key.to_string(), j);
            }
        }
    }

    fn fails(&self, w: &Worker, f: &Finding, zone: &Snap, msg: &Msg) -> bool {
        w.rt.block_on(w.scratch.restore(&zone.to_map()));
        let pre = w.rt.block_on(w.scratch.snapshot());
        if pre != *zone {
            return false;
        }
        let out = crate::step(w, &w.scratch, &crate::Pre::new(pre), msg, 9);
        out.findings.iter().any(|g| g.clause == f.clause && g.detail == f.detail)
    }

    fn compute(&self, w: &Worker, f: &Finding, pre: &Snap, sub: &Snap, msg: &Msg) -> String {
        let o = origin();
        let mut zone = sub.clone();
        let mut msg = msg.clone();
        if !self.fails(w, f, &zone, &msg) {
            zone = pre.clone();
            if !self.fails(w, f, &zone, &msg) {
                // not reproducible from the observable state alone: name it by the message only
                return format!("{}[{}]:unminimised:{}", f.clause, f.detail, render_cased(&Snap::default(), &msg, pre.serial().unwrap_or(0)));
            }
        }
        // atoms: whole sections first (a set-valued prerequisite cannot be removed RR by RR), then
        // single atoms, repeated until nothing more can go
        loop {
            let before = msg.clone();
            if !msg.prereqs.is_empty() {
                let mut m = msg.clone();
                m.prereqs.clear();
                if self.fails(w, f, &zone, &m) {
                    msg = m;
                }
            }
            if !msg.updates.is_empty() {
                let mut m = msg.clone();
                m.updates.clear();
                if self.fails(w, f, &zone, &m) {
                    msg = m;
                }
            }
            let mut i = 0;
            while i < msg.prereqs.len() {
                let mut m = msg.clone();
                m.prereqs.remove(i);
                if self.fails(w, f, &zone, &m) {
                    msg = m;
                } else {
                    i += 1;
                }
            }
            let mut i = 0;
            while i < msg.updates.len() {
                let mut m = msg.clone();
                m.updates.remove(i);
                if self.fails(w, f, &zone, &m) {
                    msg = m;
                } else {
                    i += 1;
                }
            }
            if msg == before {
                break;
            }
        }
        // spelling: if the lower-case message fails the same way, the case of its names does not matter
        let lowered = lower_msg(&msg);
        if lowered != msg && self.fails(w, f, &zone, &lowered) {
            msg = lowered;
        }
        // zone elements (never the apex SOA, never the last apex NS)
        let mut i = 0;
        while i < zone.empty_keys.len() {
            let mut z = zone.clone();
            z.empty_keys.remove(i);
            if self.fails(w, f, &z, &msg) {
                zone = z;
            } else {
                i += 1;
            }
        }
        let mut i = 0;
        while i < zone.rrs.len() {
            let r = &zone.rrs[i];
            let apex_soa = r.name == o && r.rtype == ru::T_SOA;
            let last_apex_ns = r.name == o && r.rtype == ru::T_NS && zone.rrs.iter().filter(|x| x.name == o && x.rtype == ru::T_NS).count() == 1;
            if apex_soa || last_apex_ns {
                i += 1;
                continue;
            }
            let mut z = zone.clone();
            z.rrs.remove(i);
            if self.fails(w, f, &z, &msg) {
                zone = z;
            } else {
                i += 1;
            }
        }
        // TTLs of the remaining zone elements: the universe's default unless another value matters
        for i in 0..zone.rrs.len() {
            if zone.rrs[i].ttl != 60 {
                let mut z = zone.clone();
                z.rrs[i].ttl = 60;
                z.rrs.sort();
                if self.fails(w, f, &z, &msg) {
                    zone = z;
                }
            }
        }
        // serial regime: move every SOA serial of the witness to mid-range, keeping all distances;
        // if the violation persists, the position of the serial relative to the 2^32 wrap does not
        // matter and the witness is printed in the ordinary regime
        let cur = zone.serial().unwrap_or(0);
        if cur == 0 || cur > 1_000_000 {
            let shift = 1000u32.wrapping_sub(cur);
            let shift_rr = |r: &Rr| -> Rr {
                let mut r = r.clone();
                if r.rtype == ru::T_SOA && r.rdata.len() >= 20 {
                    let p = r.rdata.len() - 20;
                    let s = u32::from_be_bytes(r.rdata[p..p + 4].try_into().unwrap()).wrapping_add(shift);
                    r.rdata[p..p + 4].copy_from_slice(&s.to_be_bytes());
                }
                r
            };
            let mut z = zone.clone();
            z.rrs = z.rrs.iter().map(shift_rr).collect();
            z.rrs.sort();
            let m = Msg { prereqs: msg.prereqs.iter().map(shift_rr).collect(), updates: msg.updates.iter().map(shift_rr).collect() };
            if self.fails(w, f, &z, &m) {
                zone = z;
                msg = m;
            }
        }
        let detail = if f.detail.is_empty() { String::new() } else { format!("[{}]", f.detail) };
        if f.clause == "serial" && f.detail == "exp=stay obs=advanced" && msg.updates.len() >= 2 && cancels_out(&zone, &msg) {
            // one root cause by construction: the message as a whole leaves the content as it was,
            // but a proper prefix of its update section changes it
            let key = format!("{}{}:intermediate-changes-cancel-out", f.clause, detail);
            self.record_witness(&key, &zone, &msg);
            return key;
        }
        let key = format!("{}{}:{}", f.clause, detail, render_cased(&zone, &msg, zone.serial().unwrap_or(0)));
        self.record_witness(&key, &zone, &msg);
        key
    }
}

/// The whole update section leaves the content unchanged although a proper prefix changes it
/// (judged with the reference model only).
fn cancels_out(zone: &Snap, msg: &Msg) -> bool {
    let z = zone.zone();
    let before = z.content();
    let run = |n: usize| -> Option<std::collections::BTreeSet<Rr>> {
        let u = ru::Update { zname: origin(), ztype: ru::T_SOA, zclass: ru::CLASS_IN, prereqs: vec![], updates: msg.updates[..n].to_vec() };
        let v = ru::process(&z, &u);
        if !v.accepted() || v.zones.len() != 1 {
            return None;
        }
        Some(v.zones[0].zone.content())
    };
    match run(msg.updates.len()) {
        Some(c) if c == before => (1..msg.updates.len()).any(|n| run(n).map(|c| c != before).unwrap_or(false)),
        _ => false,
    }
}

// ------------------------------------------------------------------------------------------
// canonical rendering

#[derive(Default)]
struct Renamer {
    /// names that own a zone element or an atom (only these count for the "below" relation)
    owners: Vec<Labels>,
    names: Vec<Labels>,
    addrs: Vec<Vec<u8>>,
    outs: Vec<Labels>,
    ttls: Vec<u32>,
    mins: Vec<u32>,
}

fn intern<T: PartialEq + Clone>(v: &mut Vec<T>, x: &T) -> usize {
    if let Some(i) = v.iter().position(|y| y == x) {
        i
    } else {
        v.push(x.clone());
        v.len() - 1
    }
}

fn is_wild(n: &Labels) -> bool {
    n.first().map(|l| l.as_slice() == b"*").unwrap_or(false)
}

impl Renamer {
    fn name(&mut self, n: &Labels) -> String {
        let o = origin();
        if *n == o {
            return "@".into();
        }
        if !in_zone(n) {
            return format!("o{}", intern(&mut self.outs, n));
        }
        if is_wild(n) {
            let parent: Labels = n[1..].to_vec();
            return format!("*.{}", self.name(&parent));
        }
        let id = intern(&mut self.names, n);
        // nearest strict ancestor among the witness names
        let mut anc: Option<usize> = None;
        for (j, y) in self.names.iter().enumerate() {
            if j != id && y.len() < n.len() && is_ancestor_or_self(y, n) && self.owners.contains(y) && self.owners.contains(n) && anc.map(|a| self.names[a].len() < y.len()).unwrap_or(true) {
                anc = Some(j);
            }
        }
        match anc {
            Some(a) => format!("n{id}<n{a}"),
            None => format!("n{id}"),
        }
    }
    /// TTL of a zone element or of an "add" atom: renamed in order of first appearance.
    fn ttl_data(&mut self, t: u32) -> String {
        format!("T{}", intern(&mut self.ttls, &t))
    }
    /// TTL of a prerequisite / delete atom, where RFC 2136 demands zero.
    fn ttl_meta(&mut self, t: u32) -> String {
        if t == 0 {
            "0".into()
        } else {
            "nonzero".into()
        }
    }
    fn rdata(&mut self, r: &Rr, cur: u32) -> String {
        if r.rdata.is_empty() {
            return "-".into();
        }
        match r.rtype {
            // A and TXT are the universe's plain data types: RFC 2136 treats them alike
            ru::T_A | ru::T_TXT => format!("d{}", intern(&mut self.addrs, &r.rdata)),
            // NULL (opaque RDATA) is one more plain data type - except in the metavalue forms with
            // RDATA, where the handler had an arm of its own for it (kept apart: TYPE10 rd)
            10 if r.class == ru::CLASS_IN => format!("d{}", intern(&mut self.addrs, &r.rdata)),
            ru::T_NS | ru::T_CNAME => match rdata_target(r) {
                Some(t) => self.name(&t),
                None => "?".into(),
            },
            ru::T_SOA => {
                let ser = ru::soa_serial(&r.rdata).unwrap_or(0);
                let min = u32::from_be_bytes(r.rdata[r.rdata.len() - 4..].try_into().unwrap());
                let rel = match ser.wrapping_sub(cur) {
                    0 => "cur".to_string(),
                    1 => "cur+1".into(),
                    2 => "cur+2".into(),
                    x if x == u32::MAX => "cur-1".into(),
                    x if x == (1u32 << 31) - 1 => "cur+2^31-1".into(),
                    x if x == 1u32 << 31 => "cur+2^31".into(),
                    x if x < 1u32 << 31 => "cur+k".into(),
                    _ => "cur-k".into(),
                };
                // does plain integer comparison disagree with RFC 1982 for this pair?
                let wraps = match ru::serial_cmp(ser, cur) {
                    ru::SerialOrd::Greater => ser < cur,
                    ru::SerialOrd::Less => ser > cur,
                    _ => false,
                };
                format!("serial={rel}{} m{}", if wraps { "(wraps)" } else { "" }, intern(&mut self.mins, &min))
            }
            _ => "rd".into(),
        }
    }
}

/// Canonical text of a minimal witness. Implied and not printed: the apex SOA (unless an atom
/// addresses the apex SOA) and a single apex NS (unless an atom addresses the apex NS RRset or
/// all of the apex). A type-only atom whose type the witness zone does not hold at that name is
/// printed with the type `~` ("some type the name does not have").
pub fn render(zone: &Snap, msg: &Msg, cur: u32) -> String {
    let o = origin();
    let mut rn = Renamer::default();
    // intern the names: the message's first, then the zone's (sorted)
    for r in msg.prereqs.iter().chain(msg.updates.iter()) {
        if in_zone(&r.name) && r.name != o && !is_wild(&r.name) {
            intern(&mut rn.names, &r.name);
        }
    }
    let mut znames: Vec<&Labels> = zone.rrs.iter().map(|r| &r.name).chain(zone.empty_keys.iter().map(|(n, _)| n)).collect();
    znames.sort();
    for n in znames {
        if in_zone(n) && *n != o && !is_wild(n) {
            intern(&mut rn.names, n);
        }
    }
    let atoms = || msg.prereqs.iter().chain(msg.updates.iter());
    rn.owners = atoms().map(|r| r.name.clone()).chain(zone.rrs.iter().map(|r| r.name.clone())).chain(zone.empty_keys.iter().map(|(n, _)| n.clone())).collect();
    let tname = |t: u16| -> String {
        if t == ru::T_A || t == ru::T_TXT || t == 10 {
            "D".into()
        } else {
            vupd::type_name(t)
        }
    };
    let touches_apex_ns = atoms().any(|r| r.name == o && (r.rtype == ru::T_NS || r.rtype == ru::T_ANY));
    let apex_ns = zone.rrs.iter().filter(|r| r.name == o && r.rtype == ru::T_NS).count();
    let touches_apex_soa = atoms().any(|r| r.name == o && r.rtype == ru::T_SOA);
    let holds = |name: &Labels, t: u16| zone.rrs.iter().any(|z| z.name == *name && z.rtype == t) || zone.empty_keys.iter().any(|(n, et)| n == name && *et == t);
    let atom = |rn: &mut Renamer, r: &Rr, is_prereq: bool| -> String {
        let n = rn.name(&r.name);
        let data_atom = !is_prereq && r.class == ru::CLASS_IN;
        let t = if data_atom { rn.ttl_data(r.ttl) } else { rn.ttl_meta(r.ttl) };
        let plain_type = matches!(r.rtype, ru::T_A | ru::T_TXT | ru::T_NS | ru::T_CNAME | ru::T_SOA | 10);
        let malformed_null = r.rtype == 10 && r.class != ru::CLASS_IN && !r.rdata.is_empty();
        let ty = if is_prereq && r.rdata.is_empty() && plain_type && !holds(&r.name, r.rtype) {
            "~".to_string()
        } else if malformed_null {
            vupd::type_name(r.rtype)
        } else {
            tname(r.rtype)
        };
        let rd = rn.rdata(r, cur);
        format!("{n} {t} {} {ty} {rd}", vupd::class_name(r.class))
    };
    let ps: Vec<String> = msg.prereqs.iter().map(|r| atom(&mut rn, r, true)).collect();
    let us: Vec<String> = msg.updates.iter().map(|r| atom(&mut rn, r, false)).collect();
    let mut zs: Vec<String> = vec![];
    for r in &zone.rrs {
        if r.name == o && r.rtype == ru::T_SOA && !touches_apex_soa {
            continue;
        }
        if r.name == o && r.rtype == ru::T_NS && apex_ns == 1 && !touches_apex_ns {
            continue;
        }
        let n = rn.name(&r.name);
        let t = rn.ttl_data(r.ttl);
        let rd = rn.rdata(r, cur);
        zs.push(format!("{n} {t} {} {} {rd}", vupd::class_name(r.class), tname(r.rtype)));
    }
    for (n, t) in &zone.empty_keys {
        zs.push(format!("{} <empty {} key>", rn.name(n), tname(*t)));
    }
    zs.sort();
    format!("zone{{{}}} msg{{P[{}] U[{}]}}", zs.join("; "), ps.join("; "), us.join("; "))
}
