//! Audit round: the same UPDATE messages again
//!  (b) as HAND-ENCODED octets in the layouts the RFCs permit and hickory's emitter never produces
//!      (`vupd::raw`: no compression, compression against the zone name, upper case, a record or an
//!      OPT in the additional section before the TSIG), signed by the independent `vref::tsig`;
//!  (a) over UDP instead of TCP, and on a handler WITH a journal attached.
//! Each variant must give exactly the outcome (rcode, resulting zone) of the plain run of the same
//! message on the same state - which the main oracle judges against RFC 2136 - so a layout- or
//! knob-dependent deviation shows as a difference. Zone sections that are not "one SOA question
//! for the zone" (RFC 2136 3.1.1) form a family of their own.

use serde_json::json;
use vcore::{catch, Local};
use vref::update as ru;
use vupd::raw::{self, Layout};
use vupd::{Env, EnvOpts, Msg, Rr};

use crate::alphabet::{self, AtomSpec, MsgSpec};
use crate::{rebuild, snapshot, step, step_bytes, Pre, StepOut, Worker};

#[derive(Clone)]
pub enum Variant {
    Layout(Layout),
    Udp,
    Journal,
}

impl Variant {
    pub fn name(&self) -> String {
        match self {
            Variant::Layout(l) => format!("layout:{}", l.name),
            Variant::Udp => "transport:udp".into(),
            Variant::Journal => "journal:attached".into(),
        }
    }
}

pub fn variants() -> Vec<Variant> {
    let mut v: Vec<Variant> = raw::equivalent_layouts().into_iter().map(Variant::Layout).collect();
    v.push(Variant::Udp);
    v.push(Variant::Journal);
    v
}

/// The messages of this family: M1-core, the kinds, every opaque-RDATA / meta-type atom alone and
/// as a prerequisite of an effective add, and a slice of the multi-RR messages of M2 (several
/// names to compress in one message).
pub fn messages(thorough: bool) -> Vec<MsgSpec> {
    let mut v = alphabet::m1_core();
    v.extend(alphabet::kinds());
    let add = alphabet::core_updates()[0].clone();
    for a in alphabet::update_atoms().into_iter().filter(|a| a.rr.rtype == alphabet::T_NULL || matches!(a.rr.rtype, 251..=254)) {
        v.push(MsgSpec { prereqs: vec![], updates: vec![a] });
    }
    for a in alphabet::prereq_atoms().into_iter().filter(|a| a.rr.rtype == alphabet::T_NULL) {
        v.push(MsgSpec { prereqs: vec![a], updates: vec![add.clone()] });
    }
    let m2 = alphabet::m2(false);
    let stride = if thorough { 97 } else { 389 };
    v.extend(m2.into_iter().filter(|m| m.prereqs.len() + m.updates.len() >= 3).step_by(stride));
    let mut seen = std::collections::HashSet::new();
    v.retain(|m| seen.insert(m.clone()));
    v
}

fn same(a: &StepOut, b: &StepOut) -> bool {
    a.rcode == b.rcode && a.post == b.post && a.panicked == b.panicked
}

fn rc(o: &StepOut) -> String {
    if o.panicked {
        "panic".into()
    } else {
        o.rcode.map(|r| ru::rcode_name(r).to_string()).unwrap_or("no-reply".into())
    }
}

/// One message in one variant on the state of `env`/`pre` (`envj`/`prej`: the same state on a
/// handler with a journal). Returns the outcome; stores put back.
pub fn run_variant(w: &Worker, v: &Variant, env: &Env, pre: &Pre, envj: &Env, prej: &Pre, msg: &Msg, id: u16) -> Result<StepOut, String> {
    let hb = vupd::signed_update(id, msg, &w.signer, vupd::NOW);
    let saved;
    let out = match v {
        Variant::Layout(lay) => {
            let rb = raw::signed_update(id, msg, lay, &raw::key1(), vupd::NOW, 300);
            // the hand-made octets must MEAN the same message (reference parser on both)
            let (a, b) = (ru::parse_update(&hb), ru::parse_update(&rb));
            if a.is_err() || a != b {
                return Err(format!("vupd::raw layout {} does not encode the message {}: {:?} vs {:?}", lay.name, msg.text(), a, b));
            }
            saved = w.rt.block_on(env.save());
            let o = step_bytes(w, env, pre, &rb, vupd::Protocol::Tcp);
            if o.changed {
                w.rt.block_on(env.restore(&saved));
            }
            o
        }
        Variant::Udp => {
            saved = w.rt.block_on(env.save());
            let o = step_bytes(w, env, pre, &hb, vupd::Protocol::Udp);
            if o.changed {
                w.rt.block_on(env.restore(&saved));
            }
            o
        }
        Variant::Journal => {
            saved = w.rt.block_on(envj.save());
            let o = step_bytes(w, envj, prej, &hb, vupd::Protocol::Tcp);
            if o.changed {
                w.rt.block_on(envj.restore(&saved));
            }
            o
        }
    };
    Ok(out)
}

pub fn journal_env(w: &Worker, zone: &[Rr], history: &[Msg]) -> Env {
    let env = w.rt.block_on(Env::new(zone, EnvOpts { journal: true, ..EnvOpts::default() }));
    for (i, m) in history.iter().enumerate() {
        let bytes = vupd::signed_update(100 + i as u16, m, &w.signer, vupd::NOW);
        let _ = catch(|| w.rt.block_on(async { env.exchange(&bytes).await }));
    }
    env
}

/// `msgs[lo..hi]` in every variant on the state reached by `history` from `zone`.
pub fn run_node(ctx: &vcore::Ctx, w: &Worker, cfg_name: &str, zone: &[Rr], history: &[Msg], msgs: &[MsgSpec], vars: &[Variant], lo: usize, hi: usize, l: &mut Local) {
    let (env, snap) = rebuild(w, zone, false, history);
    let pre = Pre::of(w, &env, snap, false);
    let envj = journal_env(w, zone, history);
    let snapj = snapshot(w, &envj, false);
    if snapj != pre.snap {
        l.eval();
        l.violation("variant[journal:attached]:state-after-the-history-differs", &format!("the same history leaves another zone on a handler with a journal: {:?} vs {:?}", snapj.text(), pre.snap.text()), || {
            json!({"config": cfg_name, "initial_zone": zone.iter().map(vupd::rr_json).collect::<Vec<_>>(), "history": history.iter().map(|m| m.to_json()).collect::<Vec<_>>(), "variant": "journal:attached"})
        });
        return;
    }
    let prej = Pre::of(w, &envj, snapj, false);
    let saved = w.rt.block_on(env.save());
    let cur = pre.serial.unwrap_or(0);
    for mi in lo..hi {
        let msg = msgs[mi].materialise(cur);
        let id = 2000 + (mi % 60000) as u16;
        let base = step(w, &env, &pre, &msg, id);
        if base.changed {
            w.rt.block_on(env.restore(&saved));
        }
        for v in vars {
            l.eval();
            let out = match run_variant(w, v, &env, &pre, &envj, &prej, &msg, id) {
                Ok(o) => o,
                Err(e) => {
                    ctx.machinery_failure(&e);
                    continue;
                }
            };
            if same(&base, &out) {
                l.outcome(&format!("variant-agrees:{}", v.name()));
                if base.ref_accepted && base.changed {
                    l.nontrivial(vupd::digest(&("variant", v.name(), cfg_name, &pre.snap.rrs, &msg)));
                }
            } else {
                let key = format!("variant[{}]:outcome-differs-from-the-plain-run:{}->{}{}", v.name(), rc(&base), rc(&out), if base.post != out.post { ":zone-differs" } else { "" });
                let what = format!(
                    "message {} on zone {:?}: plain run (hickory-encoded, TCP, no journal) {} -> {:?}; variant {} {} -> {:?}",
                    msg.text(),
                    pre.snap.text(),
                    rc(&base),
                    base.post.text(),
                    v.name(),
                    rc(&out),
                    out.post.text()
                );
                l.violation(&key, &what, || {
                    let mut j = crate::case_json(zone, history, &msg);
                    j["variant"] = json!(v.name());
                    j
                });
            }
        }
    }
}

/// Zone sections RFC 2136 3.1.1 rejects, on the initial zone. ZOCOUNT != 1 and ZTYPE != SOA are
/// FORMERR by the letter of 3.1.1 and must change nothing; for a ZNAME / ZCLASS the server is not
/// authoritative for (3.1.2: NOTAUTH) the statement is silent: observed only.
pub fn run_zone_sections(w: &Worker, cfg_name: &str, zone: &[Rr], l: &mut Local) {
    let msgs: Vec<(&str, Msg)> = vec![
        ("add", Msg { prereqs: vec![], updates: vec![vupd::a("b.z.", 60, 7)] }),
        ("delete-rrset", Msg { prereqs: vec![], updates: vec![vupd::empty("a.z.", ru::T_A, ru::CLASS_ANY, 0)] }),
        ("prereq+add", Msg { prereqs: vec![vupd::empty("z.", ru::T_ANY, ru::CLASS_ANY, 0)], updates: vec![vupd::txt("a.a.z.", 60, "t")] }),
        ("empty", Msg::default()),
    ];
    let (env, snap) = rebuild(w, zone, false, &[]);
    let saved = w.rt.block_on(env.save());
    for (lay, expected) in raw::odd_zone_sections() {
        for (mname, msg) in &msgs {
            l.eval();
            let bytes = raw::signed_update(77, msg, &lay, &raw::key1(), vupd::NOW, 300);
            let res = catch(|| w.rt.block_on(async { env.exchange(&bytes).await }));
            let post = snapshot(w, &env, false);
            let changed = post != snap;
            if changed {
                w.rt.block_on(env.restore(&saved));
            }
            let case = || json!({"config": cfg_name, "initial_zone": zone.iter().map(vupd::rr_json).collect::<Vec<_>>(), "history": [], "message": msg.to_json(), "zone_section": lay.name});
            let judged = expected == vec![ru::FORMERR];
            match res {
                Err(p) => l.violation(&format!("zone-section[{}]:panic", lay.name), &format!("the handler panicked: {} at {}", p.msg, vcore::short_loc(&p.loc)), case),
                Ok(Err(e)) => {
                    // no (single) reply: the request was dropped before the update code
                    l.outcome(&format!("obs:zone-section[{}]:no-reply", lay.name));
                    if changed {
                        l.violation(&format!("zone-section[{}]:zone-changed", lay.name), &format!("no reply ({e}) but the zone changed to {:?}", post.text()), case);
                    }
                }
                Ok(Ok(r)) => {
                    let name = ru::rcode_name(r.rcode);
                    if judged {
                        if changed {
                            l.violation(&format!("zone-section[{}]:zone-changed", lay.name), &format!("RFC 2136 3.1.1: FORMERR, nothing changes; message {mname}: rcode {name}, zone now {:?}", post.text()), case);
                        } else if r.rcode == ru::NOERROR {
                            l.violation(&format!("zone-section[{}]:accepted", lay.name), &format!("RFC 2136 3.1.1: FORMERR; message {mname} was answered NOERROR"), case);
                        } else {
                            l.outcome(&format!("zone-section-rejected[{}]:{name}", lay.name));
                        }
                    } else {
                        l.outcome(&format!("obs:zone-section[{}]:{name}{}", lay.name, if changed { ":update-applied" } else { "" }));
                    }
                }
            }
        }
    }
}

#[allow(dead_code)]
pub fn atom_msg(a: AtomSpec) -> MsgSpec {
    MsgSpec { prereqs: vec![], updates: vec![a] }
}
