//! The DNSSEC-enabled sub-grid of C12: a zone signed by the real `add_zone_signing_key_mut` +
//! `secure_zone_mut` (NSEC), served by a `SqliteZoneHandler` with `is_dnssec_enabled = true`, so that
//! every accepted, zone-changing UPDATE goes through the real `secure_zone()` (NSEC chain rebuilt,
//! serial bumped, zone re-signed).
//!
//! Besides the RFC 2136 clauses (judged on the content without RRSIG/NSEC/DNSKEY), a zone that is
//! still well-formed after the update must be a validly signed zone. Judged here, from the store
//! content alone and with the reference code of `vref` (canonical form, signed data, ring):
//!  * every authoritative RRset (not below a zone cut; at a cut only DS and NSEC) has at least one
//!    RRSIG of the zone's key that covers its type, is within its validity period and VERIFIES over
//!    the RRset as it is now;
//!  * the NSEC RRs are exactly the canonical chain of the names that own authoritative data or are
//!    zone cuts: one NSEC per such name, `next` = the next name in canonical order (the last one
//!    points to the apex), type bitmap = the types the name holds now (+ RRSIG, NSEC). The bitmap of
//!    a zone-cut name that also holds other (occluded) types is not judged.
//! Violations are reported on the transition that introduces them.

use std::collections::{BTreeMap, BTreeSet};
use std::time::Duration;

use hickory_proto::dnssec::crypto::Ed25519SigningKey;
use hickory_proto::dnssec::rdata::DNSKEY;
use hickory_proto::dnssec::{DnssecSigner, SigningKey};
use hickory_proto::serialize::binary::{BinEncodable, BinEncoder};
use hickory_server::store::in_memory::InMemoryZoneHandler;
use hickory_server::zone_handler::{AxfrPolicy, ZoneType};
use hickory_server::dnssec::NxProofKind;
use vref::sigref;
use vref::wire::{self, Labels};
use vsim::SimProvider;
use vupd::{Env, Handler, RecordMap, Rr};

pub const T_DS: u16 = 43;
pub const T_RRSIG: u16 = 46;
pub const T_NSEC: u16 = 47;
pub const T_DNSKEY: u16 = 48;
pub const T_NSEC3: u16 = 50;
pub const T_NSEC3PARAM: u16 = 51;

/// Types derived by signing (dropped from the RFC 2136 view of the zone). The DNSKEY RRset is
/// ordinary zone data (an UPDATE may add or delete it) and stays.
pub fn is_dnssec_type(t: u16) -> bool {
    matches!(t, 46 | 47 | 50 | 51)
}

fn zone_signer() -> DnssecSigner {
    // a fixed Ed25519 key (deterministic signatures)
    let seed = [0x5au8; 32];
    let kp = ring::signature::Ed25519KeyPair::from_seed_unchecked(&seed).expect("ed25519 seed");
    let k: Box<dyn SigningKey> = Box::new(Ed25519SigningKey::from_ed25519(kp));
    let pk = k.to_public_key().expect("public key");
    DnssecSigner::new(DNSKEY::from_key(&pk), k, vupd::hname(vupd::ORIGIN), Duration::from_secs(86400))
}

/// A signed zone behind a DNSSEC-enabled `SqliteZoneHandler`.
pub fn signed_env(zone: &[Rr], signers: Vec<hickory_proto::rr::TSigner>) -> Env {
    let serial = zone.iter().find(|r| r.rtype == vref::update::T_SOA).and_then(|r| vref::update::soa_serial(&r.rdata)).unwrap_or(0);
    // an NSEC3PARAM RR in the configured zone selects NSEC3 with its parameters (the RR itself is
    // produced by secure_zone)
    let kind = match zone.iter().find(|r| r.rtype == T_NSEC3PARAM) {
        Some(p) if p.rdata.len() >= 5 => {
            let sl = p.rdata[4] as usize;
            NxProofKind::Nsec3 { algorithm: Default::default(), salt: p.rdata[5..5 + sl].to_vec().into(), iterations: u16::from_be_bytes([p.rdata[2], p.rdata[3]]), opt_out: false }
        }
        _ => NxProofKind::Nsec,
    };
    let mut z = InMemoryZoneHandler::<SimProvider>::empty(vupd::hname(vupd::ORIGIN), ZoneType::Primary, AxfrPolicy::AllowAll, Some(kind));
    for rr in zone.iter().filter(|r| r.rtype != T_NSEC3PARAM) {
        z.upsert_mut(vupd::to_record(rr), serial);
    }
    z.add_zone_signing_key_mut(zone_signer()).expect("add_zone_signing_key_mut");
    z.secure_zone_mut().expect("secure_zone_mut");
    let mut h = Handler::new(z, AxfrPolicy::AllowAll, true, true);
    h.set_tsig_signers(signers);
    Env::from_handler(h)
}

/// The store content as the reference code sees it.
pub struct View {
    /// (owner lower-cased, type) -> (expanded RDATAs, expanded RRSIG RDATAs)
    rrsets: BTreeMap<(Labels, u16), (Vec<Vec<u8>>, Vec<Vec<u8>>)>,
    empty_keys: BTreeSet<(Labels, u16)>,
}

fn expand(rec: &hickory_proto::rr::Record) -> sigref::Rr {
    let mut buf = Vec::with_capacity(128);
    {
        let mut enc = BinEncoder::new(&mut buf);
        rec.emit(&mut enc).expect("record encodes");
    }
    let raw = wire::read_record(&buf, 0).expect("walker reads the record");
    sigref::expand(&buf, &raw)
}

pub fn view(map: &RecordMap) -> View {
    let mut v = View { rrsets: BTreeMap::new(), empty_keys: BTreeSet::new() };
    for (k, set) in map.iter() {
        let probe = expand(&hickory_proto::rr::Record::update0(hickory_proto::rr::Name::from(&k.name), 0, k.record_type).into_record_of_rdata());
        let key = (wire::lower(&probe.owner), probe.rtype);
        if set.is_empty() {
            v.empty_keys.insert(key);
            continue;
        }
        let rds: Vec<Vec<u8>> = set.records_without_rrsigs().map(|r| expand(r).rdata).collect();
        let sigs: Vec<Vec<u8>> = set.rrsigs().iter().map(|r| expand(r).rdata).collect();
        v.rrsets.insert(key, (rds, sigs));
    }
    v
}

fn tname(t: u16) -> String {
    match t {
        43 => "DS".into(),
        47 => "NSEC".into(),
        48 => "DNSKEY".into(),
        1 | 16 => "D".into(),
        t => vupd::type_name(t),
    }
}

/// The violated clauses of a signed zone, each as (key scene, description).
pub fn check(v: &View, now: u64) -> BTreeSet<(String, String)> {
    let mut out = BTreeSet::new();
    let origin = vref::update::name_from_str(vupd::ORIGIN);
    let below = |anc: &Labels, n: &Labels| n.len() > anc.len() && n[n.len() - anc.len()..] == anc[..];
    let cuts: BTreeSet<&Labels> = v.rrsets.keys().filter(|(n, t)| *t == vref::update::T_NS && *n != origin).map(|(n, _)| n).collect();
    let below_cut = |n: &Labels| cuts.iter().any(|c| below(c, n));
    // the zone's keys
    let keys: Vec<sigref::Dnskey> = v.rrsets.get(&(origin.clone(), T_DNSKEY)).map(|(r, _)| r.iter().filter_map(|d| sigref::parse_dnskey(d)).collect()).unwrap_or_default();
    let tags: Vec<(u16, &sigref::Dnskey)> = v.rrsets.get(&(origin.clone(), T_DNSKEY)).map(|(r, _)| r.iter().map(|d| sigref::key_tag(d)).zip(keys.iter()).collect()).unwrap_or_default();
    if keys.is_empty() {
        out.insert(("dnssec:no-dnskey-at-apex".to_string(), "the signed zone has no DNSKEY RRset at its apex".to_string()));
    }
    // 1. every authoritative RRset is validly signed
    for ((name, rtype), (rds, sigs)) in &v.rrsets {
        if *rtype == T_RRSIG || below_cut(name) || (cuts.contains(name) && *rtype != T_DS && *rtype != T_NSEC) {
            continue;
        }
        let canon: Vec<Vec<u8>> = rds.iter().filter_map(|r| sigref::canonical_rdata(*rtype, r)).collect();
        let mut reason = "no-rrsig-covering-the-type";
        let mut ok = false;
        for s in sigs {
            let Some(sig) = sigref::parse_rrsig(s) else { continue };
            if sig.type_covered != *rtype {
                continue;
            }
            if wire::lower(&sig.signer) != origin {
                reason = "signer-is-not-the-zone";
                continue;
            }
            if !(sig.inception as u64 <= now && now <= sig.expiration as u64) {
                reason = "outside-validity-period";
                continue;
            }
            let Some((_, key)) = tags.iter().find(|(t, k)| *t == sig.key_tag && k.algorithm == sig.algorithm) else {
                reason = "no-matching-dnskey";
                continue;
            };
            let Some(data) = sigref::signed_data(&sig, name, 1, *rtype, &canon, false) else {
                reason = "labels-field";
                continue;
            };
            match sigref::verify(sig.algorithm, &key.key, &data, &sig.signature) {
                Some(true) => {
                    ok = true;
                    break;
                }
                _ => reason = "signature-does-not-verify-over-the-current-rrset",
            }
        }
        if !ok {
            let role = if *name == origin { "@" } else { "n" };
            out.insert((
                format!("dnssec:rrset-without-valid-rrsig:{role}/{}:{reason}", tname(*rtype)),
                format!("authoritative RRset {} {} has no RRSIG that verifies ({reason}; {} RRSIGs stored)", vupd::name_str(name), vupd::type_name(*rtype), sigs.len()),
            ));
        }
    }
    // 2'. an NSEC3 zone: the NSEC3 RRs are exactly the RFC 5155 7.1 chain of the current content
    if let Some((params, _)) = v.rrsets.get(&(origin.clone(), T_NSEC3PARAM)) {
        check_nsec3(v, &origin, params, &mut out);
        return out;
    }
    // 2. the NSEC chain is the canonical chain of the current content
    let mut owners: Vec<&Labels> = v.rrsets.iter().filter(|((n, t), _)| *t != T_NSEC && *t != T_RRSIG && !below_cut(n)).map(|((n, _), _)| n).collect::<BTreeSet<_>>().into_iter().collect();
    owners.sort_by(|a, b| vref::name::canonical_cmp(a, b));
    let nsec_owners: BTreeSet<&Labels> = v.rrsets.keys().filter(|(_, t)| *t == T_NSEC).map(|(n, _)| n).collect();
    let has_empty = |n: &Labels| v.empty_keys.iter().any(|(m, _)| m == n);
    for n in &nsec_owners {
        if !owners.contains(n) {
            let why = if has_empty(n) { "name-holds-only-empty-rrset-keys" } else if below_cut(n) { "name-below-a-zone-cut" } else { "name-holds-no-data" };
            out.insert((format!("dnssec:nsec-chain:nsec-at-a-name-without-data:{why}"), format!("NSEC at {} although the name owns no authoritative data ({why})", vupd::name_str(n))));
        }
    }
    for (i, n) in owners.iter().enumerate() {
        let Some((rds, _)) = v.rrsets.get(&((*n).clone(), T_NSEC)) else {
            out.insert(("dnssec:nsec-chain:name-without-nsec".to_string(), format!("no NSEC at {} although the name owns data", vupd::name_str(n))));
            continue;
        };
        if rds.len() != 1 {
            out.insert(("dnssec:nsec-chain:several-nsec-at-one-name".to_string(), format!("{} NSEC RRs at {}", rds.len(), vupd::name_str(n))));
            continue;
        }
        let Ok((next, p)) = wire::read_name(&rds[0], 0) else { continue };
        let want_next = owners[(i + 1) % owners.len()];
        if wire::lower(&next) != **want_next {
            // which name does it point to?
            let target = wire::lower(&next);
            let why = if has_empty(&target) && !owners.contains(&&target) { "points-to-a-name-with-only-empty-rrset-keys" } else if below_cut(&target) { "points-below-a-zone-cut" } else { "wrong-next-name" };
            out.insert((format!("dnssec:nsec-chain:{why}"), format!("NSEC at {} points to {}, the next name with data is {}", vupd::name_str(n), vupd::name_str(&target), vupd::name_str(want_next))));
        }
        let types_here: Vec<u16> = v.rrsets.keys().filter(|(m, t)| m == *n && *t != T_RRSIG).map(|(_, t)| *t).collect();
        if cuts.contains(n) && types_here.iter().any(|t| !matches!(*t, 2 | 43 | 47)) {
            // occluded data at a cut: which of it belongs into the bitmap is not judged
            continue;
        }
        let mut want: Vec<u16> = types_here.clone();
        want.extend([T_RRSIG, T_NSEC]);
        let want_bitmap = vref::canon::type_bitmap(&want);
        if rds[0][p..] != want_bitmap[..] {
            let empties: Vec<u16> = v.empty_keys.iter().filter(|(m, _)| m == *n).map(|(_, t)| *t).collect();
            let mut with_empty = want.clone();
            with_empty.extend(empties.iter().cloned());
            let why = if !empties.is_empty() && rds[0][p..] == vref::canon::type_bitmap(&with_empty)[..] { "lists-the-type-of-an-empty-rrset-key" } else { "wrong-type-bitmap" };
            out.insert((
                format!("dnssec:nsec-chain:{why}"),
                format!("NSEC at {} has type bitmap {} but the name holds {:?} (+RRSIG, NSEC)", vupd::name_str(n), vcore::hex::enc(&rds[0][p..]), types_here.iter().map(|t| vupd::type_name(*t)).collect::<Vec<_>>()),
            ));
        }
    }
    out
}


/// NSEC3 zone: owner hashes, next pointers and type bitmaps against `vref::denial::nsec3_chain`
/// (RFC 5155 7.1: every authoritative name, every delegation, every empty non-terminal). States
/// that hold empty RRset keys are not judged here (the open empty-key finding shows in the NSEC
/// sub-grid; which of its many shapes an NSEC3 chain takes adds nothing).
fn check_nsec3(v: &View, origin: &Labels, params: &[Vec<u8>], out: &mut BTreeSet<(String, String)>) {
    use vref::zone as vz;
    if !v.empty_keys.is_empty() {
        return;
    }
    let Some(p) = params.first().filter(|p| p.len() >= 5) else {
        out.insert(("dnssec:nsec3-chain:bad-nsec3param".into(), "NSEC3PARAM RDATA too short".into()));
        return;
    };
    let iterations = u16::from_be_bytes([p[2], p[3]]);
    let salt = p[5..5 + p[4] as usize].to_vec();
    let mut zone = vz::Zone::new(vz::Name(origin.clone()));
    for ((name, rtype), (rds, _)) in &v.rrsets {
        if matches!(*rtype, T_RRSIG | T_NSEC | T_NSEC3 | T_NSEC3PARAM) || rds.is_empty() {
            continue;
        }
        zone.add(&vz::Name(name.clone()), *rtype, vz::RData::Other("x".into()));
    }
    // occluded data at a cut (a name holding NS next to other types): which of it belongs into the
    // bitmap is not judged (as in the NSEC sub-grid)
    let occluded_cuts: BTreeSet<Vec<u8>> = v
        .rrsets
        .keys()
        .filter(|(n, t)| *t == 2 && n != origin)
        .filter(|(n, _)| v.rrsets.keys().any(|(m, t)| m == n && !matches!(*t, 2 | 43 | T_RRSIG | T_NSEC3)))
        .map(|(n, _)| vref::denial::nsec3_hash(&vz::Name(n.clone()), &salt, iterations))
        .collect();
    let chain = vref::denial::nsec3_chain(&zone, &salt, iterations, false);
    // at a delegation hickory also sets the RRSIG bit (the NS RRset there is not signed; RFC 5155
    // 7.1 lists RRSIG only for names that own a signed RRset): chain-construction detail of the
    // signer, not of the update path - either bitmap is taken at zone cuts
    let alt: BTreeMap<Vec<u8>, Vec<u8>> = chain
        .iter()
        .filter(|r| r.types.contains(&2) && !r.types.contains(&6))
        .map(|r| {
            let mut t = r.types.clone();
            t.insert(T_RRSIG);
            (r.hash.clone(), vref::denial::type_bitmap_wire(&t))
        })
        .collect();
    let want: BTreeMap<Vec<u8>, (Vec<u8>, Vec<u8>)> = chain.into_iter().map(|r| (r.hash.clone(), (r.next.clone(), vref::denial::type_bitmap_wire(&r.types)))).collect();
    let mut got: BTreeMap<Vec<u8>, (Vec<u8>, Vec<u8>)> = BTreeMap::new();
    for ((name, rtype), (rds, _)) in &v.rrsets {
        if *rtype != T_NSEC3 {
            continue;
        }
        let hash = name.first().and_then(|l| vref::denial::base32hex_decode(&String::from_utf8_lossy(l).to_ascii_lowercase()));
        let (Some(hash), Some(rd)) = (hash, rds.first()) else {
            out.insert(("dnssec:nsec3-chain:unreadable-nsec3".into(), format!("NSEC3 at {} is not readable", vupd::name_str(name))));
            continue;
        };
        if rds.len() != 1 || rd.len() < 6 {
            out.insert(("dnssec:nsec3-chain:several-nsec3-at-one-name".into(), format!("{} NSEC3 RRs at {}", rds.len(), vupd::name_str(name))));
            continue;
        }
        let sl = rd[4] as usize;
        let hl = rd[5 + sl] as usize;
        if u16::from_be_bytes([rd[2], rd[3]]) != iterations || rd[5..5 + sl] != salt[..] {
            out.insert(("dnssec:nsec3-chain:parameters-differ-from-nsec3param".into(), format!("NSEC3 at {} has other parameters than the NSEC3PARAM", vupd::name_str(name))));
        }
        got.insert(hash, (rd[6 + sl..6 + sl + hl].to_vec(), rd[6 + sl + hl..].to_vec()));
    }
    for (h, (next, bm)) in &want {
        match got.get(h) {
            None => {
                out.insert(("dnssec:nsec3-chain:name-without-nsec3".into(), format!("no NSEC3 for hash {} (RFC 5155 7.1 wants one per authoritative name, delegation and empty non-terminal)", vref::denial::base32hex(h))));
            }
            Some((gn, gb)) => {
                if gn != next {
                    out.insert(("dnssec:nsec3-chain:wrong-next-hash".into(), format!("NSEC3 {} points to {}, the next hash in the chain is {}", vref::denial::base32hex(h), vref::denial::base32hex(gn), vref::denial::base32hex(next))));
                }
                if gb != bm && alt.get(h) != Some(gb) && !occluded_cuts.contains(h) {
                    out.insert(("dnssec:nsec3-chain:wrong-type-bitmap".into(), format!("NSEC3 {} has type bitmap {}, RFC 5155 7.1 gives {}", vref::denial::base32hex(h), vcore::hex::enc(gb), vcore::hex::enc(bm))));
                }
            }
        }
    }
    for h in got.keys() {
        if !want.contains_key(h) {
            out.insert(("dnssec:nsec3-chain:nsec3-for-a-name-that-has-none".into(), format!("NSEC3 {} matches no authoritative name, delegation or empty non-terminal of the zone", vref::denial::base32hex(h))));
        }
    }
}
