//! The DNSSEC-enabled sub-grid of C12: a zone signed by the real `add_zone_signing_key_mut` +
//! `secure_zone_mut` (NSEC), served by a `SqliteZoneHandler` with `is_dnssec_enabled = true`, so that
//! every accepted, zone-changing UPDATE goes through the real `secure_zone()` (NSEC chain rebuilt,
//! serial bumped, zone re-signed).
//!
//! Besides the RFC 2136 clauses (judged on the content without RRSIG/NSEC/DNSKEY), a zone that is
//! still well-formed after the update must be a validly signed zone. Judged here, from the store
//! content alone and with the reference code of `vref` (canonical form, signed data, ring):
//!  * every authoritative RRset (not below a zone cut; at a cut only DS and NSEC) has at least one
//!    RRSIG of the zone's key that covers its type, is within its validity period and VERIFIES over
//!    the RRset as it is now;
//!  * the NSEC RRs are exactly the canonical chain of the names that own authoritative data or are
//!    zone cuts: one NSEC per such name, `next` = the next name in canonical order (the last one
//!    points to the apex), type bitmap = the types the name holds now (+ RRSIG, NSEC). The bitmap of
//!    a zone-cut name that also holds other (occluded) types is not judged.
//! Violations are reported on the transition that introduces them.

use std::collections::{BTreeMap, BTreeSet};
use std::time::Duration;

use hickory_proto::dnssec::crypto::Ed25519SigningKey;
use hickory_proto::dnssec::rdata::DNSKEY;
use hickory_proto::dnssec::{DnssecSigner, SigningKey};
use hickory_proto::serialize::binary::{BinEncodable, BinEncoder};
use hickory_server::store::in_memory::InMemoryZoneHandler;
use hickory_server::zone_handler::{AxfrPolicy, ZoneType};
use hickory_server::dnssec::NxProofKind;
use vref::sigref;
use vref::wire::{self, Labels};
use vsim::SimProvider;
use vupd::{Env, Handler, RecordMap, Rr};

pub const T_DS: u16 = 43;
pub const T_RRSIG: u16 = 46;
pub const T_NSEC: u16 = 47;
pub const T_DNSKEY: u16 = 48;

/// Types derived by signing (dropped from the RFC 2136 view of the zone). The DNSKEY RRset is
/// ordinary zone data (an UPDATE may add or delete it) and stays.
pub fn is_dnssec_type(t: u16) -> bool {
    matches!(t, 46 | 47 | 50 | 51)
}

fn zone_signer() -> DnssecSigner {
    // a fixed Ed25519 key (deterministic signatures)
    let seed = [0x5au8; 32];
    let kp = ring::signature::Ed25519KeyPair::from_seed_unchecked(&seed).expect("ed25519 seed");
    let k: Box<dyn SigningKey> = Box::new(Ed25519SigningKey::from_ed25519(kp));
    let pk = k.to_public_key().expect("public key");
    DnssecSigner::new(DNSKEY::from_key(&pk), k, vupd::hname(vupd::ORIGIN), Duration::from_secs(86400))
}

/// A signed zone behind a DNSSEC-enabled `SqliteZoneHandler`.
pub fn signed_env(zone: &[Rr], signers: Vec<hickory_proto::rr::TSigner>) -> Env {
    let serial = zone.iter().find(|r| r.rtype == vref::update::T_SOA).and_then(|r| vref::update::soa_serial(&r.rdata)).unwrap_or(0);
    let mut z = InMemoryZoneHandler::<SimProvider>::empty(vupd::hname(vupd::ORIGIN), ZoneType::Primary, AxfrPolicy::AllowAll, Some(NxProofKind::Nsec));
    for rr in zone {
        z.upsert_mut(vupd::to_record(rr), serial);
    }
    z.add_zone_signing_key_mut(zone_signer()).expect("add_zone_signing_key_mut");
    z.secure_zone_mut().expect("secure_zone_mut");
    let mut h = Handler::new(z, AxfrPolicy::AllowAll, true, true);
    h.set_tsig_signers(signers);
    Env::from_handler(h)
}

/// The store content as the reference code sees it.
pub struct View {
    /// (owner lower-cased, type) -> (expanded RDATAs, expanded RRSIG RDATAs)
    rrsets: BTreeMap<(Labels, u16), (Vec<Vec<u8>>, Vec<Vec<u8>>)>,
    empty_keys: BTreeSet<(Labels, u16)>,
}

fn expand(rec: &hickory_proto::rr::Record) -> sigref::Rr {
    let mut buf = Vec::with_capacity(128);
    {
        let mut enc = BinEncoder::new(&mut buf);
        rec.emit(&mut enc).expect("record encodes");
    }
    let raw = wire::read_record(&buf, 0).expect("walker reads the record");
    sigref::expand(&buf, &raw)
}

pub fn view(map: &RecordMap) -> View {
    let mut v = View { rrsets: BTreeMap::new(), empty_keys: BTreeSet::new() };
    for (k, set) in map.iter() {
        let probe = expand(&hickory_proto::rr::Record::update0(hickory_proto::rr::Name::from(&k.name), 0, k.record_type).into_record_of_rdata());
        let key = (wire::lower(&probe.owner), probe.rtype);
        if set.is_empty() {
            v.empty_keys.insert(key);
            continue;
        }
        let rds: Vec<Vec<u8>> = set.records_without_rrsigs().map(|r| expand(r).rdata).collect();
        let sigs: Vec<Vec<u8>> = set.rrsigs().iter().map(|r| expand(r).rdata).collect();
        v.rrsets.insert(key, (rds, sigs));
    }
    v
}

fn tname(t: u16) -> String {
    match t {
        43 => "DS".into(),
        47 => "NSEC".into(),
        48 => "DNSKEY".into(),
        1 | 16 => "D".into(),
        t => vupd::type_name(t),
    }
}

/// The violated clauses of a signed zone, each as (key scene, description).
pub fn check(v: &View, now: u64) -> BTreeSet<(String, String)> {
    let mut out = BTreeSet::new();
    let origin = vref::update::name_from_str(vupd::ORIGIN);
    let below = |anc: &Labels, n: &Labels| n.len() > anc.len() && n[n.len() - anc.len()..] == anc[..];
    let cuts: BTreeSet<&Labels> = v.rrsets.keys().filter(|(n, t)| *t == vref::update::T_NS && *n != origin).map(|(n, _)| n).collect();
    let below_cut = |n: &Labels| cuts.iter().any(|c| below(c, n));
    // the zone's keys
    let keys: Vec<sigref::Dnskey> = v.rrsets.get(&(origin.clone(), T_DNSKEY)).map(|(r, _)| r.iter().filter_map(|d| sigref::parse_dnskey(d)).collect()).unwrap_or_default();
    let tags: Vec<(u16, &sigref::Dnskey)> = v.rrsets.get(&(origin.clone(), T_DNSKEY)).map(|(r, _)| r.iter().map(|d| sigref::key_tag(d)).zip(keys.iter()).collect()).unwrap_or_default();
    if keys.is_empty() {
        out.insert(("dnssec:no-dnskey-at-apex".to_string(), "the signed zone has no DNSKEY RRset at its apex".to_string()));
    }
    // 1. every authoritative RRset is validly signed
    for ((name, rtype), (rds, sigs)) in &v.rrsets {
        if *rtype == T_RRSIG || below_cut(name) || (cuts.contains(name) && *rtype != T_DS && *rtype != T_NSEC) {
            continue;
        }
        let canon: Vec<Vec<u8>> = rds.iter().filter_map(|r| sigref::canonical_rdata(*rtype, r)).collect();
        let mut reason = "no-rrsig-covering-the-type";
        let mut ok = false;
        for s in sigs {
            let Some(sig) = sigref::parse_rrsig(s) else { continue };
            if sig.type_covered != *rtype {
                continue;
            }
            if wire::lower(&sig.signer) != origin {
                reason = "signer-is-not-the-zone";
                continue;
            }
            if !(sig.inception as u64 <= now && now <= sig.expiration as u64) {
                reason = "outside-validity-period";
                continue;
            }
            let Some((_, key)) = tags.iter().find(|(t, k)| *t == sig.key_tag && k.algorithm == sig.algorithm) else {
                reason = "no-matching-dnskey";
                continue;
            };
            let Some(data) = sigref::signed_data(&sig, name, 1, *rtype, &canon, false) else {
                reason = "labels-field";
                continue;
            };
            match sigref::verify(sig.algorithm, &key.key, &data, &sig.signature) {
                Some(true) => {
                    ok = true;
                    break;
                }
                _ => reason = "signature-does-not-verify-over-the-current-rrset",
            }
        }
        if !ok {
            let role = if *name == origin { "@" } else { "n" };
            out.insert((
                format!("dnssec:rrset-without-valid-rrsig:{role}/{}:{reason}", tname(*rtype)),
                format!("authoritative RRset {} {} has no RRSIG that verifies ({reason}; {} RRSIGs stored)", vupd::name_str(name), vupd::type_name(*rtype), sigs.len()),
            ));
        }
    }
    // 2. the NSEC chain is the canonical chain of the current content
    let mut owners: Vec<&Labels> = v.rrsets.iter().filter(|((n, t), _)| *t != T_NSEC && *t != T_RRSIG && !below_cut(n)).map(|((n, _), _)| n).collect::<BTreeSet<_>>().into_iter().collect();
    owners.sort_by(|a, b| vref::name::canonical_cmp(a, b));
    let nsec_owners: BTreeSet<&Labels> = v.rrsets.keys().filter(|(_, t)| *t == T_NSEC).map(|(n, _)| n).collect();
    let has_empty = |n: &Labels| v.empty_keys.iter().any(|(m, _)| m == n);
    for n in &nsec_owners {
        if !owners.contains(n) {
            let why = if has_empty(n) { "name-holds-only-empty-rrset-keys" } else if below_cut(n) { "name-below-a-zone-cut" } else { "name-holds-no-data" };
            out.insert((format!("dnssec:nsec-chain:nsec-at-a-name-without-data:{why}"), format!("NSEC at {} although the name owns no authoritative data ({why})", vupd::name_str(n))));
        }
    }
    for (i, n) in owners.iter().enumerate() {
        let Some((rds, _)) = v.rrsets.get(&((*n).clone(), T_NSEC)) else {
            out.insert(("dnssec:nsec-chain:name-without-nsec".to_string(), format!("no NSEC at {} although the name owns data", vupd::name_str(n))));
            continue;
        };
        if rds.len() != 1 {
            out.insert(("dnssec:nsec-chain:several-nsec-at-one-name".to_string(), format!("{} NSEC RRs at {}", rds.len(), vupd::name_str(n))));
            continue;
        }
        let Ok((next, p)) = wire::read_name(&rds[0], 0) else { continue };
        let want_next = owners[(i + 1) % owners.len()];
        if wire::lower(&next) != **want_next {
            // which name does it point to?
            let target = wire::lower(&next);
            let why = if has_empty(&target) && !owners.contains(&&target) { "points-to-a-name-with-only-empty-rrset-keys" } else if below_cut(&target) { "points-below-a-zone-cut" } else { "wrong-next-name" };
            out.insert((format!("dnssec:nsec-chain:{why}"), format!("NSEC at {} points to {}, the next name with data is {}", vupd::name_str(n), vupd::name_str(&target), vupd::name_str(want_next))));
        }
        let types_here: Vec<u16> = v.rrsets.keys().filter(|(m, t)| m == *n && *t != T_RRSIG).map(|(_, t)| *t).collect();
        if cuts.contains(n) && types_here.iter().any(|t| !matches!(*t, 2 | 43 | 47)) {
            // occluded data at a cut: which of it belongs into the bitmap is not judged
            continue;
        }
        let mut want: Vec<u16> = types_here.clone();
        want.extend([T_RRSIG, T_NSEC]);
        let want_bitmap = vref::canon::type_bitmap(&want);
        if rds[0][p..] != want_bitmap[..] {
            let empties: Vec<u16> = v.empty_keys.iter().filter(|(m, _)| m == *n).map(|(_, t)| *t).collect();
            let mut with_empty = want.clone();
            with_empty.extend(empties.iter().cloned());
            let why = if !empties.is_empty() && rds[0][p..] == vref::canon::type_bitmap(&with_empty)[..] { "lists-the-type-of-an-empty-rrset-key" } else { "wrong-type-bitmap" };
            out.insert((
                format!("dnssec:nsec-chain:{why}"),
                format!("NSEC at {} has type bitmap {} but the name holds {:?} (+RRSIG, NSEC)", vupd::name_str(n), vcore::hex::enc(&rds[0][p..]), types_here.iter().map(|t| vupd::type_name(*t)).collect::<Vec<_>>()),
            ));
        }
    }
    out
}
