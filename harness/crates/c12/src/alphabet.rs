//! The declared universe of C12: initial zones, prerequisite atoms, update atoms, messages.

use vref::update as ru;
use vupd::{a, cname, empty, ns, soa, txt, with_class, Msg, Rr};

pub const OWNERS: [&str; 4] = ["z.", "a.z.", "b.z.", "a.a.z."];
pub const TYPES: [u16; 5] = [ru::T_A, ru::T_TXT, ru::T_CNAME, ru::T_NS, ru::T_SOA];

/// SOA atoms are relative to the zone's current serial.
#[derive(Clone, Debug, PartialEq, Eq, Hash)]
pub struct SoaRel {
    pub delta: u32,
    pub minimum: u32,
}

#[derive(Clone, Debug, PartialEq, Eq, Hash)]
pub struct AtomSpec {
    pub rr: Rr,
    pub soa: Option<SoaRel>,
}

impl AtomSpec {
    fn plain(rr: Rr) -> AtomSpec {
        AtomSpec { rr, soa: None }
    }
    fn soa_rel(name: &str, class: u16, ttl: u32, delta: u32, minimum: u32) -> AtomSpec {
        AtomSpec { rr: with_class(soa(name, ttl, 0, minimum), class), soa: Some(SoaRel { delta, minimum }) }
    }
    pub fn materialise(&self, cur: u32) -> Rr {
        match &self.soa {
            None => self.rr.clone(),
            Some(s) => {
                let mut rr = self.rr.clone();
                rr.rdata = ru::soa_rdata("n1.o.", "h.o.", cur.wrapping_add(s.delta), 1, 1, 1, s.minimum);
                rr
            }
        }
    }
}

#[derive(Clone, Debug, PartialEq, Eq, Hash, Default)]
pub struct MsgSpec {
    pub prereqs: Vec<AtomSpec>,
    pub updates: Vec<AtomSpec>,
}

impl MsgSpec {
    pub fn materialise(&self, cur: u32) -> Msg {
        Msg { prereqs: self.prereqs.iter().map(|a| a.materialise(cur)).collect(), updates: self.updates.iter().map(|a| a.materialise(cur)).collect() }
    }
}

pub struct Config {
    pub name: String,
    pub zone: Vec<Rr>,
    pub serial0: u32,
    /// which M1 alphabet the BFS uses from this root: 0 = full, 1 = serial-focused
    pub serial_focus: bool,
    /// the zone is signed (NSEC) and served by a DNSSEC-enabled handler: every accepted changing
    /// update runs the real secure_zone()
    pub dnssec: bool,
}

fn base(serial: u32) -> Vec<Rr> {
    vec![soa("z.", 60, serial, 1), ns("z.", 60, "n1.o.")]
}

pub fn configs(thorough: bool) -> Vec<Config> {
    let mut v = vec![];
    // Z0: the minimal zone
    v.push(Config { name: "Z0:minimal/serial=1".into(), zone: base(1), serial0: 1, serial_focus: false, dnssec: false });
    // Z1: multi-valued sets, a CNAME, a name below a name
    let mut z1 = base(1);
    z1.extend([ns("z.", 60, "n2.o."), a("a.z.", 60, 1), a("a.z.", 60, 2), txt("a.z.", 60, "t"), cname("b.z.", 60, "a.z."), a("a.a.z.", 60, 1)]);
    v.push(Config { name: "Z1:rich/serial=1".into(), zone: z1, serial0: 1, serial_focus: false, dnssec: false });
    // Z2: a delegation with glue below it, single-valued sets
    let mut z2 = base(1);
    z2.extend([ns("a.z.", 60, "n1.o."), a("a.a.z.", 60, 1), a("b.z.", 60, 1)]);
    v.push(Config { name: "Z2:delegation/serial=1".into(), zone: z2, serial0: 1, serial_focus: false, dnssec: false });
    // Z3: a wildcard next to the universe's names
    let mut z3 = base(1);
    z3.extend([txt("*.z.", 60, "t"), a("a.z.", 60, 1)]);
    v.push(Config { name: "Z3:wildcard/serial=1".into(), zone: z3, serial0: 1, serial_focus: false, dnssec: false });
    // serial regimes: half-way and just below the wrap
    for s in [0, (1u32 << 31) - 1, u32::MAX - 1] {
        let mut z = base(s);
        z.push(a("a.z.", 60, 1));
        v.push(Config { name: format!("Z0+a:serial={s}"), zone: z, serial0: s, serial_focus: true, dnssec: false });
    }
    // the DNSSEC-enabled sub-grid: minimal, rich and delegation zones, signed
    let mut d1 = base(1);
    d1.extend([ns("z.", 60, "n2.o."), a("a.z.", 60, 1), a("a.z.", 60, 2), txt("a.z.", 60, "t"), cname("b.z.", 60, "a.z."), a("a.a.z.", 60, 1)]);
    let mut d2 = base(1);
    d2.extend([ns("a.z.", 60, "n1.o."), a("a.a.z.", 60, 1), a("b.z.", 60, 1)]);
    // the same rich zone and a delegation + empty non-terminal zone signed with NSEC3 (salt abcd, 2 iterations)
    let nsec3param = Rr::new("z.", 51, ru::CLASS_IN, 0, vec![1, 0, 0, 2, 2, 0xab, 0xcd]);
    let mut d3 = d1.clone();
    d3.push(nsec3param.clone());
    let mut d4 = d2.clone();
    d4.push(nsec3param);
    for (name, zone) in [("D0:minimal/signed", base(1)), ("D1:rich/signed", d1), ("D2:delegation/signed", d2), ("D3:rich/signed-nsec3", d3), ("D4:delegation/signed-nsec3", d4)] {
        v.push(Config { name: name.into(), zone, serial0: 1, serial_focus: false, dnssec: true });
    }
    let _ = thorough;
    v
}

/// `rr` with its owner name spelled with the given labels (case variants of the stored names).
fn owner_cased(mut rr: Rr, labels: &[&str]) -> Rr {
    rr.name = labels.iter().map(|l| l.as_bytes().to_vec()).collect();
    rr
}

/// RDATA of NS/CNAME: the target name spelled with the given labels.
fn target_cased(mut rr: Rr, labels: &[&str]) -> Rr {
    let l: vref::wire::Labels = labels.iter().map(|l| l.as_bytes().to_vec()).collect();
    let mut rd = vec![];
    vref::wire::emit_name(&l, &mut rd);
    rr.rdata = rd;
    rr
}

pub fn prereq_atoms() -> Vec<AtomSpec> {
    let mut v = vec![];
    for o in OWNERS {
        v.push(AtomSpec::plain(empty(o, ru::T_ANY, ru::CLASS_ANY, 0))); // name is in use
        v.push(AtomSpec::plain(empty(o, ru::T_ANY, ru::CLASS_NONE, 0))); // name is not in use
        for t in TYPES {
            v.push(AtomSpec::plain(empty(o, t, ru::CLASS_ANY, 0))); // RRset exists (value independent)
            v.push(AtomSpec::plain(empty(o, t, ru::CLASS_NONE, 0))); // RRset does not exist
        }
        // RRset exists (value dependent)
        for rr in [a(o, 0, 1), a(o, 0, 2), txt(o, 0, "t"), cname(o, 0, "a.z."), cname(o, 0, "b.z."), ns(o, 0, "n1.o."), ns(o, 0, "n2.o.")] {
            v.push(AtomSpec::plain(rr));
        }
    }
    v.push(AtomSpec::soa_rel("z.", ru::CLASS_IN, 0, 0, 1));
    v.push(AtomSpec::soa_rel("z.", ru::CLASS_IN, 0, 0, 2));
    v.push(AtomSpec::soa_rel("z.", ru::CLASS_IN, 0, 1, 1));
    // malformed variants
    v.push(AtomSpec::plain(empty("a.z.", ru::T_ANY, ru::CLASS_ANY, 60))); // TTL != 0
    v.push(AtomSpec::plain(a("a.z.", 60, 1))); // TTL != 0, zone class
    v.push(AtomSpec::plain(with_class(a("a.z.", 0, 1), ru::CLASS_ANY))); // RDATA with class ANY
    v.push(AtomSpec::plain(with_class(a("a.z.", 0, 1), ru::CLASS_NONE))); // RDATA with class NONE
    v.push(AtomSpec::plain(with_class(a("a.z.", 0, 1), ru::CLASS_CH))); // foreign class
    v.push(AtomSpec::plain(empty("x.o.", ru::T_ANY, ru::CLASS_ANY, 0))); // out of zone
    v.push(AtomSpec::plain(empty("x.o.", ru::T_ANY, ru::CLASS_NONE, 0)));
    v.push(AtomSpec::plain(a("x.o.", 0, 1)));
    // names spelled in another case than the stored ones (RFC 2136 1.1.2: compared case-insensitively)
    v.push(AtomSpec::plain(owner_cased(empty("a.z.", ru::T_ANY, ru::CLASS_ANY, 0), &["A", "Z"])));
    v.push(AtomSpec::plain(owner_cased(empty("a.z.", ru::T_ANY, ru::CLASS_NONE, 0), &["A", "Z"])));
    v.push(AtomSpec::plain(owner_cased(empty("a.z.", ru::T_A, ru::CLASS_ANY, 0), &["A", "z"])));
    v.push(AtomSpec::plain(owner_cased(empty("a.z.", ru::T_A, ru::CLASS_NONE, 0), &["a", "Z"])));
    v.push(AtomSpec::plain(owner_cased(a("a.z.", 0, 1), &["A", "Z"])));
    v.push(AtomSpec::plain(target_cased(cname("b.z.", 0, "a.z."), &["A", "Z"])));
    v.push(AtomSpec::plain(target_cased(ns("z.", 0, "n1.o."), &["N1", "O"])));
    // a foreign class with the metavalue forms
    v.push(AtomSpec::plain(empty("a.z.", ru::T_ANY, ru::CLASS_CH, 0)));
    v.push(AtomSpec::plain(empty("a.z.", ru::T_A, ru::CLASS_CH, 0)));
    // a type whose RDATA is opaque octets (NULL, 10): the metavalue forms with empty RDATA are
    // well-formed, with RDATA they are FORMERR like for every other type (audit: the handler's
    // "RDATA is empty" test has an arm of its own for this type)
    v.push(AtomSpec::plain(empty("a.z.", T_NULL, ru::CLASS_ANY, 0)));
    v.push(AtomSpec::plain(empty("a.z.", T_NULL, ru::CLASS_NONE, 0)));
    v.push(AtomSpec::plain(Rr::new("a.z.", T_NULL, ru::CLASS_ANY, 0, vec![0xaa, 0xbb])));
    v.push(AtomSpec::plain(Rr::new("a.z.", T_NULL, ru::CLASS_NONE, 0, vec![0xaa, 0xbb])));
    v.push(AtomSpec::plain(Rr::new("a.z.", T_NULL, ru::CLASS_IN, 0, vec![0xaa, 0xbb]))); // value dependent
    v
}

pub const T_NULL: u16 = 10;

pub fn soa_update_atoms() -> Vec<AtomSpec> {
    let mut v = vec![];
    for delta in [u32::MAX, 0, 1, 2, (1u32 << 31) - 1, 1u32 << 31] {
        v.push(AtomSpec::soa_rel("z.", ru::CLASS_IN, 60, delta, 2));
    }
    v.push(AtomSpec::soa_rel("z.", ru::CLASS_IN, 60, 1, 1)); // only the serial differs
    v.push(AtomSpec::soa_rel("a.z.", ru::CLASS_IN, 60, 1, 2)); // SOA add off the apex
    // delete RR, type SOA
    v.push(AtomSpec::soa_rel("z.", ru::CLASS_NONE, 0, 0, 1));
    v.push(AtomSpec::soa_rel("a.z.", ru::CLASS_NONE, 0, 0, 2));
    v
}

pub fn update_atoms() -> Vec<AtomSpec> {
    let mut v = vec![];
    for o in OWNERS {
        // add to an RRset
        for rr in [a(o, 60, 1), a(o, 60, 2), txt(o, 60, "t"), cname(o, 60, "a.z."), cname(o, 60, "b.z."), ns(o, 60, "n1.o."), ns(o, 60, "n2.o.")] {
            v.push(AtomSpec::plain(rr));
        }
        // the same RDATA with another TTL
        for rr in [a(o, 0, 1), cname(o, 0, "a.z."), ns(o, 0, "n1.o.")] {
            v.push(AtomSpec::plain(rr));
        }
        // delete an RRset / all RRsets of a name
        for t in TYPES {
            v.push(AtomSpec::plain(empty(o, t, ru::CLASS_ANY, 0)));
        }
        v.push(AtomSpec::plain(empty(o, ru::T_ANY, ru::CLASS_ANY, 0)));
        // delete an RR from an RRset
        for rr in [a(o, 0, 1), a(o, 0, 2), txt(o, 0, "t"), cname(o, 0, "a.z."), cname(o, 0, "b.z."), ns(o, 0, "n1.o."), ns(o, 0, "n2.o.")] {
            v.push(AtomSpec::plain(with_class(rr, ru::CLASS_NONE)));
        }
    }
    v.extend(soa_update_atoms());
    // malformed / meta variants (3.4.1 prescan)
    v.push(AtomSpec::plain(empty("a.z.", ru::T_ANY, ru::CLASS_IN, 60))); // zone class, type ANY
    v.push(AtomSpec::plain(empty("a.z.", ru::T_AXFR, ru::CLASS_IN, 60))); // zone class, type AXFR
    v.push(AtomSpec::plain(Rr::new("a.z.", ru::T_MAILB, ru::CLASS_IN, 60, ru::name_wire("n1.o.")))); // zone class, MAILB
    v.push(AtomSpec::plain(empty("a.z.", ru::T_A, ru::CLASS_ANY, 60))); // class ANY, TTL != 0
    v.push(AtomSpec::plain(with_class(a("a.z.", 0, 1), ru::CLASS_ANY))); // class ANY with RDATA
    v.push(AtomSpec::plain(empty("a.z.", ru::T_AXFR, ru::CLASS_ANY, 0))); // class ANY, type AXFR
    v.push(AtomSpec::plain(empty("a.z.", ru::T_MAILB, ru::CLASS_ANY, 0))); // class ANY, type MAILB
    v.push(AtomSpec::plain(with_class(a("a.z.", 60, 1), ru::CLASS_NONE))); // class NONE, TTL != 0
    v.push(AtomSpec::plain(empty("a.z.", ru::T_ANY, ru::CLASS_NONE, 0))); // class NONE, type ANY
    v.push(AtomSpec::plain(with_class(a("a.z.", 60, 1), ru::CLASS_CH))); // foreign class
    v.push(AtomSpec::plain(a("x.o.", 60, 1))); // out of zone
    v.push(AtomSpec::plain(empty("x.o.", ru::T_ANY, ru::CLASS_ANY, 0)));
    v.push(AtomSpec::plain(with_class(a("x.o.", 0, 1), ru::CLASS_NONE)));
    // names spelled in another case than the stored ones
    v.push(AtomSpec::plain(owner_cased(a("a.z.", 60, 2), &["A", "z"])));
    v.push(AtomSpec::plain(owner_cased(a("a.z.", 60, 1), &["A", "Z"])));
    v.push(AtomSpec::plain(owner_cased(with_class(a("a.z.", 0, 1), ru::CLASS_NONE), &["A", "Z"])));
    v.push(AtomSpec::plain(owner_cased(empty("a.z.", ru::T_A, ru::CLASS_ANY, 0), &["a", "Z"])));
    v.push(AtomSpec::plain(owner_cased(empty("a.z.", ru::T_ANY, ru::CLASS_ANY, 0), &["A", "Z"])));
    v.push(AtomSpec::plain(owner_cased(empty("z.", ru::T_NS, ru::CLASS_ANY, 0), &["Z"])));
    v.push(AtomSpec::plain(owner_cased(empty("z.", ru::T_ANY, ru::CLASS_ANY, 0), &["Z"])));
    v.push(AtomSpec::plain(target_cased(cname("b.z.", 60, "a.z."), &["A", "Z"])));
    v.push(AtomSpec::plain(target_cased(with_class(cname("b.z.", 0, "a.z."), ru::CLASS_NONE), &["A", "Z"])));
    v.push(AtomSpec::plain(target_cased(ns("z.", 60, "n1.o."), &["N1", "O"])));
    v.push(AtomSpec::plain(target_cased(with_class(ns("z.", 0, "n2.o."), ru::CLASS_NONE), &["N2", "o"])));
    // a foreign class with the metavalue forms
    v.push(AtomSpec::plain(empty("a.z.", ru::T_A, ru::CLASS_CH, 0)));
    v.push(AtomSpec::plain(empty("a.z.", ru::T_ANY, ru::CLASS_CH, 0)));
    // every query meta type in every class arm of the prescan (3.4.1.2) that has none above
    v.push(AtomSpec::plain(empty("a.z.", ru::T_IXFR, ru::CLASS_IN, 60)));
    v.push(AtomSpec::plain(empty("a.z.", ru::T_MAILA, ru::CLASS_IN, 60)));
    v.push(AtomSpec::plain(empty("a.z.", ru::T_IXFR, ru::CLASS_ANY, 0)));
    v.push(AtomSpec::plain(empty("a.z.", ru::T_MAILA, ru::CLASS_ANY, 0)));
    v.push(AtomSpec::plain(empty("a.z.", ru::T_AXFR, ru::CLASS_NONE, 0)));
    v.push(AtomSpec::plain(empty("a.z.", ru::T_IXFR, ru::CLASS_NONE, 0)));
    v.push(AtomSpec::plain(empty("a.z.", ru::T_MAILB, ru::CLASS_NONE, 0)));
    v.push(AtomSpec::plain(empty("a.z.", ru::T_MAILA, ru::CLASS_NONE, 0)));
    // a zone-class RR of a typed-RDATA type with RDLENGTH 0 (passes the prescan, which looks at the
    // type only): every type the add arm treats specially and one ordinary type, apex and non-apex
    for o in ["z.", "a.z."] {
        for t in [ru::T_SOA, ru::T_CNAME, ru::T_NS, ru::T_A] {
            v.push(AtomSpec::plain(empty(o, t, ru::CLASS_IN, 60)));
        }
    }
    // opaque-RDATA type NULL (10): add, delete RR, delete RRset, and "delete RRset" WITH RDATA (FORMERR)
    v.push(AtomSpec::plain(Rr::new("a.z.", T_NULL, ru::CLASS_IN, 60, vec![0xaa, 0xbb])));
    v.push(AtomSpec::plain(Rr::new("a.z.", T_NULL, ru::CLASS_NONE, 0, vec![0xaa, 0xbb])));
    v.push(AtomSpec::plain(empty("a.z.", T_NULL, ru::CLASS_ANY, 0)));
    v.push(AtomSpec::plain(Rr::new("a.z.", T_NULL, ru::CLASS_ANY, 0, vec![0xaa, 0xbb])));
    v
}

fn product(ps: &[AtomSpec], us: &[AtomSpec]) -> Vec<MsgSpec> {
    let mut v = vec![];
    let mut popt: Vec<Vec<AtomSpec>> = vec![vec![]];
    popt.extend(ps.iter().map(|p| vec![p.clone()]));
    let mut uopt: Vec<Vec<AtomSpec>> = vec![vec![]];
    uopt.extend(us.iter().map(|u| vec![u.clone()]));
    for p in &popt {
        for u in &uopt {
            v.push(MsgSpec { prereqs: p.clone(), updates: u.clone() });
        }
    }
    v
}

/// M1: at most one prerequisite atom x at most one update atom, every form.
pub fn m1() -> Vec<MsgSpec> {
    product(&prereq_atoms(), &update_atoms())
}

pub fn core_prereqs() -> Vec<AtomSpec> {
    [
        empty("a.z.", ru::T_ANY, ru::CLASS_ANY, 0),
        empty("b.z.", ru::T_ANY, ru::CLASS_ANY, 0),
        empty("a.a.z.", ru::T_ANY, ru::CLASS_ANY, 0),
        empty("a.z.", ru::T_ANY, ru::CLASS_NONE, 0),
        empty("a.z.", ru::T_A, ru::CLASS_ANY, 0),
        empty("a.z.", ru::T_TXT, ru::CLASS_ANY, 0),
        empty("b.z.", ru::T_A, ru::CLASS_ANY, 0),
        empty("a.z.", ru::T_A, ru::CLASS_NONE, 0),
        empty("a.z.", ru::T_CNAME, ru::CLASS_NONE, 0),
        a("a.z.", 0, 1),
        a("a.z.", 0, 2),
        ns("z.", 0, "n1.o."),
    ]
    .into_iter()
    .map(AtomSpec::plain)
    .collect()
}

pub fn core_updates() -> Vec<AtomSpec> {
    let mut v: Vec<AtomSpec> = [
        a("a.z.", 60, 1),
        a("a.z.", 60, 2),
        a("a.z.", 0, 1),
        txt("a.z.", 60, "t"),
        cname("b.z.", 60, "a.z."),
        cname("a.z.", 60, "b.z."),
        ns("a.z.", 60, "n1.o."),
        ns("z.", 60, "n2.o."),
        a("a.a.z.", 60, 1),
        empty("a.z.", ru::T_A, ru::CLASS_ANY, 0),
        empty("a.z.", ru::T_NS, ru::CLASS_ANY, 0),
        empty("a.z.", ru::T_CNAME, ru::CLASS_ANY, 0),
        empty("z.", ru::T_NS, ru::CLASS_ANY, 0),
        empty("a.z.", ru::T_ANY, ru::CLASS_ANY, 0),
        empty("z.", ru::T_ANY, ru::CLASS_ANY, 0),
        with_class(a("a.z.", 0, 1), ru::CLASS_NONE),
        with_class(ns("a.z.", 0, "n1.o."), ru::CLASS_NONE),
        with_class(ns("z.", 0, "n1.o."), ru::CLASS_NONE),
        with_class(cname("b.z.", 0, "a.z."), ru::CLASS_NONE),
    ]
    .into_iter()
    .map(AtomSpec::plain)
    .collect();
    v.push(AtomSpec::soa_rel("z.", ru::CLASS_IN, 60, 1, 2));
    v.push(AtomSpec::soa_rel("a.z.", ru::CLASS_IN, 60, 1, 2));
    v
}

/// M1-core: the M1 product over a sub-alphabet, used below the full-alphabet depth.
pub fn m1_core() -> Vec<MsgSpec> {
    product(&core_prereqs(), &core_updates())
}

/// The alphabet used from the serial-regime roots: M1-core plus every SOA atom.
pub fn m1_serial() -> Vec<MsgSpec> {
    let mut us = core_updates();
    for s in soa_update_atoms() {
        if !us.contains(&s) {
            us.push(s);
        }
    }
    let mut ps = core_prereqs();
    ps.push(AtomSpec::soa_rel("z.", ru::CLASS_IN, 0, 0, 1));
    ps.push(AtomSpec::soa_rel("z.", ru::CLASS_IN, 0, 1, 1));
    product(&ps, &us)
}

fn seqs<T: Clone>(alpha: &[T], max: usize) -> Vec<Vec<T>> {
    let mut out: Vec<Vec<T>> = vec![vec![]];
    let mut last: Vec<Vec<T>> = vec![vec![]];
    for _ in 0..max {
        let mut next = vec![];
        for s in &last {
            for x in alpha {
                let mut t = s.clone();
                t.push(x.clone());
                next.push(t);
            }
        }
        out.extend(next.iter().cloned());
        last = next;
    }
    out
}

/// M2: <= 2 prerequisites x <= 3 updates in every order over a sub-alphabet.
pub fn m2(thorough: bool) -> Vec<MsgSpec> {
    let mut ps: Vec<AtomSpec> = [
        empty("a.z.", ru::T_A, ru::CLASS_ANY, 0),
        empty("b.z.", ru::T_ANY, ru::CLASS_NONE, 0),
        a("a.z.", 0, 1),
        a("a.z.", 0, 2),
        ns("z.", 0, "n1.o."),
        ns("z.", 0, "n2.o."),
    ]
    .into_iter()
    .map(AtomSpec::plain)
    .collect();
    let mut us: Vec<AtomSpec> = [
        a("a.z.", 60, 1),
        a("a.z.", 60, 2),
        with_class(a("a.z.", 0, 1), ru::CLASS_NONE),
        empty("a.z.", ru::T_A, ru::CLASS_ANY, 0),
        empty("a.z.", ru::T_ANY, ru::CLASS_ANY, 0),
        cname("a.z.", 60, "b.z."),
        ns("z.", 60, "n2.o."),
        with_class(ns("z.", 0, "n1.o."), ru::CLASS_NONE),
        empty("a.z.", ru::T_ANY, ru::CLASS_IN, 60), // prescan failure
    ]
    .into_iter()
    .map(AtomSpec::plain)
    .collect();
    us.push(AtomSpec::soa_rel("z.", ru::CLASS_IN, 60, 1, 2));
    if thorough {
        ps.push(AtomSpec::plain(empty("a.z.", ru::T_A, ru::CLASS_NONE, 0)));
        ps.push(AtomSpec::plain(empty("a.z.", ru::T_ANY, ru::CLASS_ANY, 60))); // malformed
        us.push(AtomSpec::plain(with_class(ns("z.", 0, "n2.o."), ru::CLASS_NONE)));
        us.push(AtomSpec::plain(a("x.o.", 60, 1))); // out of zone
    }
    let pseq = seqs(&ps, 2);
    let useq = seqs(&us, 3);
    let mut v = vec![];
    for p in &pseq {
        for u in &useq {
            // the messages with <= 1 prerequisite and <= 1 update are part of M1 already
            if p.len() <= 1 && u.len() <= 1 {
                continue;
            }
            v.push(MsgSpec { prereqs: p.clone(), updates: u.clone() });
        }
    }
    v
}

/// The "effective" atoms of M2b.
pub fn effective_atoms() -> Vec<AtomSpec> {
    [a("a.z.", 60, 2), empty("a.z.", ru::T_A, ru::CLASS_ANY, 0), txt("b.z.", 60, "t")].into_iter().map(AtomSpec::plain).collect()
}

/// M2b: EVERY update atom of the full alphabet next to an atom that normally changes the zone
/// (add A at a.z., delete RRset a.z. A, add TXT at b.z.), in both orders; thorough also the atom in
/// the middle of two effective ones. Every `continue` / early-exit site of the server's update
/// loop is thereby exercised with something before and something after it.
pub fn m2b(thorough: bool) -> Vec<MsgSpec> {
    let eff = effective_atoms();
    let mut v = vec![];
    for x in update_atoms() {
        for e in &eff {
            v.push(MsgSpec { prereqs: vec![], updates: vec![x.clone(), e.clone()] });
            v.push(MsgSpec { prereqs: vec![], updates: vec![e.clone(), x.clone()] });
        }
        if thorough {
            for e1 in &eff {
                for e2 in &eff {
                    v.push(MsgSpec { prereqs: vec![], updates: vec![e1.clone(), x.clone(), e2.clone()] });
                }
            }
        }
    }
    // a data-less zone-class RR followed (and preceded) by a well-formed RR of the same type and owner
    for o in ["z.", "a.z."] {
        let wf: Vec<AtomSpec> = vec![
            AtomSpec::soa_rel(o, ru::CLASS_IN, 60, 1, 2),
            AtomSpec::soa_rel(o, ru::CLASS_IN, 60, u32::MAX, 2),
            AtomSpec::soa_rel(o, ru::CLASS_IN, 60, 0, 2),
            AtomSpec::plain(cname(o, 60, "b.z.")),
            AtomSpec::plain(ns(o, 60, "n2.o.")),
            AtomSpec::plain(a(o, 60, 2)),
        ];
        for w in wf {
            let e = AtomSpec::plain(empty(o, w.rr.rtype, ru::CLASS_IN, 60));
            v.push(MsgSpec { prereqs: vec![], updates: vec![e.clone(), w.clone()] });
            v.push(MsgSpec { prereqs: vec![], updates: vec![w.clone(), e.clone()] });
        }
    }
    v
}

/// The special-kind messages of `vupd::kinds` (shared with C14), relative to the current serial.
pub fn kinds() -> Vec<MsgSpec> {
    let probe = 1_000_000u32;
    vupd::kinds::all()
        .iter()
        .map(|k| {
            let m = (k.build)(probe);
            let spec = |rr: &Rr| -> AtomSpec {
                if rr.rtype == ru::T_SOA && !rr.rdata.is_empty() {
                    let ser = ru::soa_serial(&rr.rdata).unwrap_or(probe);
                    let min = u32::from_be_bytes(rr.rdata[rr.rdata.len() - 4..].try_into().unwrap());
                    AtomSpec { rr: rr.clone(), soa: Some(SoaRel { delta: ser.wrapping_sub(probe), minimum: min }) }
                } else {
                    AtomSpec { rr: rr.clone(), soa: None }
                }
            };
            MsgSpec { prereqs: m.prereqs.iter().map(spec).collect(), updates: m.updates.iter().map(spec).collect() }
        })
        .collect()
}
