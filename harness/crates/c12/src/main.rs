//! C12 — dynamic update applies RFC 2136 semantics and keeps the zone well-formed.
//!
//! E-STATE: breadth-first search over histories of TSIG-signed UPDATE messages executed on the
//! real `Catalog::handle_request` -> `SqliteZoneHandler::update` (journal off). A node is a
//! history; it is expanded by rebuilding the handler from the history and then applying every
//! message of the alphabet to that state (the store content is put back after each message that
//! changed something). Canonical key = sorted zone content + empty RRset keys + serial delta.
//!
//! Oracle (per transition): `vref::update` (RFC 2136 3.2-3.4 pseudocode + RFC 1982), fed with the
//! raw request bytes and the implementation's pre-state, gives the set of acceptable rcodes and
//! the acceptable resulting zones; plus the zone invariants and the serial clause of the
//! property statement.

mod alphabet;
mod keying;

use std::collections::BTreeSet;
use std::sync::atomic::{AtomicU64, Ordering};

use serde_json::{json, Value};
use vcore::{catch, fnv_str, Ctx, Local};
use vref::update as ru;
use vupd::{Env, EnvOpts, Msg, Rr, Snap};

use alphabet::{Config, MsgSpec};

/// One oracle failure on one transition, before keying.
#[derive(Clone, Debug, PartialEq, Eq)]
pub struct Finding {
    pub clause: String,
    /// short expected/observed descriptor that is part of the key
    pub detail: String,
    pub what: String,
}

/// What one executed transition looked like.
pub struct StepOut {
    pub rcode: Option<u8>,
    pub post: Snap,
    pub findings: Vec<Finding>,
    pub ref_accepted: bool,
    pub changed: bool,
    pub panic: Option<String>,
    pub digest: u64,
}

fn rcodes_text(s: &BTreeSet<u8>) -> String {
    s.iter().map(|r| ru::rcode_name(*r)).collect::<Vec<_>>().join("|")
}

pub struct Worker {
    pub rt: tokio::runtime::Runtime,
    pub signer: hickory_proto::rr::TSigner,
    /// a handler whose store content is overwritten for witness minimisation (keying only)
    pub scratch: Env,
}

impl Worker {
    pub fn new() -> Worker {
        vsim::reset_clocks(vupd::NOW);
        let rt = vsim::rt();
        let scratch = rt.block_on(Env::new(&[vupd::soa("z.", 60, 1, 1), vupd::ns("z.", 60, "n1.o.")], EnvOpts::default()));
        Worker { rt, signer: vupd::signer1(), scratch }
    }
}

/// Execute one concrete message on `env` (whose state is `pre`) and judge it.
pub fn step(w: &Worker, env: &Env, pre: &Snap, msg: &Msg, id: u16) -> StepOut {
    let bytes = vupd::signed_update(id, msg, &w.signer, vupd::NOW);
    let mut findings = vec![];

    // reference verdict from the raw bytes and the implementation's pre-state
    let upd = ru::parse_update(&bytes).expect("reference parses the honest request");
    let verdict = ru::process(&pre.zone(), &upd);

    let res = catch(|| w.rt.block_on(async { env.exchange(&bytes).await }));
    let post = w.rt.block_on(env.snapshot());
    let mut panic = None;
    let rcode = match res {
        Err(p) => {
            let loc = vcore::short_loc(&p.loc);
            findings.push(Finding { clause: "panic".into(), detail: loc.clone(), what: format!("handler panicked: {} at {}", p.msg, loc) });
            panic = Some(loc);
            None
        }
        Ok(Err(e)) => {
            findings.push(Finding { clause: "no-reply".into(), detail: String::new(), what: e });
            None
        }
        Ok(Ok(r)) => Some(r.rcode),
    };
    let changed = post != *pre;
    let content_changed = post.content() != pre.content();

    if let Some(rc) = rcode {
        if !verdict.accepted() {
            if rc == ru::NOERROR {
                findings.push(Finding {
                    clause: "accepted-failing".into(),
                    detail: format!("exp={} stage={}", rcodes_text(&verdict.rcodes), verdict.stage),
                    what: format!(
                        "RFC 2136 rejects the message ({} at {}), the server answered NOERROR{}",
                        rcodes_text(&verdict.rcodes),
                        verdict.stage,
                        if changed { " and changed the zone" } else { "" }
                    ),
                });
            } else {
                if !verdict.rcodes.contains(&rc) {
                    findings.push(Finding {
                        clause: "rcode".into(),
                        detail: format!("exp={} obs={}", rcodes_text(&verdict.rcodes), ru::rcode_name(rc)),
                        what: format!("rejected with {} where RFC 2136 gives {}", ru::rcode_name(rc), rcodes_text(&verdict.rcodes)),
                    });
                }
                if changed {
                    findings.push(Finding {
                        clause: "rejected-but-changed".into(),
                        detail: format!("obs={}", ru::rcode_name(rc)),
                        what: "the message was rejected but the zone changed".into(),
                    });
                }
            }
        } else if rc != ru::NOERROR {
            findings.push(Finding {
                clause: "rejected-valid".into(),
                detail: format!("obs={}", ru::rcode_name(rc)),
                what: format!("all prerequisites hold and the prescan passes, the server answered {}", ru::rcode_name(rc)),
            });
            if changed {
                findings.push(Finding {
                    clause: "rejected-but-changed".into(),
                    detail: format!("obs={}", ru::rcode_name(rc)),
                    what: "the message was rejected but the zone changed".into(),
                });
            }
        }
    }

    // content + serial, only when both sides accepted
    let pre_serial = pre.serial();
    let post_serial = post.serial();
    if verdict.accepted() && rcode == Some(ru::NOERROR) {
        let pc = post.content();
        let matching: Vec<&ru::Applied> = verdict.zones.iter().filter(|z| z.zone.content() == pc).collect();
        if matching.is_empty() {
            let want = verdict.zones[0].zone.content();
            let missing: Vec<String> = want.difference(&pc).map(vupd::rr_text).collect();
            let extra: Vec<String> = pc.difference(&want).map(vupd::rr_text).collect();
            findings.push(Finding {
                clause: "content".into(),
                detail: format!("missing={} extra={}", missing.len().min(9), extra.len().min(9)),
                what: format!("zone after the update differs from RFC 2136 3.4.2: missing {missing:?}, extra {extra:?}"),
            });
        }
        // serial clause: which behaviours are acceptable?
        if let (Some(s0), Some(s1)) = (pre_serial, post_serial) {
            let advanced = ru::serial_advanced(s0, s1);
            let stayed = s0 == s1;
            // must_advance for a matching reference zone: content changed or the apex SOA was
            // replaced by an Update RR carrying another serial
            let mut ok = false;
            let mut want = vec![];
            let cands: Vec<bool> = if matching.is_empty() {
                vec![content_changed]
            } else {
                matching
                    .iter()
                    .map(|m| content_changed || (m.soa_replaced && m.zone.serial() != Some(s0)))
                    .collect()
            };
            for must_advance in cands {
                if must_advance && advanced || !must_advance && stayed {
                    ok = true;
                }
                want.push(if must_advance { "advance" } else { "stay" });
            }
            if !ok {
                want.sort();
                want.dedup();
                let obs = if stayed {
                    "stayed"
                } else if advanced {
                    "advanced"
                } else {
                    match ru::serial_cmp(s1, s0) {
                        ru::SerialOrd::Less => "went-back",
                        _ => "undefined-relation",
                    }
                };
                findings.push(Finding {
                    clause: "serial".into(),
                    detail: format!("exp={} obs={}", want.join("|"), obs),
                    what: format!(
                        "serial {s0} -> {s1} ({obs}) although the content {} (RFC 1982 strict advance iff content changed)",
                        if content_changed { "changed" } else { "did not change" }
                    ),
                });
            }
        }
    } else if panic.is_none() {
        // rejected (by either side): the serial must not move either; covered by `changed`
    }

    // invariants: report on the transition that introduces the breach
    let inv_pre: Vec<&str> = ru::invariants(&pre.zone());
    for iv in ru::invariants(&post.zone()) {
        if !inv_pre.contains(&iv) {
            findings.push(Finding { clause: format!("inv:{iv}"), detail: String::new(), what: format!("zone invariant broken after the message: {iv}") });
        }
    }

    let digest = fnv_str(&format!("{:?}|{}|{:?}", rcode, post.key(0), findings.iter().map(|f| (&f.clause, &f.detail)).collect::<Vec<_>>()));
    StepOut { rcode, post, findings, ref_accepted: verdict.accepted(), changed, panic, digest }
}

// ------------------------------------------------------------------------------------------

#[derive(Clone)]
struct Node {
    cfg: usize,
    history: Vec<Msg>,
    key: u64,
}

fn case_json(cfg: &Config, history: &[Msg], msg: &Msg) -> Value {
    json!({
        "initial_zone": cfg.zone.iter().map(vupd::rr_json).collect::<Vec<_>>(),
        "history": history.iter().map(|m| m.to_json()).collect::<Vec<_>>(),
        "message": msg.to_json(),
        "text": {
            "initial_zone": cfg.zone.iter().map(vupd::rr_text).collect::<Vec<_>>(),
            "history": history.iter().map(|m| m.text()).collect::<Vec<_>>(),
            "message": msg.text(),
        }
    })
}

/// Build the handler of a node by replaying its history on a fresh handler.
fn rebuild(w: &Worker, zone: &[Rr], history: &[Msg]) -> (Env, Snap) {
    let env = w.rt.block_on(Env::new(zone, EnvOpts::default()));
    for (i, m) in history.iter().enumerate() {
        let bytes = vupd::signed_update(100 + i as u16, m, &w.signer, vupd::NOW);
        let _ = catch(|| w.rt.block_on(async { env.exchange(&bytes).await }));
    }
    let snap = w.rt.block_on(env.snapshot());
    (env, snap)
}

struct Shared<'a> {
    ctx: &'a Ctx,
    cfgs: &'a [Config],
    keyer: keying::Keyer,
    validated: AtomicU64,
    selftest_mismatch: AtomicU64,
    selftests: AtomicU64,
}

/// Apply every message of `alpha` to the state of `node`; returns the successors.
fn expand(sh: &Shared, w: &Worker, node: &Node, alpha: &[MsgSpec], l: &mut Local, want_succ: bool) -> Vec<(Node, u64)> {
    let cfg = &sh.cfgs[node.cfg];
    let (env, pre) = rebuild(w, &cfg.zone, &node.history);
    if pre.key(cfg.serial0) != node.key {
        sh.ctx.machinery_failure(&format!("replaying a history gave another state than its first execution (cfg {})", cfg.name));
        return vec![];
    }
    let saved = w.rt.block_on(env.save());
    let cur = pre.serial().unwrap_or(0);
    let mut succ = vec![];
    for (mi, spec) in alpha.iter().enumerate() {
        let msg = spec.materialise(cur);
        let out = step(w, &env, &pre, &msg, 1000 + (mi % 60000) as u16);
        l.eval();
        sh.validated.fetch_add(1, Ordering::Relaxed);
        classify(sh, w, cfg, &node.history, &pre, &msg, &out, l);
        // determinism / "restore == rebuild" self-test on a fixed slice
        if (node.key ^ mi as u64) % 257 == 0 {
            sh.selftests.fetch_add(1, Ordering::Relaxed);
            let (env2, pre2) = rebuild(w, &cfg.zone, &node.history);
            let out2 = step(w, &env2, &pre2, &msg, 1000 + (mi % 60000) as u16);
            if out2.digest != out.digest {
                sh.selftest_mismatch.fetch_add(1, Ordering::Relaxed);
            }
        }
        if out.changed {
            if want_succ {
                let k = out.post.key(cfg.serial0);
                let mut h = node.history.clone();
                h.push(msg.clone());
                succ.push((Node { cfg: node.cfg, history: h, key: k }, k ^ (node.cfg as u64).wrapping_mul(0x9e3779b97f4a7c15)));
            }
            w.rt.block_on(env.restore(&saved));
        }
    }
    succ
}

fn classify(sh: &Shared, w: &Worker, cfg: &Config, history: &[Msg], pre: &Snap, msg: &Msg, out: &StepOut, l: &mut Local) {
    // outcome classes + non-trivial rule
    let class = match (out.ref_accepted, out.rcode) {
        (_, None) => "no-rcode",
        (true, Some(0)) => {
            if out.changed {
                "applied-changing"
            } else {
                "applied-noop"
            }
        }
        (true, Some(_)) => "impl-rejected-valid",
        (false, Some(0)) => "impl-accepted-failing",
        (false, Some(_)) => "rejected",
    };
    l.outcome(class);
    if out.ref_accepted && out.changed {
        l.nontrivial(fnv_str(&format!("{}|{}", pre.key(cfg.serial0), msg.text())));
    } else if !out.ref_accepted && !history.is_empty() && !msg.prereqs.is_empty() {
        // rejected by a prerequisite whose outcome depends on an earlier message of the history:
        // the same message is not rejected the same way on the initial zone
        let v0 = ru::process(
            &ru::Zone { origin: ru::name_from_str(vupd::ORIGIN), class: ru::CLASS_IN, rrs: cfg.zone.clone() },
            &ru::Update { zname: ru::name_from_str(vupd::ORIGIN), ztype: ru::T_SOA, zclass: ru::CLASS_IN, prereqs: msg.prereqs.clone(), updates: msg.updates.clone() },
        );
        if v0.accepted() {
            l.nontrivial(fnv_str(&format!("{}|{}", pre.key(cfg.serial0), msg.text())));
            l.outcome("rejected-by-history-dependent-prerequisite");
        }
    }
    if !pre.empty_keys.is_empty() {
        l.outcome("obs:pre-state-has-empty-rrset-key");
    }
    if out.post.empty_keys.len() > pre.empty_keys.len() {
        l.outcome("obs:empty-rrset-key-left-behind");
    }
    for f in &out.findings {
        let key = sh.keyer.key(w, f, pre, msg);
        l.violation(&key, &f.what, || {
            let mut j = case_json(cfg, history, msg);
            j["clause"] = json!(f.clause);
            j["detail"] = json!(f.detail);
            j["pre_state"] = json!(pre.text());
            j["post_state"] = json!(out.post.text());
            j["rcode"] = json!(out.rcode.map(ru::rcode_name));
            j
        });
    }
}

/// AXFR through the catalog must list exactly the RRs `records()` shows.
fn axfr_agrees(w: &Worker, env: &Env, snap: &Snap) -> Result<(), String> {
    let q = vupd::query_bytes(7, vupd::ORIGIN, hickory_proto::rr::RecordType::AXFR);
    let r = catch(|| w.rt.block_on(async { env.exchange(&q).await })).map_err(|p| format!("panic {}", p.msg))??;
    let mut got: Vec<Rr> = r.answers.clone();
    // leading and trailing SOA
    if got.len() >= 2 && got[0].rtype == ru::T_SOA && got[got.len() - 1].rtype == ru::T_SOA {
        got.pop();
    }
    got.sort();
    let mut want = snap.rrs.clone();
    want.sort();
    if got != want {
        return Err(format!("AXFR lists {:?}, records() has {:?}", got.iter().map(vupd::rr_text).collect::<Vec<_>>(), snap.text()));
    }
    Ok(())
}

fn main() {
    let ctx = Ctx::from_args("C12", "model_checking");
    let thorough = !ctx.quick();

    if let Some((_key, case)) = ctx.replay_case() {
        let w = Worker::new();
        let keyer = keying::Keyer::new();
        ctx.with_local(|l| {
            let zone: Vec<Rr> = case["initial_zone"].as_array().map(|a| a.iter().map(vupd::rr_from_json).collect()).unwrap_or_default();
            let history: Vec<Msg> = case["history"].as_array().map(|a| a.iter().map(Msg::from_json).collect()).unwrap_or_default();
            let msg = Msg::from_json(&case["message"]);
            let (env, pre) = rebuild(&w, &zone, &history);
            let out = step(&w, &env, &pre, &msg, 1000);
            l.eval();
            for f in &out.findings {
                let key = keyer.key(&w, f, &pre, &msg);
                l.violation(&key, &f.what, || json!({"initial_zone": case["initial_zone"], "history": case["history"], "message": case["message"], "post_state": out.post.text()}));
            }
            eprintln!("replay: rcode={:?} post={:?} findings={:?}", out.rcode.map(ru::rcode_name), out.post.text(), out.findings);
        });
        ctx.finish(false);
    }

    let cfgs = alphabet::configs(thorough);
    let m1 = alphabet::m1(thorough);
    let m1_core = alphabet::m1_core();
    let m2 = alphabet::m2(thorough);
    ctx.set("alphabet_m1", json!(m1.len()));
    ctx.set("alphabet_m1_core", json!(m1_core.len()));
    ctx.set("alphabet_m2", json!(m2.len()));
    ctx.set("configs", json!(cfgs.iter().map(|c| c.name.clone()).collect::<Vec<_>>()));
    ctx.set_rule(
        "E-STATE over histories of signed UPDATE messages on the real Catalog -> SqliteZoneHandler (journal off). Universe: origin z., owners \
         {z., a.z., b.z., a.a.z., *.z., x.o.(out)}, types {A,TXT,CNAME,NS,SOA,ANY + meta AXFR/MAILB}, RDATA A{.1,.2} TXT{t} CNAME{a.z.,b.z.} \
         NS{n1.o.,n2.o.} SOA serial {cur-1,cur,cur+1,cur+2,cur+2^31-1,cur+2^31}, TTL {0,60}. M1 = (<=1 prerequisite atom) x (<=1 update atom) \
         over every form of RFC 2136 tables 3.2.4 / 3.4.2.6 plus malformed variants; M1-core = the same product over a sub-alphabet; \
         M2 = (<=2 prerequisites) x (<=3 updates) in every order over a sub-alphabet. Roots = initial zones x initial serial \
         {1, 2^31-1, 2^32-2}. BFS with M1 to the tier's depth, then M1-core to its depth, M2 applied as one further step from every state up to \
         its depth; canonical key = zone content + empty RRset keys + serial delta. Oracle per transition: vref::update (RFC 2136 \
         3.2/3.4 pseudocode, RFC 1982) on the raw request bytes and the implementation's pre-state: rcode in the acceptable set, rejected => \
         unchanged, accepted => zone equals an acceptable reference zone, invariants (one SOA, apex NS, CNAME alone), serial strictly advanced iff \
         content changed. Non-trivial = distinct (state, message) with an accepted zone-changing update or a rejection by a prerequisite that \
         holds on the initial zone.",
    );
    ctx.assume("vref::update is the RFC 2136 3.2-3.4 / RFC 1982 reference; where prose and pseudocode disagree or precedence is not fixed it accepts every reading");
    ctx.assume("the only state update() reads is the record store (journal off, DNSSEC off): putting the saved store content back after a message equals rebuilding from the history (self-tested on a fixed slice of transitions)");
    ctx.assume("TSIG signing/verification is correct for honest requests (C13)");

    let sh = Shared { ctx: &ctx, cfgs: &cfgs, keyer: keying::Keyer::new(), validated: AtomicU64::new(0), selftest_mismatch: AtomicU64::new(0), selftests: AtomicU64::new(0) };

    // roots
    let mut roots = vec![];
    {
        let w = Worker::new();
        for (ci, cfg) in cfgs.iter().enumerate() {
            let (env, snap) = rebuild(&w, &cfg.zone, &[]);
            let mut want = cfg.zone.clone();
            want.sort();
            if snap.rrs != want || !snap.empty_keys.is_empty() {
                ctx.machinery_failure(&format!("initial zone {} does not load as written: {:?}", cfg.name, snap.text()));
            }
            if let Err(e) = axfr_agrees(&w, &env, &snap) {
                ctx.machinery_failure(&format!("AXFR of the initial zone {}: {e}", cfg.name));
            }
            let k = snap.key(cfg.serial0);
            roots.push((Node { cfg: ci, history: vec![], key: k }, k ^ (ci as u64).wrapping_mul(0x9e3779b97f4a7c15)));
        }
    }

    // depth plan: nodes at depth d < d_full are expanded with the full M1 alphabet, nodes at depth
    // d_full <= d < d_core with M1-core; M2 is applied (as one further step, successors judged but
    // not expanded) from every node at depth <= d_m2. Roots marked serial_focus use M1-serial.
    let (d_full, d_core, d_m2) = if thorough { (2usize, 4usize, 1usize) } else { (1, 3, 0) };
    ctx.set("depth_m1_full", json!(d_full));
    ctx.set("depth_m1_core", json!(d_core));
    ctx.set("depth_m2_from", json!(d_m2));
    let m1_serial = alphabet::m1_serial();
    ctx.set("alphabet_m1_serial", json!(m1_serial.len()));

    let all_states: std::sync::Mutex<Vec<Node>> = std::sync::Mutex::new(roots.iter().map(|(n, _)| n.clone()).collect());
    let max_depth = d_core.max(d_full);
    let stats = vcore::bfs(&ctx, roots, max_depth, |node: &Node, l| {
        thread_local! { static W: Worker = Worker::new(); }
        W.with(|w| {
            let d = node.history.len();
            let cfg = &sh.cfgs[node.cfg];
            let alpha: &[MsgSpec] = if cfg.serial_focus {
                &m1_serial
            } else if d < d_full {
                &m1
            } else {
                &m1_core
            };
            let succ = expand(&sh, w, node, alpha, l, true);
            if d <= d_m2 && !cfg.serial_focus {
                let _ = expand(&sh, w, node, &m2, l, false);
            }
            all_states.lock().unwrap().extend(succ.iter().map(|(n, _)| n.clone()));
            succ
        })
    });
    ctx.set("bfs_per_depth_states", json!(stats.per_depth));
    ctx.set("depth", json!(stats.depth_completed));
    ctx.set("fixpoint", json!(stats.fixpoint));
    ctx.traces_validated.store(sh.validated.load(Ordering::SeqCst), Ordering::SeqCst);
    // transitions as counted by bfs() are the state-changing ones; all executed transitions:
    ctx.transitions.store(sh.validated.load(Ordering::SeqCst), Ordering::SeqCst);
    ctx.set("state_changing_transitions", json!(stats.transitions));

    // AXFR cross-check on a deterministic sub-grid of the states found (every state in quick)
    {
        let states = all_states.into_inner().unwrap();
        let mut seen = std::collections::HashSet::new();
        let picked: Vec<&Node> = states.iter().filter(|n| seen.insert((n.cfg, n.key))).filter(|n| n.key % 16 == 0 || n.history.len() <= 1).collect();
        ctx.set("axfr_cross_checked_states", json!(picked.len()));
        ctx.par_run_init(picked.len() as u64, 8, |_| Worker::new(), |i, l, w| {
            let n = picked[i as usize];
            let cfg = &cfgs[n.cfg];
            let (env, snap) = rebuild(w, &cfg.zone, &n.history);
            l.eval();
            match axfr_agrees(w, &env, &snap) {
                Ok(()) => l.outcome("axfr-agrees"),
                Err(e) => l.violation("axfr-differs-from-records", &e, || case_json(cfg, &n.history, &Msg::default())),
            }
        });
    }

    let st = sh.selftests.load(Ordering::SeqCst);
    ctx.set("selftest_transitions_rebuilt_from_history", json!(st));
    if sh.selftest_mismatch.load(Ordering::SeqCst) > 0 {
        ctx.machinery_failure("determinism self-test: a transition gave another outcome when its handler was rebuilt from the history");
    }
    if st == 0 {
        ctx.machinery_failure("determinism self-test did not run");
    }
    for class in ["applied-changing", "applied-noop", "rejected", "rejected-by-history-dependent-prerequisite"] {
        if ctx.outcome_count(class) == 0 {
            ctx.machinery_failure(&format!("vacuous run: outcome class {class} never exercised"));
        }
    }
    ctx.with_local(|l| {
        for c in cfgs.iter().take(3) {
            l.sample(json!({"config": c.name, "zone": c.zone.iter().map(vupd::rr_text).collect::<Vec<_>>()}));
        }
        for m in m1.iter().step_by((m1.len() / 6).max(1)) {
            l.sample(json!({"m1_message": m.materialise(1).text()}));
        }
    });
    // depth-bounded, not a fixpoint: exhaustive over the declared bounded space
    ctx.finish(true);
}

