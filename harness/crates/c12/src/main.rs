//! C12 — dynamic update applies RFC 2136 semantics and keeps the zone well-formed.
//!
//! E-STATE: breadth-first search over histories of TSIG-signed UPDATE messages executed on the
//! real `Catalog::handle_request` -> `SqliteZoneHandler::update` (journal off). A node is a
//! history; it is expanded by rebuilding the handler from the history and then applying every
//! message of the alphabet to that state (the store content is put back after each message that
//! changed something). Canonical key = sorted zone content + empty RRset keys + serial delta.
//! The search follows `vcore::bfs` (same dedup / deterministic merge order) but splits the
//! expansion of one node into alphabet chunks so that shallow levels use all workers.
//!
//! Oracle (per transition): `vref::update` (RFC 2136 3.2-3.4 pseudocode + RFC 1982), fed with the
//! raw request bytes and the implementation's pre-state, gives the set of acceptable rcodes and
//! the acceptable resulting zones; plus the zone invariants and the serial clause of the
//! property statement. Only states reached through conforming transitions are expanded: the
//! first non-conforming step of any history is therefore always the judged last step of a
//! history whose prefix conforms.

mod alphabet;
mod dnssec;
mod keying;
mod layouts;

use std::collections::{BTreeSet, HashSet};
use std::sync::atomic::{AtomicU64, Ordering};
use std::sync::Mutex;

use serde_json::{json, Value};
use vcore::{catch, Ctx, Local};
use vref::update as ru;
use vupd::{Env, EnvOpts, Msg, Rr, Snap};

use alphabet::{Config, MsgSpec};

/// One oracle failure on one transition, before keying.
#[derive(Clone, Debug, PartialEq, Eq)]
pub struct Finding {
    pub clause: String,
    /// short observed-behaviour descriptor that is part of the key (and must stay the same while
    /// the witness is minimised)
    pub detail: String,
    pub what: String,
}

/// What one executed transition looked like.
pub struct StepOut {
    pub rcode: Option<u8>,
    pub post: Snap,
    pub findings: Vec<Finding>,
    pub ref_accepted: bool,
    pub changed: bool,
    pub observations: Vec<&'static str>,
    pub panicked: bool,
}

impl StepOut {
    /// Everything the oracle looked at, for the determinism self-test.
    pub fn digest(&self) -> u64 {
        vupd::digest(&(self.rcode, self.post.key(0), self.panicked, self.findings.iter().map(|f| (&f.clause, &f.detail)).collect::<Vec<_>>()))
    }
}

/// A state together with what the oracle derives from it (computed once per state).
pub struct Pre {
    pub snap: Snap,
    pub zone: ru::Zone,
    pub content: BTreeSet<Rr>,
    pub inv: Vec<&'static str>,
    pub serial: Option<u32>,
    /// DNSSEC-enabled sub-grid: the signed-zone clauses the state already violates
    /// (None = the handler is not DNSSEC-enabled)
    pub dnssec: Option<BTreeSet<(String, String)>>,
}

impl Pre {
    pub fn new(snap: Snap) -> Pre {
        let zone = snap.zone();
        let content = zone.content();
        let inv = ru::invariants(&zone);
        let serial = zone.serial();
        Pre { snap, zone, content, inv, serial, dnssec: None }
    }
    /// The state of `env` (its snapshot `snap` already taken), with the signed-zone clauses
    /// evaluated if the handler is DNSSEC-enabled.
    pub fn of(w: &Worker, env: &Env, snap: Snap, dnssec: bool) -> Pre {
        let mut p = Pre::new(snap);
        if dnssec {
            p.dnssec = Some(dnssec::check(&dnssec::view(&w.rt.block_on(env.save())), vupd::NOW));
        }
        p
    }
}

/// The observable zone state; for a DNSSEC-enabled handler without RRSIG/NSEC/DNSKEY (those are
/// judged by the signed-zone clauses, the RFC 2136 clauses are about the rest).
pub fn snapshot(w: &Worker, env: &Env, dnssec: bool) -> Snap {
    let mut s = w.rt.block_on(env.snapshot());
    if dnssec {
        s.rrs.retain(|r| !dnssec::is_dnssec_type(r.rtype));
        s.empty_keys.retain(|(_, t)| !dnssec::is_dnssec_type(*t));
    }
    s
}

fn rcodes_text(s: &BTreeSet<u8>) -> String {
    s.iter().map(|r| ru::rcode_name(*r)).collect::<Vec<_>>().join("|")
}

pub struct Worker {
    pub rt: tokio::runtime::Runtime,
    pub signer: hickory_proto::rr::TSigner,
    /// a handler whose store content is overwritten for witness minimisation (keying only)
    pub scratch: Env,
}

impl Worker {
    pub fn new() -> Worker {
        vsim::reset_clocks(vupd::NOW);
        let rt = vsim::rt();
        let scratch = rt.block_on(Env::new(&[vupd::soa("z.", 60, 1, 1), vupd::ns("z.", 60, "n1.o.")], EnvOpts::default()));
        Worker { rt, signer: vupd::signer1(), scratch }
    }
}

fn slug(s: &str) -> String {
    let mut out = String::new();
    for c in s.chars() {
        if c.is_ascii_alphanumeric() {
            out.push(c.to_ascii_lowercase());
        } else if !out.ends_with('-') {
            out.push('-');
        }
    }
    out.trim_matches('-').chars().take(60).collect()
}

fn file_of(loc: &str) -> String {
    let l = vcore::short_loc(loc);
    match l.rfind(':') {
        Some(i) => l[..i].to_string(),
        None => l,
    }
}

/// Execute one concrete message on `env` (whose state is `pre`) and judge it.
pub fn step(w: &Worker, env: &Env, pre: &Pre, msg: &Msg, id: u16) -> StepOut {
    let bytes = vupd::signed_update(id, msg, &w.signer, vupd::NOW);
    step_bytes(w, env, pre, &bytes, vupd::Protocol::Tcp)
}

/// Execute the signed request octets `bytes` (however they were produced) over `proto` and judge
/// them; the reference reads the same octets.
pub fn step_bytes(w: &Worker, env: &Env, pre: &Pre, bytes: &[u8], proto: vupd::Protocol) -> StepOut {
    let mut findings = vec![];
    let mut observations = vec![];

    // reference verdict from the raw bytes and the implementation's pre-state
    let upd = ru::parse_update(bytes).expect("reference parses the honest request");
    let verdict = ru::process(&pre.zone, &upd);

    let res = catch(|| w.rt.block_on(async { env.exchange_via(bytes, proto).await }));
    let post = snapshot(w, env, pre.dnssec.is_some());
    let changed = post != pre.snap;
    let rcode = match res {
        Err(p) => {
            // a panic kills the request; whatever else is wrong after it is a consequence
            return StepOut {
                rcode: None,
                findings: vec![Finding {
                    clause: "panic".into(),
                    detail: format!("{}@{}", slug(&p.msg), file_of(&p.loc)),
                    what: format!("the update handler panicked: {} at {}; zone afterwards: {:?}", p.msg, vcore::short_loc(&p.loc), post.text()),
                }],
                post,
                ref_accepted: verdict.accepted(),
                changed,
                observations,
                panicked: true,
            };
        }
        Ok(Err(e)) => {
            findings.push(Finding { clause: "no-reply".into(), detail: String::new(), what: e });
            None
        }
        Ok(Ok(r)) => Some(r.rcode),
    };
    // what the oracle derives from the post-state (the pre-state's if nothing changed)
    let post_derived;
    let (post_content, post_inv, post_serial): (&BTreeSet<Rr>, &Vec<&'static str>, Option<u32>) = if changed {
        post_derived = Pre::new(post.clone());
        (&post_derived.content, &post_derived.inv, post_derived.serial)
    } else {
        (&pre.content, &pre.inv, pre.serial)
    };
    let content_changed = changed && *post_content != pre.content;

    if let Some(rc) = rcode {
        if rc == ru::NOERROR {
            if !verdict.accepted() {
                findings.push(Finding {
                    clause: "accepted-failing".into(),
                    detail: String::new(),
                    what: format!(
                        "RFC 2136 rejects the message ({} at {}), the server answered NOERROR{}",
                        rcodes_text(&verdict.rcodes),
                        verdict.stage,
                        if changed { " and changed the zone" } else { "" }
                    ),
                });
            }
        } else {
            if !verdict.rcodes.contains(&rc) {
                findings.push(Finding {
                    clause: "wrong-rejection".into(),
                    detail: format!("obs={}", ru::rcode_name(rc)),
                    what: format!("rejected with {} where RFC 2136 gives {}", ru::rcode_name(rc), rcodes_text(&verdict.rcodes)),
                });
            } else if verdict.rcodes.len() > 1 {
                observations.push("obs:several-rcodes-applicable");
            }
            if changed {
                findings.push(Finding {
                    clause: "rejected-but-changed".into(),
                    detail: String::new(),
                    what: format!("the message was rejected ({}) but the zone changed", ru::rcode_name(rc)),
                });
            }
        }
    }

    // content + serial, only when both sides accepted
    if verdict.accepted() && rcode == Some(ru::NOERROR) {
        let pc = post_content;
        let matching: Vec<&ru::Applied> = verdict.zones.iter().filter(|z| z.zone.content() == *pc).collect();
        if matching.is_empty() {
            let want = verdict.zones[0].zone.content();
            let missing: Vec<String> = want.difference(pc).map(vupd::rr_text).collect();
            let extra: Vec<String> = pc.difference(&want).map(vupd::rr_text).collect();
            findings.push(Finding {
                clause: "content".into(),
                detail: String::new(),
                what: format!("zone after the update differs from RFC 2136 3.4.2: missing {missing:?}, extra {extra:?}"),
            });
        }
        for m in &matching {
            for f in &m.forks {
                observations.push(match *f {
                    "soa-add-equal-serial:pseudocode-replaces" => "obs:fork:soa-add-equal-serial-replaced",
                    "soa-add-serial-2^31-apart:undefined" => "obs:fork:soa-add-serial-2^31-apart-replaced",
                    "delete-soa-rr-off-apex:prose-deletes" => "obs:fork:soa-rr-off-apex-deleted",
                    "delete-only-ns-rr-off-apex:prose-deletes" => "obs:fork:only-ns-rr-off-apex-deleted",
                    "zone-class-rr-with-empty-rdata:ignored" => "obs:fork:zone-class-rr-with-empty-rdata-ignored",
                    _ => "obs:fork:other",
                });
            }
        }
        if verdict.zones.len() > 1 && matching.iter().any(|m| m.forks.is_empty()) {
            observations.push("obs:fork:unforked-reading-taken");
        }
        // serial clause
        if let (Some(s0), Some(s1)) = (pre.serial, post_serial) {
            let advanced = ru::serial_advanced(s0, s1);
            let stayed = s0 == s1;
            // acceptable behaviours: per matching reference zone, "advance" if the content changed
            // or the apex SOA was replaced by an Update RR with another serial, else "stay"; a
            // replacement whose serial relation to the old one is undefined in RFC 1982 is not judged
            let mut ok = false;
            let mut want = vec![];
            if matching.is_empty() {
                // the content clause already failed; which serial behaviour would be due is not
                // well defined for a zone the RFC does not prescribe
                ok = true;
            }
            for m in &matching {
                if m.forks.iter().any(|f| f.contains("undefined")) {
                    ok = true;
                    continue;
                }
                let must = content_changed || (m.soa_replaced && m.zone.serial() != Some(s0));
                if must && advanced || !must && stayed {
                    ok = true;
                }
                want.push(if must { "advance" } else { "stay" });
            }
            if !ok {
                want.sort();
                want.dedup();
                let obs = if stayed {
                    "stayed"
                } else if advanced {
                    "advanced"
                } else {
                    match ru::serial_cmp(s1, s0) {
                        ru::SerialOrd::Less => "went-back",
                        _ => "undefined-relation",
                    }
                };
                findings.push(Finding {
                    clause: "serial".into(),
                    detail: format!("exp={} obs={}", want.join("|"), obs),
                    what: format!(
                        "serial {s0} -> {s1} ({obs}) although the content {} (RFC 1982 strict advance iff content changed)",
                        if content_changed { "changed" } else { "did not change" }
                    ),
                });
            }
        }
    }

    // signed-zone clauses (DNSSEC-enabled sub-grid): reported on the transition that introduces them
    if let Some(before) = &pre.dnssec {
        let has_key = |s: &Snap| s.rrs.iter().any(|r| r.rtype == dnssec::T_DNSKEY);
        if changed && has_key(&pre.snap) && !has_key(&post) {
            // the update itself removed the zone's published key (RFC 2136 lets it): what a signer
            // should do then is not judged
            observations.push("obs:dnssec:update-deleted-the-dnskey-rrset");
        } else if changed {
            let after = dnssec::check(&dnssec::view(&w.rt.block_on(env.save())), vupd::NOW);
            let known_scenes: BTreeSet<&String> = before.iter().map(|x| &x.0).collect();
            for (scene, what) in &after {
                if !known_scenes.contains(scene) {
                    findings.push(Finding { clause: scene.clone(), detail: String::new(), what: format!("after the update the signed zone is not well-formed: {what}") });
                }
            }
            if after.is_empty() {
                observations.push("obs:dnssec:zone-validly-signed-after-update");
            }
        }
    }

    // invariants: reported on the transition that introduces the breach
    for iv in post_inv.iter() {
        if !pre.inv.contains(iv) {
            findings.push(Finding { clause: format!("inv:{iv}"), detail: String::new(), what: format!("zone invariant broken after the message: {iv}; zone: {:?}", post.text()) });
        }
    }
    if post.empty_keys.len() > pre.snap.empty_keys.len() {
        observations.push("obs:empty-rrset-key-left-behind");
    }

    // a zone-class RR with RDLENGTH 0 in the update section: RFC 2136 neither forbids it (prescan) nor
    // says what "adding" it means; the server stores it for ordinary types. Judged for such
    // messages: no panic, rejected => unchanged, the zone invariants, and a serial that does not
    // move backwards - what the zone then contains is observed only.
    if upd.updates.iter().any(|r| r.class == ru::CLASS_IN && r.rdata.is_empty()) {
        findings.retain(|f| f.clause == "panic" || f.clause == "no-reply" || f.clause.starts_with("inv:") || f.clause == "rejected-but-changed" || (f.clause == "serial" && (f.detail.contains("went-back") || f.detail.contains("undefined-relation"))));
        observations.push("obs:update-with-a-data-less-zone-class-rr");
        if post.rrs.iter().any(|r| r.rdata.is_empty()) {
            observations.push("obs:data-less-rr-stored");
        }
    }
    StepOut { rcode, post, findings, ref_accepted: verdict.accepted(), changed, observations, panicked: false }
}

// ------------------------------------------------------------------------------------------

#[derive(Clone)]
struct Node {
    cfg: usize,
    history: Vec<Msg>,
    key: u64,
}

pub(crate) fn case_json(cfg_zone: &[Rr], history: &[Msg], msg: &Msg) -> Value {
    json!({
        "initial_zone": cfg_zone.iter().map(vupd::rr_json).collect::<Vec<_>>(),
        "history": history.iter().map(|m| m.to_json()).collect::<Vec<_>>(),
        "message": msg.to_json(),
        "text": {
            "initial_zone": cfg_zone.iter().map(vupd::rr_text).collect::<Vec<_>>(),
            "history": history.iter().map(|m| m.text()).collect::<Vec<_>>(),
            "message": msg.text(),
        }
    })
}

/// Build the handler of a node by replaying its history on a fresh handler.
fn rebuild(w: &Worker, zone: &[Rr], dnssec: bool, history: &[Msg]) -> (Env, Snap) {
    let env = if dnssec { dnssec::signed_env(zone, vec![w.signer.clone()]) } else { w.rt.block_on(Env::new(zone, EnvOpts::default())) };
    for (i, m) in history.iter().enumerate() {
        let bytes = vupd::signed_update(100 + i as u16, m, &w.signer, vupd::NOW);
        let _ = catch(|| w.rt.block_on(async { env.exchange(&bytes).await }));
    }
    let snap = snapshot(w, &env, dnssec);
    (env, snap)
}

struct Shared<'a> {
    ctx: &'a Ctx,
    cfgs: &'a [Config],
    keyer: keying::Keyer,
    validated: AtomicU64,
    selftest_mismatch: AtomicU64,
    selftests: AtomicU64,
    pruned: AtomicU64,
}

/// Apply `alpha[lo..hi]` to the state of `node`; returns the conforming state-changing successors.
fn expand(sh: &Shared, w: &Worker, node: &Node, alpha: &[MsgSpec], lo: usize, hi: usize, l: &mut Local, want_succ: bool) -> Vec<Node> {
    let cfg = &sh.cfgs[node.cfg];
    let (env, snap) = rebuild(w, &cfg.zone, cfg.dnssec, &node.history);
    if snap.key(cfg.serial0) != node.key {
        sh.ctx.machinery_failure(&format!("replaying a history gave another state than its first execution (cfg {})", cfg.name));
        return vec![];
    }
    let pre = Pre::of(w, &env, snap, cfg.dnssec);
    let saved = w.rt.block_on(env.save());
    let cur = pre.serial.unwrap_or(0);
    let mut succ = vec![];
    for mi in lo..hi {
        let msg = alpha[mi].materialise(cur);
        let id = 1000 + (mi % 60000) as u16;
        let out = step(w, &env, &pre, &msg, id);
        l.eval();
        sh.validated.fetch_add(1, Ordering::Relaxed);
        classify(sh, w, cfg, node, &pre, &msg, &out, l);
        // self-test on a fixed slice: the same transition on a handler rebuilt from the history
        // (no store put-back involved) must look exactly the same
        if (node.key ^ (mi as u64).wrapping_mul(0x9e3779b97f4a7c15)) % 127 == 0 {
            sh.selftests.fetch_add(1, Ordering::Relaxed);
            let (env2, snap2) = rebuild(w, &cfg.zone, cfg.dnssec, &node.history);
            let out2 = step(w, &env2, &Pre::of(w, &env2, snap2, cfg.dnssec), &msg, id);
            if out2.digest() != out.digest() {
                sh.selftest_mismatch.fetch_add(1, Ordering::Relaxed);
            }
        }
        if out.changed {
            if want_succ {
                // a signed zone whose published key the update removed is outside what is judged
                let key_gone = out.observations.contains(&"obs:dnssec:update-deleted-the-dnskey-rrset");
                // a state that holds a data-less RR is not expanded (what later messages make of it is garbage in, garbage out)
                let data_less = out.post.rrs.iter().any(|r| r.rdata.is_empty());
                if out.findings.is_empty() && !out.panicked && !key_gone && !data_less && ru::invariants(&out.post.zone()).is_empty() {
                    let mut h = node.history.clone();
                    h.push(msg.clone());
                    succ.push(Node { cfg: node.cfg, history: h, key: out.post.key(cfg.serial0) });
                } else {
                    sh.pruned.fetch_add(1, Ordering::Relaxed);
                }
            }
            w.rt.block_on(env.restore(&saved));
        }
    }
    succ
}

fn classify(sh: &Shared, w: &Worker, cfg: &Config, node: &Node, pre: &Pre, msg: &Msg, out: &StepOut, l: &mut Local) {
    let history = &node.history;
    let class = match (out.ref_accepted, out.rcode) {
        (_, None) => "no-rcode",
        (true, Some(0)) => {
            if out.changed {
                "applied-changing"
            } else {
                "applied-noop"
            }
        }
        (true, Some(_)) => "impl-rejected-valid",
        (false, Some(0)) => "impl-accepted-failing",
        (false, Some(_)) => "rejected",
    };
    l.outcome(class);
    for o in &out.observations {
        l.outcome(o);
    }
    if out.ref_accepted && out.changed {
        l.nontrivial(vupd::digest(&(node.cfg, node.key, msg)));
    } else if !out.ref_accepted && !history.is_empty() && !msg.prereqs.is_empty() {
        // rejected by a prerequisite whose outcome depends on an earlier message of the history:
        // the same prerequisites hold on the initial zone
        let z0 = ru::Zone { origin: ru::name_from_str(vupd::ORIGIN), class: ru::CLASS_IN, rrs: cfg.zone.clone() };
        let u = ru::Update { zname: ru::name_from_str(vupd::ORIGIN), ztype: ru::T_SOA, zclass: ru::CLASS_IN, prereqs: msg.prereqs.clone(), updates: vec![] };
        if ru::prerequisite_errors(&z0, &u).is_empty() && !ru::prerequisite_errors(&pre.zone, &u).is_empty() {
            l.nontrivial(vupd::digest(&(node.cfg, node.key, msg)));
            l.outcome("rejected-by-history-dependent-prerequisite");
        }
    }
    if !pre.snap.empty_keys.is_empty() {
        l.outcome("obs:pre-state-has-empty-rrset-key");
    }
    for f in &out.findings {
        let key = sh.keyer.key(w, f, &pre.snap, msg);
        l.violation(&key, &f.what, || {
            let mut j = case_json(&cfg.zone, history, msg);
            j["clause"] = json!(f.clause);
            j["dnssec_enabled"] = json!(cfg.dnssec);
            j["minimal_witness"] = sh.keyer.witness(&key).unwrap_or(Value::Null);
            j["pre_state"] = json!(pre.snap.text());
            j["post_state"] = json!(out.post.text());
            j["rcode"] = json!(out.rcode.map(ru::rcode_name));
            j
        });
    }
}

/// AXFR through the catalog must list exactly the RRs `records()` shows.
fn axfr_agrees(w: &Worker, env: &Env, snap: &Snap) -> Result<(), String> {
    let q = vupd::query_bytes(7, vupd::ORIGIN, hickory_proto::rr::RecordType::AXFR);
    let r = catch(|| w.rt.block_on(async { env.exchange(&q).await })).map_err(|p| format!("panic {}", p.msg))??;
    let mut got: Vec<Rr> = r.answers.clone();
    // leading and trailing SOA
    if got.len() >= 2 && got[0].rtype == ru::T_SOA && got[got.len() - 1] == got[0] {
        got.pop();
    }
    got.sort();
    let mut want = snap.rrs.clone();
    want.sort();
    if got != want {
        return Err(format!("AXFR lists {:?}, records() has {:?}", got.iter().map(vupd::rr_text).collect::<Vec<_>>(), snap.text()));
    }
    Ok(())
}

struct Task {
    node: usize,
    alpha: usize,
    lo: usize,
    hi: usize,
    want_succ: bool,
}

fn main() {
    // a stack overflow / abort in the code under test must become a verdict, not a dead check
    vcore::supervise("C12");
    vcore::install_log_evaluation(); // logging is part of the environment: log arguments are evaluated as under a real subscriber
    let ctx = Ctx::from_args("C12", "model_checking");
    let thorough = !ctx.quick();
    // one work unit is a few hundred real exchanges; leave room for a heavily loaded machine
    ctx.case_timeout_s.store(600, std::sync::atomic::Ordering::Relaxed);

    if let Some((_key, case)) = ctx.replay_case() {
        let w = Worker::new();
        let keyer = keying::Keyer::new();
        ctx.with_local(|l| {
            let zone: Vec<Rr> = case["initial_zone"].as_array().map(|a| a.iter().map(vupd::rr_from_json).collect()).unwrap_or_default();
            let history: Vec<Msg> = case["history"].as_array().map(|a| a.iter().map(Msg::from_json).collect()).unwrap_or_default();
            let msg = Msg::from_json(&case["message"]);
            let dn = case["dnssec_enabled"].as_bool().unwrap_or(false);
            if case["zone_section"].is_string() {
                layouts::run_zone_sections(&w, "replay", &zone, l);
                return;
            }
            if let Some(vn) = case["variant"].as_str() {
                let vars: Vec<layouts::Variant> = layouts::variants().into_iter().filter(|v| v.name() == vn).collect();
                let spec = MsgSpec { prereqs: msg.prereqs.iter().map(|r| alphabet::AtomSpec { rr: r.clone(), soa: None }).collect(), updates: msg.updates.iter().map(|r| alphabet::AtomSpec { rr: r.clone(), soa: None }).collect() };
                layouts::run_node(&ctx, &w, "replay", &zone, &history, &[spec], &vars, 0, 1, l);
                return;
            }
            let (env, snap) = rebuild(&w, &zone, dn, &history);
            let pre = Pre::of(&w, &env, snap, dn);
            if dn && history.is_empty() {
                for (scene, what) in pre.dnssec.iter().flatten() {
                    l.violation(&format!("{scene}:freshly-signed-zone"), what, || json!({"dnssec_enabled": true, "initial_zone": case["initial_zone"], "history": [], "message": case["message"]}));
                }
            }
            let out = step(&w, &env, &pre, &msg, 1000);
            l.eval();
            for f in &out.findings {
                let key = keyer.key(&w, f, &pre.snap, &msg);
                l.violation(&key, &f.what, || {
                    let mut j = case_json(&zone, &history, &msg);
                    j["post_state"] = json!(out.post.text());
                    j
                });
            }
            eprintln!("replay: pre={:?} rcode={:?} post={:?} findings={:?}", pre.snap.text(), out.rcode.map(ru::rcode_name), out.post.text(), out.findings);
        });
        ctx.finish(false);
    }

    let cfgs = alphabet::configs(thorough);
    let mut alphas: Vec<Vec<MsgSpec>> = vec![alphabet::m1(), alphabet::m1_core(), alphabet::m1_serial(), alphabet::m2(thorough), alphabet::m2b(thorough), alphabet::kinds()];
    // VERIF_SEED only permutes the enumeration order (a rotation of every alphabet)
    for a in alphas.iter_mut() {
        let n = a.len();
        a.rotate_left((ctx.seed as usize).wrapping_mul(7919) % n);
        if ctx.seed % 2 == 1 {
            a.reverse();
        }
    }
    const A_M1: usize = 0;
    const A_CORE: usize = 1;
    const A_SERIAL: usize = 2;
    const A_M2: usize = 3;
    const A_M2B: usize = 4;
    const A_KINDS: usize = 5;
    ctx.set("alphabet_m1", json!(alphas[A_M1].len()));
    ctx.set("alphabet_m1_core", json!(alphas[A_CORE].len()));
    ctx.set("alphabet_m1_serial", json!(alphas[A_SERIAL].len()));
    ctx.set("alphabet_m2", json!(alphas[A_M2].len()));
    ctx.set("alphabet_m2b", json!(alphas[A_M2B].len()));
    ctx.set("alphabet_kinds", json!(alphas[A_KINDS].len()));
    // vupd::kinds (the "one of every special kind" list C14 journals) must stay inside this
    // check's exhaustive update alphabet
    {
        let atoms: Vec<Rr> = alphabet::update_atoms().iter().map(|a| a.materialise(1000)).collect();
        for k in vupd::kinds::all() {
            for rr in (k.build)(1000).updates {
                if !atoms.contains(&rr) {
                    ctx.machinery_failure(&format!("vupd::kinds '{}' uses an update RR that is no atom of the C12 alphabet: {}", k.name, vupd::rr_text(&rr)));
                }
            }
        }
    }
    ctx.set("prerequisite_atoms", json!(alphabet::prereq_atoms().len()));
    ctx.set("update_atoms", json!(alphabet::update_atoms().len()));
    ctx.set("configs", json!(cfgs.iter().map(|c| c.name.clone()).collect::<Vec<_>>()));
    ctx.set_rule(
        "E-STATE over histories of signed UPDATE messages on the real Catalog -> SqliteZoneHandler (journal off). Universe: origin z., owners \
         {z., a.z., b.z., a.a.z., x.o.(out)} (+ *.z. in one initial zone), types {A,TXT,CNAME,NS,SOA,ANY + meta AXFR/MAILB}, RDATA A{.1,.2} TXT{t} \
         CNAME{a.z.,b.z.} NS{n1.o.,n2.o.} SOA serial {cur-1,cur,cur+1,cur+2,cur+2^31-1,cur+2^31}, TTL {0,60}. M1 = (<=1 prerequisite atom) x \
         (<=1 update atom) over every form of RFC 2136 tables 3.2.4 / 3.4.2.6 plus malformed variants; M1-core / M1-serial = the same product \
         over sub-alphabets; M2 = (<=2 prerequisites) x (<=3 updates) in every order over a sub-alphabet; M2b = EVERY update atom \
         next to each of 3 normally effective atoms (add A a.z., delete RRset a.z. A, add TXT b.z.) in both orders (thorough: also in the middle \
         of two of them), applied as one further step from every state at depth <= 1 of every root. Roots = 4 initial zones at serial 1 \
         and a zone at serials 0, 2^31-1 and 2^32-2. BFS: full M1 from every state up to the tier's full depth, M1-core below it to the tier's \
         core depth (quick: the deepest level only from every second state of the minimal root), M2 as one further step from every state up to its depth; canonical key = zone content + empty RRset keys + serial \
         delta; only conforming successors are expanded. Oracle per transition: vref::update (RFC 2136 3.2/3.4 pseudocode, RFC 1982) on the \
         raw request bytes and the implementation's pre-state: rcode in the acceptable set, rejected => unchanged, accepted => zone equals an \
         acceptable reference zone, invariants (one SOA, apex NS, CNAME alone), serial strictly advanced iff content changed. Non-trivial = \
         distinct (state, message) with an accepted zone-changing update or a rejection by a prerequisite that holds on the initial zone. \
         Audit round: atoms for the opaque-RDATA type NULL (empty and non-empty RDATA, prerequisite and update position) and for every query \
         meta type (ANY, AXFR, IXFR, MAILB, MAILA) in every class arm of the prescan; two roots signed with NSEC3 (chain = RFC 5155 7.1 of the \
         current content, vref::denial::nsec3_chain) and the kinds alphabet as a second step below the expanded signed states; VARIANT family \
         (differential against the plain run of the same message on the same state, every state at depth 0, a slice at depth 1, thorough all of \
         depth <= 1 and a slice of depth 2, M1-core + kinds + NULL/meta atoms + a slice of M2): the message HAND-ENCODED (vupd::raw, signed by \
         vref::tsig) uncompressed / compressed against the zone name / upper case / both / with a glue record / with an OPT before the TSIG, \
         the hickory-encoded message over UDP, and on a handler with a journal attached; ZONE-SECTION family (hand-encoded): ZTYPE in {A, NS, \
         ANY, AXFR} must be FORMERR and change nothing (RFC 2136 3.1.1, Catalog::update); ZOCOUNT 0/2, ZCLASS CH/ANY/NONE, ZNAME inside / \
         outside / above the zone are counted observations only (RFC 2136 3.1.2 NOTAUTH; the statement speaks of prerequisites, prescan and \
         3.4.2 contents, not of section 3.1). Sixth seed round: zone-class update RRs with RDLENGTH 0 of the types the add arm treats \
         specially (SOA, CNAME, NS) and of A, at the apex and off it, alone, next to every effective atom and before / after a well-formed \
         RR of the same type and owner; for such messages no panic, rejected => unchanged, the zone invariants and 'serial does not move \
         backwards' are judged, what is stored is observed (the reference forks: ignored or stored), states holding a data-less RR are not expanded.",
    );
    ctx.assume("vref::update is the RFC 2136 3.2-3.4 / RFC 1982 reference; where prose and pseudocode disagree or precedence is not fixed it accepts every reading");
    ctx.assume("the only state update() reads is the record store (journal off, DNSSEC off): putting the saved store content back after a message equals rebuilding from the history (self-tested on a fixed slice of transitions)");
    ctx.assume("TSIG signing/verification is correct for honest requests (C13)");

    let sh = Shared {
        ctx: &ctx,
        cfgs: &cfgs,
        keyer: keying::Keyer::new(),
        validated: AtomicU64::new(0),
        selftest_mismatch: AtomicU64::new(0),
        selftests: AtomicU64::new(0),
        pruned: AtomicU64::new(0),
    };

    // roots
    let mut frontier: Vec<Node> = vec![];
    let mut seen: HashSet<(usize, u64)> = HashSet::new();
    {
        let w = Worker::new();
        for (ci, cfg) in cfgs.iter().enumerate() {
            let (env, snap) = rebuild(&w, &cfg.zone, cfg.dnssec, &[]);
            let mut want = cfg.zone.clone();
            want.sort();
            if cfg.dnssec {
                let bad = dnssec::check(&dnssec::view(&w.rt.block_on(env.save())), vupd::NOW);
                let mut loaded = snap.clone();
                loaded.rrs.retain(|r| r.rtype != dnssec::T_DNSKEY);
                want.retain(|r| !dnssec::is_dnssec_type(r.rtype));
                if loaded.content() != (Snap { rrs: want.clone(), empty_keys: vec![] }).content() {
                    ctx.machinery_failure(&format!("the signed initial zone {} does not load as written", cfg.name));
                }
                // signed by the real add_zone_signing_key_mut + secure_zone_mut: must be well-formed
                ctx.with_local(|l| {
                    l.eval();
                    for (scene, what) in &bad {
                        l.violation(&format!("{scene}:freshly-signed-zone"), &format!("the zone {} as signed by secure_zone_mut() is not well-formed: {what}", cfg.name), || {
                            json!({"dnssec_enabled": true, "initial_zone": cfg.zone.iter().map(vupd::rr_json).collect::<Vec<_>>(), "history": [], "message": Msg::default().to_json()})
                        });
                    }
                    if bad.is_empty() {
                        l.outcome("obs:dnssec:freshly-signed-zone-well-formed");
                    }
                });
            } else if snap.rrs != want || !snap.empty_keys.is_empty() {
                ctx.machinery_failure(&format!("initial zone {} does not load as written: {:?}", cfg.name, snap.text()));
            }
            if !cfg.dnssec {
                if let Err(e) = axfr_agrees(&w, &env, &snap) {
                    ctx.machinery_failure(&format!("AXFR of the initial zone {}: {e}", cfg.name));
                }
            }
            let k = snap.key(cfg.serial0);
            seen.insert((ci, k));
            frontier.push(Node { cfg: ci, history: vec![], key: k });
        }
    }

    // depth plan: a state at depth d (= history length) gets the full M1 alphabet if d < d_full,
    // M1-core if d_full <= d < d_core, nothing at d = d_core; M2 (one further step, successors
    // judged but not expanded) if d <= d_m2. Roots marked serial_focus use M1-serial throughout.
    let (d_full, d_core, d_m2): (usize, usize, i32) = if thorough { (2, 5, 1) } else { (1, 3, 0) };
    ctx.set("depth_m1_full", json!(d_full));
    ctx.set("depth_m1_core", json!(d_core));
    ctx.set("depth_m2_from_states_up_to", json!(d_m2));
    // DNSSEC-enabled roots: M1-core from every state at depth < d_dnssec, M2b from the roots
    let d_dnssec: usize = if thorough { 3 } else { 1 };
    ctx.set("depth_dnssec_roots", json!(d_dnssec));
    let max_depth = d_core.max(d_full);

    let mut dups: Vec<Node> = vec![];
    let mut all_states: Vec<Node> = frontier.clone();
    let mut per_depth = vec![frontier.len() as u64];
    let mut depth = 0usize;
    let mut state_changing = 0u64;
    const CHUNK: usize = 256;
    while !frontier.is_empty() && depth < max_depth {
        if ctx.out_of_time() {
            ctx.cap(&format!("wall-clock budget reached at BFS depth {depth}"));
            break;
        }
        let mut tasks: Vec<Task> = vec![];
        for (ni, n) in frontier.iter().enumerate() {
            let cfg = &cfgs[n.cfg];
            if cfg.dnssec && depth >= d_dnssec {
                // second step on a signed zone: every update-RR kind once more from every state
                // one level below the expanded ones (NSEC / NSEC3 chain and serial state carried over)
                if depth == d_dnssec {
                    let n = alphas[A_KINDS].len();
                    tasks.push(Task { node: ni, alpha: A_KINDS, lo: 0, hi: n, want_succ: false });
                }
                continue;
            }
            if !thorough && depth >= 2 && (n.cfg >= 1 || n.key % 2 == 1) && !cfg.serial_focus {
                // quick: the deepest level only from the minimal zone, every second state
                // (a deterministic slice by state key)
                continue;
            }
            let a = if cfg.serial_focus {
                A_SERIAL
            } else if cfg.dnssec {
                A_CORE
            } else if depth < d_full {
                A_M1
            } else {
                A_CORE
            };
            let mut push = |alpha: usize, want_succ: bool| {
                let n = alphas[alpha].len();
                let mut lo = 0;
                while lo < n {
                    tasks.push(Task { node: ni, alpha, lo, hi: (lo + CHUNK).min(n), want_succ });
                    lo += CHUNK;
                }
            };
            push(a, true);
            if (depth as i32) <= d_m2 && !cfg.serial_focus && !cfg.dnssec {
                push(A_M2, false);
            }
            if depth <= 1 && (!cfg.dnssec || depth == 0) {
                push(A_M2B, false);
                push(A_KINDS, false);
            }
        }
        let results: Mutex<Vec<(u64, Vec<Node>)>> = Mutex::new(vec![]);
        let fr = &frontier;
        ctx.par_run_init(
            tasks.len() as u64,
            1,
            |_| Worker::new(),
            |i, l, w| {
                let t = &tasks[i as usize];
                let succ = expand(&sh, w, &fr[t.node], &alphas[t.alpha], t.lo, t.hi, l, t.want_succ);
                if !succ.is_empty() {
                    results.lock().unwrap().push((i, succ));
                }
            },
        );
        let mut results = results.into_inner().unwrap();
        results.sort_by_key(|r| r.0);
        let mut next = vec![];
        for (_, succ) in results {
            for n in succ {
                state_changing += 1;
                if seen.insert((n.cfg, n.key)) {
                    next.push(n);
                } else if n.key % 97 == 0 && dups.len() < 400 {
                    // another history that reaches an already known canonical state
                    dups.push(n);
                }
            }
        }
        depth += 1;
        if std::env::var("VERIF_TRACE").is_ok() {
            eprintln!("[C12] level {} done: {} tasks, {} new states, {} transitions so far, {:.1}s", depth, tasks.len(), next.len(), sh.validated.load(Ordering::Relaxed), ctx.elapsed_s());
        }
        per_depth.push(next.len() as u64);
        all_states.extend(next.iter().cloned());
        frontier = next;
    }
    let fixpoint = frontier.is_empty();
    ctx.states.store(seen.len() as u64, Ordering::SeqCst);
    ctx.transitions.store(sh.validated.load(Ordering::SeqCst), Ordering::SeqCst);
    ctx.traces_validated.store(sh.validated.load(Ordering::SeqCst), Ordering::SeqCst);
    ctx.set("bfs_states_per_depth", json!(per_depth));
    ctx.set("depth", json!(depth));
    ctx.set("fixpoint", json!(fixpoint));
    ctx.set("conforming_state_changing_transitions", json!(state_changing));
    ctx.set("successors_not_expanded_after_a_violating_transition", json!(sh.pruned.load(Ordering::SeqCst)));

    // AXFR cross-check on a deterministic sub-grid of the states found
    {
        let picked: Vec<&Node> = all_states.iter().filter(|n| n.key % 16 == 0 || n.history.len() <= 1).collect();
        ctx.set("axfr_cross_checked_states", json!(picked.len()));
        ctx.par_run_init(picked.len() as u64, 8, |_| Worker::new(), |i, l, w| {
            let n = picked[i as usize];
            let cfg = &cfgs[n.cfg];
            if cfg.dnssec {
                return;
            }
            let (env, snap) = rebuild(w, &cfg.zone, false, &n.history);
            l.eval();
            match axfr_agrees(w, &env, &snap) {
                Ok(()) => l.outcome("axfr-agrees"),
                Err(e) => l.violation("axfr-differs-from-records", &e, || case_json(&cfg.zone, &n.history, &Msg::default())),
            }
        });
    }

    // audit round: hand-encoded layouts, UDP, journal attached (differential against the plain
    // run), and zone sections RFC 2136 3.1.1 rejects
    {
        let vars = layouts::variants();
        let msgs = layouts::messages(thorough);
        ctx.set("variant_family_messages", json!(msgs.len()));
        ctx.set("variant_family_variants", json!(vars.iter().map(|v| v.name()).collect::<Vec<_>>()));
        let picked: Vec<&Node> = all_states
            .iter()
            .filter(|n| !cfgs[n.cfg].dnssec)
            .filter(|n| match n.history.len() {
                0 => true,
                1 => thorough || n.key % 8 == 0,
                2 => thorough && n.key % 16 == 0,
                _ => false,
            })
            .collect();
        ctx.set("variant_family_states", json!(picked.len()));
        const VCHUNK: usize = 64;
        let mut vtasks: Vec<(usize, usize, usize)> = vec![];
        for (pi, _) in picked.iter().enumerate() {
            let mut lo = 0;
            while lo < msgs.len() {
                vtasks.push((pi, lo, (lo + VCHUNK).min(msgs.len())));
                lo += VCHUNK;
            }
        }
        ctx.par_run_init(vtasks.len() as u64, 1, |_| Worker::new(), |i, l, w| {
            let (pi, lo, hi) = vtasks[i as usize];
            let n = picked[pi];
            let cfg = &cfgs[n.cfg];
            layouts::run_node(&ctx, w, &cfg.name, &cfg.zone, &n.history, &msgs, &vars, lo, hi, l);
        });
        let roots: Vec<&Config> = cfgs.iter().filter(|c| !c.dnssec && !c.serial_focus).collect();
        ctx.par_run_init(roots.len() as u64, 1, |_| Worker::new(), |i, l, w| {
            let c = roots[i as usize];
            layouts::run_zone_sections(w, &c.name, &c.zone, l);
        });
    }

    // canonical-key argument: "same key, different history => same future". For a fixed slice of
    // the histories that were dropped as duplicates, the whole M1-core alphabet is applied to the
    // duplicate and to the representative of its key; every transition must look the same.
    {
        let mut reps: std::collections::HashMap<(usize, u64), &Node> = std::collections::HashMap::new();
        for n in &all_states {
            reps.entry((n.cfg, n.key)).or_insert(n);
        }
        let pairs: Vec<(&Node, &Node)> = dups.iter().filter_map(|d| reps.get(&(d.cfg, d.key)).map(|r| (d, *r))).filter(|(d, r)| d.history != r.history).collect();
        ctx.set("same_key_different_history_pairs_compared", json!(pairs.len()));
        let mismatches = AtomicU64::new(0);
        let core = &alphas[A_CORE];
        ctx.par_run_init(pairs.len() as u64, 1, |_| Worker::new(), |i, l, w| {
            let (d, r) = pairs[i as usize];
            let cfg = &cfgs[d.cfg];
            let fut = |n: &Node| -> Vec<u64> {
                let (env, snap) = rebuild(w, &cfg.zone, cfg.dnssec, &n.history);
                let pre = Pre::of(w, &env, snap, cfg.dnssec);
                let saved = w.rt.block_on(env.save());
                let cur = pre.serial.unwrap_or(0);
                core.iter()
                    .enumerate()
                    .map(|(mi, spec)| {
                        let out = step(w, &env, &pre, &spec.materialise(cur), 1000 + mi as u16);
                        if out.changed {
                            w.rt.block_on(env.restore(&saved));
                        }
                        out.digest()
                    })
                    .collect()
            };
            l.evals_add(2 * core.len() as u64);
            if fut(d) != fut(r) {
                mismatches.fetch_add(1, Ordering::Relaxed);
                l.violation(
                    "canonical-key:same-key-different-future",
                    "two histories with the same canonical state key react differently to the same message: the state key misses something observable",
                    || json!({"history_a": d.history.iter().map(|m| m.text()).collect::<Vec<_>>(), "history_b": r.history.iter().map(|m| m.text()).collect::<Vec<_>>(), "config": cfg.name}),
                );
            } else {
                l.outcome("same-key-same-future");
            }
        });
    }

    let st = sh.selftests.load(Ordering::SeqCst);
    ctx.set("selftest_transitions_rebuilt_from_history", json!(st));
    if sh.selftest_mismatch.load(Ordering::SeqCst) > 0 {
        ctx.machinery_failure("determinism self-test: a transition gave another outcome when its handler was rebuilt from the history");
    }
    if st == 0 {
        ctx.machinery_failure("determinism self-test did not run");
    }
    for class in ["applied-changing", "applied-noop", "rejected", "rejected-by-history-dependent-prerequisite", "obs:several-rcodes-applicable", "same-key-same-future", "axfr-agrees"] {
        if ctx.outcome_count(class) == 0 {
            ctx.machinery_failure(&format!("vacuous run: outcome class {class} never exercised"));
        }
    }
    ctx.with_local(|l| {
        for c in cfgs.iter().take(4) {
            l.sample(json!({"config": c.name, "zone": c.zone.iter().map(vupd::rr_text).collect::<Vec<_>>()}));
        }
        for a in [A_M1, A_M2] {
            for m in alphas[a].iter().step_by((alphas[a].len() / 5).max(1)) {
                l.sample(json!({"message": m.materialise(1).text()}));
            }
        }
        if let Some(n) = all_states.last() {
            l.sample(json!({"deepest_history": n.history.iter().map(|m| m.text()).collect::<Vec<_>>()}));
        }
    });
    // depth-bounded (the serial delta is part of the key): exhaustive over the declared bounded space
    ctx.finish(true);
}
