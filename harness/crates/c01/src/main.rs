// stub created by the lead so that the workspace always loads; replace it with the check
fn main() {}
