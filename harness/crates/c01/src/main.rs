//! C01 — wire decoding is total: any bytes give Ok or Err, never a panic or hang, in linear work;
//! no decoded name exceeds 255 octets, no label exceeds 63.
//!
//! E-ENUM over four exhaustive families (see `c01::families`), each string decoded by the real
//! entry points (`Message::from_vec`, `Request::from_bytes`, `DnsResponse::from_buffer`,
//! `signed_bitmessage_to_buf`, `Record::read`, `Name::read`, `RData::read` for every type code).
//!
//! Oracle: (a) the call returns (panics are caught and keyed by source location); (b) decoder
//! work (hook counter: one tick per `Name` state-machine step and per `BinDecoder::{pop,read_slice}`)
//! is at most C1*|b| + C0, and in the growth families work per octet does not keep growing with n;
//! (c) every `Name` in a decoded value has <= 255 wire octets and labels <= 63, measured from the
//! label iterator.

use std::sync::Mutex;

use c01::alphabet::{rdata_alphabet, record_alphabet};
use c01::entry::{decode, Entry};
use c01::families::{self, HEADER_SHAPES, S};
use c01::seeds;
use serde_json::{json, Value};
use vcore::{catch, fnv64, hex, Ctx, Local};

/// Work bound. Derivation (recorded in the evidence): a name has at most 127 labels (4 ticks
/// each) and — once pointer chasing is bounded by the number of labels a name can have — at most
/// 128 pointer hops (3 ticks each) plus 3 ticks for the root: 895 ticks. The densest way to
/// reference a name is a 2-octet pointer in a 6-octet question: 149.2 ticks per octet. Everything
/// else the decoder does costs <= 2 ticks per octet. C1 = 256 leaves a factor 1.7 above that
/// worst *linear* case; the honest seed corpus stays below 8 ticks per octet (measured each run).
const C1: u64 = 256;
const C0: u64 = 4096;

fn bound(len: usize) -> u64 {
    C1 * len as u64 + C0
}

#[derive(Default)]
struct Tally {
    ok: u64,
    errs: Vec<(&'static str, u64)>,
    nontrivial: u64,
    max_ticks: u64,
}

impl Tally {
    #[inline]
    fn err(&mut self, e: &'static str) {
        for x in self.errs.iter_mut() {
            if std::ptr::eq(x.0, e) || x.0 == e {
                x.1 += 1;
                return;
            }
        }
        self.errs.push((e, 1));
    }
    fn flush(self, fam: &str, class: &str, l: &mut Local) {
        let mut add = |k: String, n: u64| {
            if n > 0 {
                *l.outcomes.entry(k).or_insert(0) += n;
            }
        };
        add(format!("{fam}:{class}:accepted"), self.ok);
        add(format!("{fam}:nontrivial-by-construction"), self.nontrivial);
        for (e, n) in self.errs {
            add(format!("err:{e}"), n);
            add(format!("{fam}:{class}:rejected"), n);
        }
    }
}

/// Decode one input through one entry point and judge it. `hashed`: count the input in the
/// hash-set based `distinct_nontrivial` (otherwise it is distinct by construction of the family).
#[inline]
fn judge(entry: Entry, buf: &[u8], work_key: Option<&str>, hashed: bool, t: &mut Tally, l: &mut Local, case: &dyn Fn() -> Value) {
    l.eval();
    match catch(|| decode(entry, buf)) {
        Err(p) => l.violation(&format!("panic:{}", vcore::short_loc(&p.loc)), &format!("{} panicked: {}", entry.class(), p.msg), case),
        Ok(o) => {
            if o.ticks > t.max_ticks {
                t.max_ticks = o.ticks;
            }
            if let Some(k) = work_key {
                if o.ticks > bound(buf.len()) {
                    l.violation(
                        k,
                        &format!("{} decoder ticks for {} octets (bound {}*len+{})", o.ticks, buf.len(), C1, C0),
                        case,
                    );
                }
            }
            if let Some((clause, what)) = &o.name_violation {
                l.violation(&format!("name-limit:{clause}:{}", entry.class()), &format!("decoded value holds a name with {what}"), case);
            }
            let nontrivial = o.ok || o.err != "InsufficientBytes";
            if o.ok {
                t.ok += 1;
            } else {
                t.err(o.err);
            }
            if nontrivial {
                if hashed {
                    l.nontrivial(fnv64(buf) ^ fnv64(entry.label().as_bytes()).rotate_left(17));
                } else {
                    t.nontrivial += 1;
                }
            }
        }
    }
}

fn byte_case(entry: Entry, buf: &[u8]) -> Value {
    json!({"entry": entry.label(), "hex": hex::enc(buf)})
}

// ------------------------------------------------------------------------------------------
// families 1 and 2: blocks of strings behind a fixed prefix

#[derive(Clone)]
struct Block {
    fam: &'static str,
    entry: Entry,
    /// bytes before the enumerated string: a header shape, or the pointer-target prefix
    prefix: Vec<u8>,
    /// how to rebuild `prefix` in a replay: "none", "hdr:<shape index>", "pfx:<length>"
    prefix_tag: String,
    /// None = all 256 octet values
    alphabet: Option<&'static [u8]>,
    len: usize,
    first: u64,
    count: u64,
}

fn prefix_tag(prefix: &[u8]) -> String {
    if prefix.is_empty() {
        return "none".into();
    }
    if let Some(i) = HEADER_SHAPES.iter().position(|h| h.bytes()[..] == *prefix) {
        return format!("hdr:{i}");
    }
    format!("pfx:{}", prefix.len())
}

fn prefix_from_tag(tag: &str) -> Vec<u8> {
    if let Some(i) = tag.strip_prefix("hdr:") {
        return HEADER_SHAPES[i.parse::<usize>().unwrap_or(0) % HEADER_SHAPES.len()].bytes().to_vec();
    }
    if let Some(n) = tag.strip_prefix("pfx:") {
        return families::pointer_target_prefix(n.parse().unwrap_or(12));
    }
    vec![]
}

impl Block {
    /// self-describing text used as the watchdog's case descriptor (a hang has no other witness)
    fn desc(&self) -> String {
        format!(
            "block|{}|{}|{}|{}|{}|{}|{}",
            self.fam,
            self.entry.label(),
            self.prefix_tag,
            if self.alphabet.is_some() { "S" } else { "all" },
            self.len,
            self.first,
            self.count
        )
    }
    fn parse(desc: &str) -> Option<Block> {
        let f: Vec<&str> = desc.split('|').collect();
        if f.len() != 8 || f[0] != "block" {
            return None;
        }
        Some(Block {
            fam: if f[1] == "f1" { "f1" } else { "f2" },
            entry: Entry::parse(f[2])?,
            prefix: prefix_from_tag(f[3]),
            prefix_tag: f[3].to_string(),
            alphabet: if f[4] == "S" { Some(&S) } else { None },
            len: f[5].parse().ok()?,
            first: f[6].parse().ok()?,
            count: f[7].parse().ok()?,
        })
    }
}

fn blocks_for(fam: &'static str, entry: Entry, prefix: &[u8], alphabet: Option<&'static [u8]>, max_len: usize, out: &mut Vec<Block>) {
    let k = alphabet.map(|a| a.len() as u64).unwrap_or(256);
    let per_block: u64 = 1 << 16;
    for len in 0..=max_len {
        let total = k.pow(len as u32);
        let mut first = 0;
        while first < total {
            let count = per_block.min(total - first);
            out.push(Block { fam, entry, prefix: prefix.to_vec(), prefix_tag: prefix_tag(prefix), alphabet, len, first, count });
            first += count;
        }
    }
}

fn run_block(ctx: &Ctx, b: &Block, l: &mut Local) {
    ctx.watch(l.worker, || b.desc());
    let mut buf = b.prefix.clone();
    let plen = buf.len();
    let mut t = Tally::default();
    let work_key = format!("work-bound:{}", b.entry.class());
    let hashed = b.len <= 2;
    for i in b.first..b.first + b.count {
        buf.truncate(plen);
        match b.alphabet {
            Some(a) => families::string_at(a, b.len, i, &mut buf),
            None => families::bytes_at(b.len, i, &mut buf),
        }
        let e = b.entry;
        judge(e, &buf, Some(&work_key), hashed, &mut t, l, &|| byte_case(e, &buf));
    }
    if b.first == 0 && b.len == 2 {
        l.sample(json!({"family": b.fam, "entry": b.entry.label(), "prefix_len": plen, "len": b.len, "strings": b.count}));
    }
    t.flush(b.fam, b.entry.class(), l);
}

fn build_blocks(thorough: bool) -> Vec<Block> {
    let mut v = vec![];
    let codes = families::rdata_type_codes();
    let distinct = families::distinct_decoder_codes();
    let pfx12 = families::pointer_target_prefix(12);
    let pfx3ffe = families::pointer_target_prefix(0x3ffe);

    // family 1: every byte string of length 0..=L
    let l1 = if thorough { 3 } else { 2 };
    for h in HEADER_SHAPES.iter() {
        for e in [Entry::Message, Entry::Request, Entry::TsigTbs] {
            blocks_for("f1", e, &h.bytes(), None, l1, &mut v);
        }
    }
    for e in [Entry::Message, Entry::Request, Entry::Response, Entry::TsigTbs, Entry::Record { off: 0 }, Entry::Name { off: 0 }] {
        blocks_for("f1", e, &[], None, l1, &mut v);
    }
    for e in [Entry::Record { off: 12 }, Entry::Name { off: 12 }] {
        blocks_for("f1", e, &pfx12, None, l1, &mut v);
    }
    for &c in &codes {
        blocks_for("f1", Entry::Rdata { rtype: c, off: 0 }, &[], None, l1, &mut v);
    }
    for &c in &distinct {
        blocks_for("f1", Entry::Rdata { rtype: c, off: 12 }, &pfx12, None, l1, &mut v);
    }

    // family 2: every string over S
    let (l_body, l_rdata, l_name) = if thorough { (7, 6, 7) } else { (6, 5, 6) };
    for h in HEADER_SHAPES.iter() {
        for e in [Entry::Message, Entry::Request, Entry::TsigTbs] {
            // quick: the two entry points that share Message's record readers stay one octet shorter
            let lb = if !thorough && e != Entry::Message { l_body - 1 } else { l_body };
            blocks_for("f2", e, &h.bytes(), Some(&S), lb, &mut v);
        }
    }
    for h in HEADER_SHAPES.iter().filter(|h| h.flags & 0x8000 == 0) {
        blocks_for("f2", Entry::FrontDoor, &h.bytes(), Some(&S), l_rdata, &mut v);
    }
    blocks_for("f1", Entry::FrontDoor, &[], None, 2, &mut v);
    for &c in &codes {
        blocks_for("f2", Entry::Rdata { rtype: c, off: 0 }, &[], Some(&S), l_rdata, &mut v);
    }
    for &c in &distinct {
        blocks_for("f2", Entry::Rdata { rtype: c, off: 12 }, &pfx12, Some(&S), l_rdata, &mut v);
    }
    blocks_for("f2", Entry::Name { off: 0 }, &[], Some(&S), l_name, &mut v);
    // the name starts at every offset k of the string: octets before k are its own pointer targets
    // (all small pointer graphs, incl. loops among earlier pointers)
    for k in 1..=l_name {
        let at = v.len();
        blocks_for("f2", Entry::Name { off: k as u16 }, &[], Some(&S), l_name, &mut v);
        let kept: Vec<Block> = v.drain(at..).filter(|b| b.len >= k).collect();
        v.extend(kept);
    }
    blocks_for("f2", Entry::Name { off: 12 }, &pfx12, Some(&S), l_name, &mut v);
    blocks_for("f2", Entry::Name { off: 0x3ffe }, &pfx3ffe, Some(&S), l_name, &mut v);
    blocks_for("f2", Entry::Record { off: 0 }, &[], Some(&S), l_name, &mut v);
    blocks_for("f2", Entry::Record { off: 12 }, &pfx12, Some(&S), l_name, &mut v);
    v
}

// ------------------------------------------------------------------------------------------
// family 3: edit neighbourhoods

#[derive(Clone)]
struct EditItem {
    tag: String,
    entry: Entry,
    prefix: Vec<u8>,
    seed: Vec<u8>,
    pairs: bool,
}

fn run_edit_item(it: &EditItem, l: &mut Local) {
    let mut t = Tally::default();
    let work_key = format!("work-bound:{}", it.entry.class());
    let e = it.entry;
    let mut buf = it.prefix.clone();
    let plen = buf.len();
    // the seed itself must be accepted (otherwise the neighbourhood is not centred on a valid input)
    buf.extend_from_slice(&it.seed);
    let honest = catch(|| decode(e, &buf));
    match &honest {
        Ok(o) if o.ok => l.outcome("f3:seed-accepted"),
        Ok(o) => {
            // Request only takes QDCOUNT=1 messages, DnsResponse only responses, the TSIG parser only signed ones
            l.outcome(&format!("f3:seed-rejected:{}:{}", e.class(), o.err));
        }
        Err(_) => {}
    }
    let mut disagree = (0u64, 0u64);
    let n = families::edits(&it.seed, it.pairs, |s| {
        buf.truncate(plen);
        buf.extend_from_slice(s);
        let before = t.ok;
        judge(e, &buf, Some(&work_key), true, &mut t, l, &|| byte_case(e, &buf));
        // observation only (the statement does not demand agreement): server-side request
        // decoding vs. Message::from_vec on inputs with QDCOUNT = 1
        if e == Entry::Request && buf.len() >= 12 && buf[4] == 0 && buf[5] == 1 {
            let req_ok = t.ok > before;
            if let Ok(o) = catch(|| decode(Entry::Message, &buf)) {
                if o.ok && !req_ok {
                    disagree.0 += 1;
                } else if !o.ok && req_ok {
                    disagree.1 += 1;
                }
            }
        }
    });
    if disagree.0 > 0 {
        *l.outcomes.entry("obs:qd1-message-accepts-request-rejects".into()).or_insert(0) += disagree.0;
    }
    if disagree.1 > 0 {
        *l.outcomes.entry("obs:qd1-request-accepts-message-rejects".into()).or_insert(0) += disagree.1;
    }
    if l.samples.len() < 2 {
        l.sample(json!({"family": "f3", "seed": it.tag, "entry": e.label(), "seed_len": it.seed.len(), "edits": n}));
    }
    t.flush("f3", e.class(), l);
}

fn build_edit_items(thorough: bool, entries: &[c01::alphabet::Entry], msg_seeds: &[seeds::Seed]) -> Vec<EditItem> {
    let mut items: Vec<EditItem> = vec![];
    for s in msg_seeds {
        for e in [Entry::Message, Entry::Request, Entry::Response, Entry::TsigTbs] {
            items.push(EditItem { tag: s.tag.clone(), entry: e, prefix: vec![], seed: s.bytes.clone(), pairs: false });
        }
        // the server's front door drops responses at its first gate: it gets the query-shaped twin (QR cleared)
        let mut q = s.bytes.clone();
        q[2] &= 0x7f;
        items.push(EditItem { tag: format!("query-twin:{}", s.tag), entry: Entry::FrontDoor, prefix: vec![], seed: q, pairs: false });
    }
    let pfx12 = families::pointer_target_prefix(12);
    for (tag, t, w) in seeds::rdata_seeds(entries) {
        // RDATA seeds are short: their complete two-substitution neighbourhood over S is part of the quick tier
        items.push(EditItem { tag: tag.clone(), entry: Entry::Rdata { rtype: t, off: 0 }, prefix: vec![], seed: w.clone(), pairs: thorough || w.len() <= 48 });
        items.push(EditItem { tag, entry: Entry::Rdata { rtype: t, off: 12 }, prefix: pfx12.clone(), seed: w, pairs: false });
    }
    for (tag, w) in seeds::record_seeds(entries) {
        items.push(EditItem { tag: tag.clone(), entry: Entry::Record { off: 0 }, prefix: vec![], seed: w.clone(), pairs: false });
        items.push(EditItem { tag, entry: Entry::Record { off: 12 }, prefix: pfx12.clone(), seed: w, pairs: false });
    }
    for (tag, w) in seeds::name_seeds() {
        items.push(EditItem { tag: tag.clone(), entry: Entry::Name { off: 0 }, prefix: vec![], seed: w.clone(), pairs: thorough && w.len() < 100 });
        items.push(EditItem { tag, entry: Entry::Name { off: 12 }, prefix: pfx12.clone(), seed: w, pairs: false });
    }
    if thorough {
        // pairs of S-substitutions on every message seed of at most 160 octets
        for s in msg_seeds {
            if s.bytes.len() <= 160 {
                items.push(EditItem { tag: format!("pairs:{}", s.tag), entry: Entry::Message, prefix: vec![], seed: s.bytes.clone(), pairs: true });
            }
        }
    }
    items
}

// ------------------------------------------------------------------------------------------
// family 1b: RData::read for ALL 65,536 type codes; family 5: all values of every 16-bit window

/// Type codes 256*chunk .. 256*chunk+255: every string of length <= 1 and the RFC RDATA of every
/// alphabet entry, decoded as RDATA of that type.
fn run_type_chunk(chunk: u64, wires: &[Vec<u8>], l: &mut Local) {
    let mut t = Tally::default();
    let mut buf: Vec<u8> = vec![];
    for code in chunk * 256..chunk * 256 + 256 {
        let e = Entry::Rdata { rtype: code as u16, off: 0 };
        for len in 0..=1usize {
            for i in 0..256u64.pow(len as u32) {
                buf.clear();
                families::bytes_at(len, i, &mut buf);
                judge(e, &buf, Some("work-bound:rdata"), false, &mut t, l, &|| byte_case(e, &buf));
            }
        }
        for w in wires {
            judge(e, w, Some("work-bound:rdata"), false, &mut t, l, &|| byte_case(e, w));
        }
    }
    t.flush("f1b", "rdata", l);
}

struct WinItem {
    tag: String,
    seed: Vec<u8>,
    lo: usize,
    hi: usize,
}

/// One-record messages (answer / additional section, plain and UPDATE) around the RFC RDATA of the
/// alphabet entries, OPT and TSIG. Quick: the first entry of every type, windows over the record's
/// fixed fields and its first 24 RDATA octets; thorough: every entry, every window from the flags word on.
fn build_win_items(thorough: bool, entries: &[c01::alphabet::Entry]) -> Vec<WinItem> {
    let mut items = vec![];
    let mut seen = std::collections::BTreeSet::new();
    let mut buf = vec![];
    for (tag, t, w) in seeds::rdata_seeds(entries) {
        if !thorough && !seen.insert(t) {
            continue;
        }
        families::message_with_rdata(t, &w, false, &mut buf);
        let (lo, hi) = if thorough { (2, buf.len()) } else { (12, buf.len().min(12 + 11 + 24)) };
        items.push(WinItem { tag: tag.clone(), seed: buf.clone(), lo, hi });
        if thorough {
            families::message_with_rdata(t, &w, true, &mut buf);
            items.push(WinItem { tag: format!("update:{tag}"), seed: buf.clone(), lo: 12, hi: buf.len().min(12 + 11 + 8) });
        }
    }
    items
}

fn run_win_item(it: &WinItem, l: &mut Local) {
    let mut t = Tally::default();
    let n = families::windows16(&it.seed, it.lo, it.hi, |b| {
        judge(Entry::Message, b, Some("work-bound:message"), false, &mut t, l, &|| byte_case(Entry::Message, b));
    });
    if l.samples.len() < 3 {
        l.sample(json!({"family": "f5", "seed": it.tag, "windows": [it.lo, it.hi], "strings": n}));
    }
    t.flush("f5", "message", l);
}

// ------------------------------------------------------------------------------------------
// family 6: consistent resizes of inner length-prefixed fields

/// The resize family of one RDATA seed (see `c01::layout`): every resized tree is decoded as a
/// message, a request, through the front door, by the TSIG parser, as a record and as bare RDATA.
fn run_resize_item(tag: &str, rtype: u16, wire: &[u8], l: &mut Local) -> bool {
    use c01::layout;
    let Some(rd) = layout::rdata_layout(rtype, wire) else { return false };
    let (tree, rd_at) = layout::message_tree(rtype, rd);
    let mut t = Tally::default();
    let mut msg: Vec<u8> = vec![];
    let mut rdata: Vec<u8> = vec![];
    // the owner name starts after header, question name (2 labels + root) and QTYPE/QCLASS
    let owner_at = 5;
    let n = layout::resize_family(&tree, rd_at, |tr, _what| {
        msg.clear();
        if !layout::serialize(tr, &mut msg) || msg.len() > 65535 {
            return;
        }
        for e in [Entry::Message, Entry::Request, Entry::FrontDoor, Entry::TsigTbs] {
            judge(e, &msg, Some("work-bound:message"), false, &mut t, l, &|| byte_case(e, &msg));
        }
        let mut off = vec![];
        layout::serialize(&tr[..owner_at], &mut off);
        let e = Entry::Record { off: off.len() as u16 };
        judge(e, &msg, Some("work-bound:record"), false, &mut t, l, &|| byte_case(e, &msg));
        if let layout::Node::Len16(c) = &tr[rd_at] {
            rdata.clear();
            if layout::serialize(c, &mut rdata) {
                let e = Entry::Rdata { rtype, off: 0 };
                judge(e, &rdata, Some("work-bound:rdata"), false, &mut t, l, &|| byte_case(e, &rdata));
            }
        }
    });
    if l.samples.len() < 4 {
        l.sample(json!({"family": "f6", "seed": tag, "fields": layout::fields(&tree).len(), "resized_trees": n}));
    }
    *l.outcomes.entry("f6:resized-trees".into()).or_insert(0) += n;
    t.flush("f6", "resize", l);
    true
}

// ------------------------------------------------------------------------------------------
// family 8: every value of a fixed octet x consistent resize of a variable-length field

fn run_f8_item(tag: &str, rtype: u16, wire: &[u8], thorough: bool, l: &mut Local) -> bool {
    use c01::layout;
    let Some(rd) = layout::rdata_layout(rtype, wire) else { return false };
    let (tree, rd_at) = layout::message_tree(rtype, rd);
    let mut t = Tally::default();
    let mut msg: Vec<u8> = vec![];
    let mut rdata: Vec<u8> = vec![];
    let mut off = vec![];
    layout::serialize(&tree[..5], &mut off);
    let rec = Entry::Record { off: off.len() as u16 };
    let entries: &[Entry] = if thorough { &[Entry::Message, Entry::Request, Entry::FrontDoor, Entry::TsigTbs] } else { &[Entry::Message] };
    let n = layout::value_resize_family(&tree, rd_at, thorough, |tr| {
        msg.clear();
        if !layout::serialize(tr, &mut msg) || msg.len() > 65535 {
            return;
        }
        for &e in entries {
            judge(e, &msg, Some("work-bound:message"), false, &mut t, l, &|| byte_case(e, &msg));
        }
        judge(rec, &msg, Some("work-bound:record"), false, &mut t, l, &|| byte_case(rec, &msg));
        if let layout::Node::Len16(c) = &tr[rd_at] {
            rdata.clear();
            if layout::serialize(c, &mut rdata) {
                let e = Entry::Rdata { rtype, off: 0 };
                judge(e, &rdata, Some("work-bound:rdata"), false, &mut t, l, &|| byte_case(e, &rdata));
            }
        }
    });
    if l.samples.len() < 4 {
        l.sample(json!({"family": "f8", "seed": tag, "value_x_resize_trees": n}));
    }
    *l.outcomes.entry("f8:value-x-resize-trees".into()).or_insert(0) += n;
    t.flush("f8", "resize", l);
    true
}

/// Every EDNS option code the decoder has an arm for (it yields something else than
/// `EdnsOption::Unknown`, or it can fail) must occur in an OPT seed; client subnet in both families.
fn opt_seed_gaps(rseeds: &[(String, u16, Vec<u8>)]) -> Vec<String> {
    use hickory_proto::rr::rdata::opt::{EdnsCode, EdnsOption};
    let mut seen = std::collections::BTreeSet::new();
    let mut ecs_families = std::collections::BTreeSet::new();
    for (_, t, w) in rseeds.iter().filter(|s| s.1 == 41) {
        let _ = t;
        let mut p = 0;
        while p + 4 <= w.len() {
            let code = u16::from_be_bytes([w[p], w[p + 1]]);
            let len = u16::from_be_bytes([w[p + 2], w[p + 3]]) as usize;
            seen.insert(code);
            if code == 8 && len >= 2 {
                ecs_families.insert(u16::from_be_bytes([w[p + 4], w[p + 5]]));
            }
            p += 4 + len;
        }
    }
    let mut gaps = vec![];
    for c in 0..=65535u16 {
        let special = [&[][..], &[0, 1, 0, 0][..], &[1][..]].iter().any(|d| !matches!(EdnsOption::try_from((EdnsCode::from(c), *d)), Ok(EdnsOption::Unknown(..))));
        if special && !seen.contains(&c) {
            gaps.push(format!("option code {c}"));
        }
    }
    for fam in [1u16, 2] {
        if !ecs_families.contains(&fam) {
            gaps.push(format!("client-subnet family {fam}"));
        }
    }
    gaps
}

// ------------------------------------------------------------------------------------------
// family 4: growth

const GROWTH_ENTRIES: [Entry; 5] = [Entry::Message, Entry::Request, Entry::Response, Entry::TsigTbs, Entry::FrontDoor];

/// Runs the whole size sweep of one (family, qd1, entry) and judges the curve. Returns the
/// (len, ticks) points.
fn run_growth(family: &str, qd1: bool, entry: Entry, l: &mut Local) -> Vec<(u32, usize, u64)> {
    let mut t = Tally::default();
    let mut pts: Vec<(u32, usize, u64)> = vec![];
    let key = format!("work-superlinear:{family}");
    for n in families::growth_sizes(family, qd1) {
        let Some(mut buf) = families::growth(family, n, qd1) else { continue };
        if entry == Entry::FrontDoor {
            buf[2] &= 0x7f; // query-shaped twin: the front door drops responses unread
        }
        let case = || json!({"entry": entry.label(), "family": family, "n": n, "qd1": qd1, "len": buf.len()});
        let before = t.max_ticks;
        t.max_ticks = 0;
        judge(entry, &buf, Some(&key), true, &mut t, l, &case);
        pts.push((n, buf.len(), t.max_ticks));
        t.max_ticks = t.max_ticks.max(before);
    }
    // curve criterion: work per octet at any size must not exceed 4x (+16) the largest work per
    // octet seen on inputs of at most 4 KiB
    let base = pts.iter().filter(|p| p.1 <= 4096).map(|p| p.2 as f64 / p.1 as f64).fold(0.0f64, f64::max);
    for (n, len, ticks) in &pts {
        let r = *ticks as f64 / *len as f64;
        if *len > 4096 && r > 4.0 * base + 16.0 {
            l.violation(
                &key,
                &format!("work per octet grows with n: {:.1} ticks/octet at {} octets vs at most {:.1} up to 4 KiB", r, len, base),
                || json!({"entry": entry.label(), "family": family, "n": n, "qd1": qd1, "len": len}),
            );
            break;
        }
    }
    t.flush("f4", entry.class(), l);
    pts
}

// ------------------------------------------------------------------------------------------

fn replay(ctx: &Ctx, case: &Value) {
    // run under par_run so that the hang watchdog is active during the replay, too
    ctx.par_run(1, 1, |_, l| {
        // watchdog witnesses carry the descriptor of the unit that was running
        if let Some(desc) = case["case"].as_str() {
            let f: Vec<&str> = desc.split('|').collect();
            match f[0] {
                "block" => {
                    ctx.case_timeout_s.store(30, std::sync::atomic::Ordering::Relaxed);
                    if let Some(b) = Block::parse(desc) {
                        run_block(ctx, &b, l);
                    }
                }
                "edit" if f.len() == 3 => {
                    let thorough = f[1] == "true";
                    let entries = rdata_alphabet(thorough);
                    let recs = record_alphabet(&entries, 0);
                    let msg_seeds = seeds::message_seeds(&entries, &recs, thorough);
                    let items = build_edit_items(thorough, &entries, &msg_seeds);
                    if let Some(it) = f[2].parse::<usize>().ok().and_then(|i| items.get(i)) {
                        run_edit_item(it, l);
                    }
                }
                "types" if f.len() == 3 => {
                    let entries = rdata_alphabet(f[1] == "true");
                    let wires: Vec<Vec<u8>> = entries.iter().map(|e| e.wire.clone()).collect();
                    run_type_chunk(f[2].parse().unwrap_or(0), &wires, l);
                }
                "win" if f.len() == 3 => {
                    let thorough = f[1] == "true";
                    let items = build_win_items(thorough, &rdata_alphabet(thorough));
                    if let Some(it) = f[2].parse::<usize>().ok().and_then(|i| items.get(i)) {
                        run_win_item(it, l);
                    }
                }
                "f8" if f.len() == 3 => {
                    let thorough = f[1] == "true";
                    let rseeds = seeds::rdata_seeds(&rdata_alphabet(thorough));
                    if let Some((tag, t, w)) = f[2].parse::<usize>().ok().and_then(|i| rseeds.get(i)) {
                        run_f8_item(tag, *t, w, thorough, l);
                    }
                }
                "resize" if f.len() == 3 => {
                    let rseeds = seeds::rdata_seeds(&rdata_alphabet(f[1] == "true"));
                    if let Some((tag, t, w)) = f[2].parse::<usize>().ok().and_then(|i| rseeds.get(i)) {
                        run_resize_item(tag, *t, w, l);
                    }
                }
                "growth" if f.len() == 4 => {
                    let fam: &str = families::GROWTH_FAMILIES.iter().find(|x| **x == f[1]).copied().unwrap_or("pointer-chain");
                    run_growth(fam, f[2] == "true", Entry::parse(f[3]).unwrap_or(Entry::Message), l);
                }
                _ => {}
            }
            return;
        }
        let entry = Entry::parse(case["entry"].as_str().unwrap_or("message")).unwrap_or(Entry::Message);
        if let Some(fam) = case["family"].as_str() {
            let fam: &str = families::GROWTH_FAMILIES.iter().find(|f| **f == fam).copied().unwrap_or("pointer-chain");
            run_growth(fam, case["qd1"].as_bool().unwrap_or(false), entry, l);
        } else {
            let buf = hex::dec(case["hex"].as_str().unwrap_or("")).unwrap_or_default();
            let mut t = Tally::default();
            let k = format!("work-bound:{}", entry.class());
            judge(entry, &buf, Some(&k), true, &mut t, l, &|| byte_case(entry, &buf));
        }
    });
}

fn main() {
    // a stack overflow / abort in the code under test must become a verdict, not a dead check
    vcore::supervise("C01");
    // logging is part of the environment: evaluate every log argument as a real subscriber would
    vcore::install_log_evaluation();
    let ctx = Ctx::from_args("C01", "exploration");
    let thorough = !ctx.quick();
    ctx.case_timeout_s.store(300, std::sync::atomic::Ordering::Relaxed);

    if let Some((_key, case)) = ctx.replay_case() {
        replay(&ctx, &case);
        ctx.finish(false);
    }

    ctx.set_rule(
        "E-ENUM, eight families, every element decoded by the real entry points (Message::from_vec, Request::from_bytes, the \
         server's front door ServerContext::handle_request via the verif hook with a probing RequestHandler, \
         DnsResponse::from_buffer, signed_bitmessage_to_buf, Record::read, Name::read, RData::read; the deferred CAA value \
         parsers run on every decoded CAA record). \
         f1: ALL byte strings of length 0..2 (quick) / 0..3 (thorough) as whole input, as body after 15 header shapes, as \
         record/name/RDATA (89 type codes) at offset 0 and at offset 12 behind pointer-target octets. f1b: RData::read for ALL \
         65,536 type codes x (all strings of length <=1 + the RFC RDATA of every alphabet entry). f2: ALL strings over \
         S={00,01,02,03,04,0c,3f,40,7f,80,bf,c0,c1,ff} of length <=6/5/6 (quick: body/RDATA/name; request, TSIG and front-door \
         bodies <=5) or <=7/6/7 (thorough), names also at every offset k of the string itself (earlier octets are pointer \
         targets) and at offset 0x3ffe. f3: complete single-edit neighbourhoods (every truncation, every octet x all 256 values, \
         insert/delete over S, every 16-bit window set to 8 boundary values; all pairs of S-substitutions on RDATA seeds <= 48 \
         octets, thorough: on all RDATA seeds, names and messages <= 160 octets) of a seed corpus of valid messages / records / \
         RDATA / names covering every RData variant, EDNS, TSIG, compression; the front door gets the query-shaped twin (QR \
         cleared) of every message seed. f5: ALL 65,536 values of every 16-bit window of one-record messages around the RFC \
         RDATA of the alphabet, OPT and TSIG (quick: first entry per type, record fixed fields + 24 RDATA octets; thorough: \
         every entry, every window from the flags word on, plus the UPDATE twin). f6: CONSISTENT RESIZES: every RDATA seed (every alphabet entry, OPT, TSIG) is described as a tree of \
         length-prefixed fields (labels, character-strings, CAA tag, NSEC3/NSEC3PARAM salt and hash, bitmap windows, SvcParam \
         values and alpn ids, EDNS options, TSIG MAC / other data, trailing blobs, RDLENGTH; question and owner labels); EVERY \
         field is set to EVERY length of its width (0..255; 16-bit: 0..300, 511, 512, the largest that fits 65,535 octets) with \
         its content truncated or padded (00 / ff / 'a') and all enclosing lengths recomputed, and every PAIR of RDATA fields \
         to {0,1,39,40,63,64,255}^2; each tree is decoded as message, request, front door, TSIG parse, record and bare RDATA. \
         f8: VALUE x RESIZE: every fixed octet of every RDATA seed (OPT seeds hold every option code the decoder has an arm \
         for, client subnet in both families: self-check) set to EVERY value 0..255, crossed with every consistent resize of a \
         variable-length field to {0..20, 31..33, 63..65, 255} (quick: octet and field siblings of the same (sub)structure — RDATA \
         root, one EDNS option, one SvcParam value — labels excluded, through message / record / RDATA; thorough: every octet x \
         every field of the RDATA, all entry points). \
         f4: 22 growth families for n = 1..64, 128, \
         256, ... up to the largest n that fits 65,535 octets, through message / request / front door / response / TSIG entry. \
         Oracle: returns (no panic); decoder ticks <= 256*len+4096 and (f4) ticks/len at any size <= 4x the maximum seen up \
         to 4 KiB; every decoded Name (incl. the issuer name of a CAA value) <= 255 octets, labels <= 63 (from the label \
         iterator). distinct_nontrivial = distinct (entry, input) digests that were accepted or rejected with an error other \
         than InsufficientBytes, hash-counted for strings of length <= 2, f3 and f4; longer f1/f2 strings, f1b and f5 are \
         distinct by construction and counted in outcome_classes['f*:nontrivial-by-construction'].",
    );
    ctx.assume("the tick hook (hickory_proto::verif) counts every Name::read state-machine step and every BinDecoder::{pop,read_slice}; work outside those primitives (allocation, copying of already-read slices) is not counted");
    ctx.assume("wall-clock time is not judged, only the deterministic work counter; a unit of work (65,536 f1/f2 strings: 30 s; one f3/f4 item: 300 s) that does not finish is reported by the watchdog as hang");
    ctx.set(
        "work_bound",
        json!({"c1": C1, "c0": C0, "derivation": "max 127 labels x 4 ticks + 128 hops x 3 ticks + 3 = 895 ticks per name, densest reference = 6-octet question => 149.2 ticks/octet for the worst linear decoder; C1=256 is 1.7x that. Honest seeds: see honest_max_ticks_per_octet"}),
    );

    let entries = rdata_alphabet(thorough);
    let recs = record_alphabet(&entries, 0);
    let msg_seeds = seeds::message_seeds(&entries, &recs, thorough);

    // calibration: honest seeds, every message-level entry point
    let mut honest_max = 0.0f64;
    let mut honest_ok = 0u64;
    // (both notes depend on the code under test, so they are observations, never exit 2: C01 does not demand that a
    // valid message is accepted — C02 does —, and work beyond the bound is judged on every input anyway)
    for s in &msg_seeds {
        let Ok(o) = catch(|| decode(Entry::Message, &s.bytes)) else { continue };
        if !o.ok {
            ctx.with_local(|l| l.outcome("obs:honest-seed-rejected-by-Message::from_vec"));
        } else {
            honest_ok += 1;
        }
        honest_max = honest_max.max(o.ticks as f64 / s.bytes.len() as f64);
        if o.ticks > bound(s.bytes.len()) / 4 {
            ctx.with_local(|l| l.outcome("obs:honest-seed-needs-more-than-a-quarter-of-the-work-bound"));
        }
    }
    ctx.set("honest_seeds", json!(honest_ok));
    ctx.set("honest_max_ticks_per_octet", json!((honest_max * 100.0).round() / 100.0));

    // families 1 + 2
    let blocks = build_blocks(thorough);
    ctx.set("f1_f2_blocks", json!(blocks.len()));
    ctx.set("f1_f2_strings", json!(blocks.iter().map(|b| b.count).sum::<u64>()));
    // f1/f2 chunks take milliseconds: call 30 s a hang there
    ctx.case_timeout_s.store(30, std::sync::atomic::Ordering::Relaxed);
    ctx.par_run(blocks.len() as u64, 1, |i, l| run_block(&ctx, &blocks[i as usize], l));
    // f3/f4 items need up to a few CPU seconds each (pairs of substitutions, 64 KiB growth sweeps)
    // and the machine may be shared: five minutes before a case is called a hang
    ctx.case_timeout_s.store(300, std::sync::atomic::Ordering::Relaxed);

    // family 3
    let items = build_edit_items(thorough, &entries, &msg_seeds);
    ctx.set("f3_seeds", json!({"messages": msg_seeds.len(), "items": items.len()}));
    ctx.par_run(items.len() as u64, 1, |i, l| {
        ctx.watch(l.worker, || format!("edit|{}|{}", thorough, i));
        run_edit_item(&items[i as usize], l)
    });

    // family 1b: all 65,536 type codes
    let wires: Vec<Vec<u8>> = entries.iter().map(|e| e.wire.clone()).collect();
    ctx.set("f1b_decodes", json!(65536u64 * (257 + wires.len() as u64)));
    ctx.par_run(256, 1, |i, l| {
        ctx.watch(l.worker, || format!("types|{thorough}|{i}"));
        run_type_chunk(i, &wires, l)
    });

    // family 5: all 65,536 values of every 16-bit window
    let witems = build_win_items(thorough, &entries);
    ctx.set("f5_seeds", json!(witems.len()));
    ctx.set("f5_windows", json!(witems.iter().map(|w| w.hi.min(w.seed.len() - 1) - w.lo).sum::<usize>()));
    ctx.par_run(witems.len() as u64, 1, |i, l| {
        ctx.watch(l.worker, || format!("win|{thorough}|{i}"));
        run_win_item(&witems[i as usize], l)
    });

    // family 6: consistent resizes
    let rseeds = seeds::rdata_seeds(&entries);
    ctx.set("f6_seeds", json!(rseeds.len()));
    ctx.par_run(rseeds.len() as u64, 1, |i, l| {
        ctx.watch(l.worker, || format!("resize|{thorough}|{i}"));
        let (tag, t, w) = &rseeds[i as usize];
        if !run_resize_item(tag, *t, w, l) {
            l.outcome("machinery:layout-table-does-not-fit-seed");
            eprintln!("layout table does not fit seed {tag}");
        }
    });
    if ctx.outcome_count("machinery:layout-table-does-not-fit-seed") > 0 {
        ctx.machinery_failure("f6: a layout table does not describe its seed RDATA");
    }

    // family 8: value x consistent resize
    let gaps = opt_seed_gaps(&rseeds);
    ctx.set("opt_option_arms_without_seed", json!(gaps));
    if !gaps.is_empty() {
        ctx.machinery_failure(&format!("EDNS option arms of the decoder without an OPT seed: {gaps:?}"));
    }
    ctx.par_run(rseeds.len() as u64, 1, |i, l| {
        ctx.watch(l.worker, || format!("f8|{thorough}|{i}"));
        let (tag, t, w) = &rseeds[i as usize];
        if !run_f8_item(tag, *t, w, thorough, l) {
            l.outcome("machinery:layout-table-does-not-fit-seed");
        }
    });

    // family 4
    let mut gitems: Vec<(&'static str, bool, Entry)> = vec![];
    for f in families::GROWTH_FAMILIES.iter() {
        for qd1 in [false, true] {
            if families::growth(f, 1, qd1).is_none() {
                continue;
            }
            for e in GROWTH_ENTRIES {
                gitems.push((f, qd1, e));
            }
        }
    }
    let curves: Mutex<Vec<Value>> = Mutex::new(vec![]);
    ctx.par_run(gitems.len() as u64, 1, |i, l| {
        let (f, qd1, e) = gitems[i as usize];
        ctx.watch(l.worker, || format!("growth|{}|{}|{}", f, qd1, e.label()));
        let pts = run_growth(f, qd1, e, l);
        if e == Entry::Message || ((e == Entry::Request || e == Entry::FrontDoor) && qd1) {
            let pick: Vec<Value> = pts
                .iter()
                .filter(|p| p.0 == 1 || p.0 == 64 || p.0 == 1024 || p.0 == 4096 || Some(*p) == pts.last())
                .map(|p| json!({"n": p.0, "len": p.1, "ticks": p.2, "ticks_per_octet": ((p.2 as f64 / p.1 as f64) * 10.0).round() / 10.0}))
                .collect();
            curves.lock().unwrap().push(json!({"family": f, "qd1": qd1, "entry": e.label(), "points": pick}));
        }
    });
    let mut cv = curves.into_inner().unwrap();
    cv.sort_by_key(|v| format!("{}{}{}", v["family"], v["qd1"], v["entry"]));
    ctx.set("f4_curves", json!(cv));

    // vacuity
    let mut err_variants = 0;
    for name in [
        "InsufficientBytes", "IncorrectRDataLengthRead", "PointerNotPriorToLabel", "LabelBytesTooLong", "UnrecognizedLabelCode",
        "DomainNameTooLong", "LabelOverlapsWithOther", "BadQueryCount", "InvalidEmptyRecord", "RecordNotInAdditionalSection",
        "EdnsNameNotRoot", "DuplicateEdns", "RecordAfterSig", "NsecBitmapOutOfBounds", "SvcParamsOutOfOrder", "UnknownRecordTypeValue",
        "DnsKeyProtocolNot3", "UnknownDigestAlgorithm", "CaaTagInvalid", "Utf8",
    ] {
        if ctx.outcome_count(&format!("err:{name}")) > 0 {
            err_variants += 1;
        }
    }
    ctx.set("distinct_error_variants_seen", json!(err_variants));
    if err_variants < 5 {
        ctx.machinery_failure("vacuous run: fewer than 5 distinct decoder error variants were exercised");
    }
    for k in [
        "f1:message:accepted", "f1:rdata:accepted", "f1:name:accepted",
        "f2:message:accepted", "f2:request:accepted", "f2:rdata:accepted", "f2:name:accepted", "f3:message:accepted", "f3:request:accepted",
        "f3:tsig-tbs:accepted", "f3:rdata:accepted", "f3:record:accepted", "f4:message:accepted", "f3:message:rejected",
        "f3:seed-accepted", "f3:frontdoor:accepted", "f3:frontdoor:rejected", "f2:frontdoor:accepted", "f4:frontdoor:accepted",
        "f8:resize:accepted", "f8:resize:rejected", "f6:resize:accepted", "f6:resize:rejected", "f1b:rdata:accepted", "f1b:rdata:rejected", "f5:message:accepted", "f5:message:rejected", "err:frontdoor:FormErr",
        "err:frontdoor:NotImp", "err:frontdoor:no-response",
    ] {
        if ctx.outcome_count(k) == 0 {
            ctx.machinery_failure(&format!("vacuous run: outcome class {k} never occurred"));
        }
    }
    ctx.finish(true);
}
