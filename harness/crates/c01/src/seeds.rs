//! Seed corpus for the edit-neighbourhood family: encoded valid messages covering every RData
//! variant, EDNS, TSIG and compressed names; plus record- and RDATA-level seeds.

use hickory_proto::op::{Message, MessageType, OpCode, Query};
use hickory_proto::rr::RecordType;

use crate::alphabet::{hn, wn, Entry, Rec};
use crate::msgs::{assemble, edns_variants, raw_rr, tsig_variants, RawRr};

#[derive(Clone, Debug)]
pub struct Seed {
    pub tag: String,
    pub bytes: Vec<u8>,
}

fn base(id: u16) -> Message {
    let mut m = Message::new(id, MessageType::Response, OpCode::Query);
    m.metadata.recursion_desired = true;
    m.add_query(Query::new(hn("a.z."), RecordType::A));
    m
}

/// Message seeds. Quick: one message per RDATA entry (hickory-encoded, names compressed against
/// the question) + hand-assembled uncompressed twins for name-bearing types + EDNS / TSIG /
/// three-record messages. Thorough: the uncompressed twin of every entry and more multi-record mixes.
pub fn message_seeds(entries: &[Entry], recs: &[Rec], thorough: bool) -> Vec<Seed> {
    let mut out = vec![];
    // (1) one record per message, encoded by hickory (compression on)
    for (i, r) in recs.iter().enumerate() {
        let mut m = base(0x1000 + i as u16);
        // SIG (like OPT and TSIG) is only admitted in the additional section
        match if r.record.record_type() == RecordType::SIG { 2 } else { i % 3 } {
            0 => m.add_answer(r.record.clone()),
            1 => m.add_authority(r.record.clone()),
            _ => m.add_additional(r.record.clone()),
        };
        match m.to_vec() {
            Ok(b) => out.push(Seed { tag: format!("enc:{}", r.tag), bytes: b }),
            // depends on the code under test: not a harness failure. The seed is dropped here; C02 judges
            // "a valid record does not encode" (`encode-failed`)
            Err(e) => eprintln!("note: seed {} dropped, hickory does not encode it: {e}", r.tag),
        }
    }
    // (2) hand-assembled uncompressed messages from the RFC wire forms
    for (i, e) in entries.iter().enumerate() {
        let has_name = !matches!(e.rtype, 1 | 28 | 16 | 13 | 10 | 61 | 44 | 52 | 53 | 257 | 37 | 62 | 48 | 60 | 43 | 59 | 25 | 50 | 51 | 65280);
        if thorough || has_name {
            let rr = raw_rr(["a.z.", "A.z.", "."][i % 3], e.rtype, 1, 300, &e.wire);
            let q = [(wn("a.z."), 255u16, 1u16)];
            let b = if e.rtype == 24 {
                assemble(0x2000 + i as u16, 0x8180, &q, [&[], &[], &[rr]])
            } else {
                assemble(0x2000 + i as u16, 0x8180, &q, [&[rr], &[], &[]])
            };
            out.push(Seed { tag: format!("raw:{}", e.tag), bytes: b });
        }
    }
    // (3) hand-assembled messages with compression pointers inside RDATA
    {
        let q = [(wn("ns.a.z."), 2u16, 1u16)]; // question name at offset 12: "ns" @12, "a" @15, "z" @17
        let ns = RawRr { owner: vec![0xc0, 15], rtype: 2, class: 1, ttl: 60, rdata: vec![0xc0, 12] };
        let mx = RawRr { owner: vec![0xc0, 15], rtype: 15, class: 1, ttl: 60, rdata: vec![0, 10, 4, b'm', b'a', b'i', b'l', 0xc0, 15] };
        let soa = RawRr {
            owner: vec![0xc0, 17],
            rtype: 6,
            class: 1,
            ttl: 60,
            rdata: [&[0xc0u8, 12][..], &[4, b'r', b'o', b'o', b't', 0xc0, 15], &[0, 0, 0, 1, 0, 0, 0, 2, 0, 0, 0, 3, 0, 0, 0, 4, 0, 0, 0, 5]].concat(),
        };
        // SRV / RRSIG with a compressed target: not allowed by RFC 3597 but accepted by decoders
        let srv = RawRr { owner: vec![0xc0, 15], rtype: 33, class: 1, ttl: 60, rdata: vec![0, 1, 0, 2, 0, 53, 0xc0, 12] };
        out.push(Seed { tag: "ptr:ns+mx+soa".into(), bytes: assemble(0x3001, 0x8400, &q, [&[ns.clone(), mx], &[soa], &[]]) });
        out.push(Seed { tag: "ptr:ns+srv".into(), bytes: assemble(0x3002, 0x8400, &q, [&[ns], &[], &[srv]]) });
    }
    // (4) EDNS variants, TSIG variants
    let pick = |k: usize| recs[(k * 7) % recs.len()].record.clone();
    for (i, (tag, e)) in edns_variants().into_iter().enumerate() {
        let mut m = base(0x4000 + i as u16);
        m.add_answer(pick(i));
        m.set_edns(e);
        if let Ok(b) = m.to_vec() {
            out.push(Seed { tag: format!("edns:{tag}"), bytes: b });
        }
    }
    for (i, (tag, t)) in tsig_variants().into_iter().enumerate() {
        let mut m = base(0x5000 + i as u16);
        m.add_answer(pick(i + 3));
        if i % 2 == 0 {
            m.set_edns(edns_variants()[1].1.clone());
        }
        m.set_signature(t);
        if let Ok(b) = m.to_vec() {
            out.push(Seed { tag: format!("tsig:{tag}"), bytes: b });
        }
    }
    // (5) three-record messages: answer / authority / additional
    let step = if thorough { 1 } else { 4 };
    let mut i = 0;
    while i < recs.len() {
        let mut m = base(0x6000 + i as u16);
        let (a, b, c) = (&recs[i].record, &recs[(i + 11) % recs.len()].record, &recs[(i + 23) % recs.len()].record);
        if a.record_type() == RecordType::SIG || b.record_type() == RecordType::SIG {
            i += step;
            continue;
        }
        m.add_answer(a.clone());
        m.add_authority(b.clone());
        m.add_additional(c.clone());
        if let Ok(b) = m.to_vec() {
            out.push(Seed { tag: format!("three:{}", i), bytes: b });
        }
        i += step;
    }
    // (6) UPDATE message with empty-RDATA records, NOTIFY, a bare query
    {
        let q = [(wn("z."), 6u16, 1u16)];
        let pre = raw_rr("a.z.", 255, 255, 0, &[]);
        let del = raw_rr("b.a.z.", 1, 255, 0, &[]);
        let add = raw_rr("b.a.z.", 1, 1, 300, &[10, 0, 0, 1]);
        out.push(Seed { tag: "update".into(), bytes: assemble(0x7001, 5 << 11, &q, [&[pre], &[del, add], &[]]) });
        out.push(Seed { tag: "notify".into(), bytes: assemble(0x7002, (4 << 11) | 0x0400, &q, [&[], &[], &[]]) });
        out.push(Seed { tag: "query".into(), bytes: assemble(0x7003, 0x0100, &[(wn("b.a.z."), 28, 1)], [&[], &[], &[]]) });
    }
    out
}

/// RDATA-level seeds: (type code, RFC wire form) of every alphabet entry.
pub fn rdata_seeds(entries: &[Entry]) -> Vec<(String, u16, Vec<u8>)> {
    let mut v: Vec<(String, u16, Vec<u8>)> = entries.iter().map(|e| (e.tag.clone(), e.rtype, e.wire.clone())).collect();
    // OPT and TSIG RDATA (not part of the record alphabet: they travel as Edns / signature)
    v.push(("OPT/ecs+nsid".into(), 41, vec![0, 8, 0, 7, 0, 1, 24, 0, 192, 0, 2, 0, 3, 0, 3, b'n', b's', b'1']));
    v.push(("OPT/dau".into(), 41, vec![0, 5, 0, 2, 13, 15]));
    // one instance of every option code (RFC 6891 registry 1..=15, 26946): the codes the decoder has an arm
    // for must be among them (self-check in the checks); client subnet in both address families
    v.push((
        "OPT/ecs-v6+cookie+keepalive+padding".into(),
        41,
        [
            &[0u8, 8, 0, 9, 0, 2, 40, 48, 0x20, 0x01, 0x0d, 0xb8, 0xab][..],
            &[0, 10, 0, 8, 1, 2, 3, 4, 5, 6, 7, 8],
            &[0, 11, 0, 2, 0, 100],
            &[0, 12, 0, 3, 0, 0, 0],
        ]
        .concat(),
    ));
    v.push((
        "OPT/llq+ul+dhu+n3u+expire+chain+keytag+ede+nsid".into(),
        41,
        [
            &[0u8, 1, 0, 2, 0, 1][..],
            &[0, 2, 0, 4, 0, 0, 14, 16],
            &[0, 6, 0, 2, 1, 2],
            &[0, 7, 0, 1, 1],
            &[0, 9, 0, 4, 0, 0, 0, 60],
            &[0, 13, 0, 3, 1, b'z', 0],
            &[0, 14, 0, 2, 0x30, 0x39],
            &[0, 15, 0, 3, 0, 6, b'x'],
            &[0, 3, 0, 0],
            &[0, 0, 0, 0],
        ]
        .concat(),
    ));
    let mut tsig = wn("hmac-sha256.");
    tsig.extend_from_slice(&[0, 0, 0x65, 0x53, 0xf1, 0x00, 1, 44, 0, 4, 1, 2, 3, 4, 0x12, 0x34, 0, 0, 0, 0]);
    v.push(("TSIG/sha256".into(), 250, tsig));
    v
}

/// Record-level seeds: owner + fixed fields + RDATA, uncompressed.
pub fn record_seeds(entries: &[Entry]) -> Vec<(String, Vec<u8>)> {
    entries
        .iter()
        .enumerate()
        .map(|(i, e)| {
            let rr = raw_rr(["a.z.", "@63.z.", "."][i % 3], e.rtype, [1u16, 3, 255][i % 3], 300, &e.wire);
            let mut b = rr.owner.clone();
            b.extend_from_slice(&rr.rtype.to_be_bytes());
            b.extend_from_slice(&rr.class.to_be_bytes());
            b.extend_from_slice(&rr.ttl.to_be_bytes());
            b.extend_from_slice(&(rr.rdata.len() as u16).to_be_bytes());
            b.extend_from_slice(&rr.rdata);
            (e.tag.clone(), b)
        })
        .collect()
}

/// Name-level seeds.
pub fn name_seeds() -> Vec<(String, Vec<u8>)> {
    ["." , "a.z.", "www.Example.COM.", "@63.@63.@63.@61.", "_sip._udp.a.z."]
        .iter()
        .map(|s| (s.to_string(), wn(s)))
        .chain(std::iter::once(("127-labels".to_string(), {
            let mut v = vec![];
            for _ in 0..127 {
                v.extend_from_slice(&[1, b'l']);
            }
            v.push(0);
            v
        })))
        .collect()
}
