//! Message-level building blocks shared by the seed corpus (C01) and the round-trip space (C02):
//! EDNS variants, TSIG records, an independent (hickory-free) message assembler.

use std::net::{IpAddr, Ipv4Addr, Ipv6Addr};

use hickory_proto::dnssec::{Algorithm, SupportedAlgorithms};
use hickory_proto::op::Edns;
use hickory_proto::rr::rdata::opt::{ClientSubnet, EdnsOption, NSIDPayload};
use hickory_proto::rr::rdata::tsig::{TsigAlgorithm, TsigError};
use hickory_proto::rr::rdata::TSIG;
use hickory_proto::rr::{DNSClass, Name, Record};

use crate::alphabet::{hn, wn};

/// EDNS variants: empty, every option kind the build models, two options, non-default fixed fields.
/// `rcode_high` is left 0: it is a derived field that the encoder fills from the header's response code.
pub fn edns_variants() -> Vec<(&'static str, Edns)> {
    let mut out = vec![];
    out.push(("empty", Edns::new()));
    let mut e = Edns::new();
    e.set_max_payload(1232).set_version(0).set_dnssec_ok(true);
    out.push(("do-1232", e));
    let mut e = Edns::new();
    e.set_max_payload(65535).set_version(255);
    e.flags_mut().z = 0x7fff;
    out.push(("version255-z7fff-65535", e));
    let mut e = Edns::new();
    e.set_dnssec_ok(true);
    e.flags_mut().z = 1;
    out.push(("do-z1", e));
    let mut e = Edns::new();
    e.options_mut().insert(EdnsOption::Subnet(ClientSubnet::new(IpAddr::V4(Ipv4Addr::new(192, 0, 16, 0)), 20, 0)));
    out.push(("ecs-v4-20", e));
    let mut e = Edns::new();
    let mut algs = SupportedAlgorithms::new();
    algs.set(Algorithm::ECDSAP256SHA256);
    algs.set(Algorithm::ED25519);
    e.options_mut().insert(EdnsOption::DAU(algs));
    out.push(("dau", e));
    let mut e = Edns::new();
    e.options_mut().insert(EdnsOption::Subnet(ClientSubnet::new(IpAddr::V4(Ipv4Addr::new(192, 0, 2, 0)), 24, 0)));
    out.push(("ecs-v4-24", e));
    let mut e = Edns::new();
    e.options_mut().insert(EdnsOption::Subnet(ClientSubnet::new(
        IpAddr::V6(Ipv6Addr::new(0x2001, 0xdb8, 0xab00, 0, 0, 0, 0, 0)),
        40,
        48,
    )));
    out.push(("ecs-v6-40", e));
    let mut e = Edns::new();
    e.options_mut().insert(EdnsOption::Subnet(ClientSubnet::new(IpAddr::V4(Ipv4Addr::new(0, 0, 0, 0)), 0, 0)));
    out.push(("ecs-v4-0", e));
    let mut e = Edns::new();
    e.options_mut().insert(EdnsOption::NSID(NSIDPayload::new(b"ns1".to_vec()).unwrap()));
    out.push(("nsid", e));
    let mut e = Edns::new();
    e.options_mut().insert(EdnsOption::NSID(NSIDPayload::new(Vec::<u8>::new()).unwrap()));
    out.push(("nsid-empty", e));
    let mut e = Edns::new();
    e.options_mut().insert(EdnsOption::Unknown(10, vec![1, 2, 3, 4, 5, 6, 7, 8]));
    out.push(("cookie-as-unknown", e));
    let mut e = Edns::new();
    e.options_mut().insert(EdnsOption::Unknown(65001, vec![]));
    out.push(("unknown-empty", e));
    let mut e = Edns::new();
    e.set_dnssec_ok(true);
    e.options_mut().insert(EdnsOption::Unknown(12, vec![0; 7]));
    e.options_mut().insert(EdnsOption::NSID(NSIDPayload::new(b"x".to_vec()).unwrap()));
    out.push(("padding+nsid", e));
    let mut e = Edns::new();
    e.options_mut().insert(EdnsOption::Unknown(15, vec![0, 6]));
    e.options_mut().insert(EdnsOption::Unknown(15, vec![0, 15, b'x']));
    out.push(("two-ede-same-code", e));
    out
}

/// TSIG records: typical HMAC-SHA256, BADTIME with other data, an algorithm the build only knows
/// by name, upper-case key name.
pub fn tsig_variants() -> Vec<(&'static str, Box<Record<TSIG>>)> {
    let mk = |name: &str, t: TSIG| {
        let mut r = Record::from_rdata(hn(name), 0, t);
        r.dns_class = DNSClass::ANY;
        Box::new(r)
    };
    let mut alg_name = Name::from_ascii("hmac-sha3-256.Example").unwrap();
    alg_name.set_fqdn(false);
    vec![
        ("sha256", mk("key.a.z.", TSIG::new(TsigAlgorithm::HmacSha256, 1_700_000_000, 300, vec![0xab; 32], 0x1234, None, vec![]))),
        (
            "badtime-other",
            mk(
                "Key.A.z.",
                TSIG::new(
                    TsigAlgorithm::HmacSha512,
                    0xffff_ffff_ffff,
                    65535,
                    vec![],
                    0xffff,
                    Some(TsigError::BadTime),
                    vec![0, 0, 0x65, 0x53, 0xf1, 0x00],
                ),
            ),
        ),
        ("md5-upper-name", mk(".", TSIG::new(TsigAlgorithm::HmacMd5, 0, 0, vec![1], 0, Some(TsigError::BadSig), vec![]))),
        ("unknown-alg", mk("k.", TSIG::new(TsigAlgorithm::Unknown(alg_name), 1, 2, vec![3; 20], 4, Some(TsigError::Unknown(5)), vec![]))),
    ]
}

// ------------------------------------------------------------------------------------------
// independent message assembler (no hickory code): RFC 1035 4.1, no compression

#[derive(Clone, Debug)]
pub struct RawRr {
    pub owner: Vec<u8>,
    pub rtype: u16,
    pub class: u16,
    pub ttl: u32,
    pub rdata: Vec<u8>,
}

pub fn raw_rr(owner: &str, rtype: u16, class: u16, ttl: u32, rdata: &[u8]) -> RawRr {
    RawRr { owner: wn(owner), rtype, class, ttl, rdata: rdata.to_vec() }
}

pub fn assemble(id: u16, flags: u16, questions: &[(Vec<u8>, u16, u16)], sections: [&[RawRr]; 3]) -> Vec<u8> {
    let mut m = vec![];
    m.extend_from_slice(&id.to_be_bytes());
    m.extend_from_slice(&flags.to_be_bytes());
    m.extend_from_slice(&(questions.len() as u16).to_be_bytes());
    for s in sections {
        m.extend_from_slice(&(s.len() as u16).to_be_bytes());
    }
    for (n, t, c) in questions {
        m.extend_from_slice(n);
        m.extend_from_slice(&t.to_be_bytes());
        m.extend_from_slice(&c.to_be_bytes());
    }
    for s in sections {
        for r in s {
            m.extend_from_slice(&r.owner);
            m.extend_from_slice(&r.rtype.to_be_bytes());
            m.extend_from_slice(&r.class.to_be_bytes());
            m.extend_from_slice(&r.ttl.to_be_bytes());
            m.extend_from_slice(&(r.rdata.len() as u16).to_be_bytes());
            m.extend_from_slice(&r.rdata);
        }
    }
    m
}
