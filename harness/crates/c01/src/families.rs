//! Byte-string families shared by C01 (decoding is total) and C02 (decode-first round trip).
//!
//! Family 1: all byte strings up to a length.  Family 2: all strings over the structural
//! alphabet `S`.  Family 3: complete single-edit neighbourhoods of seeds.  Family 4: growth
//! families parameterised by n.

/// Structural alphabet: length / pointer / boundary octets.
pub const S: [u8; 14] = [0x00, 0x01, 0x02, 0x03, 0x04, 0x0c, 0x3f, 0x40, 0x7f, 0x80, 0xbf, 0xc0, 0xc1, 0xff];

/// Record type codes used as RDATA decoders: every assigned code 0..=70, meta types, private use.
pub fn rdata_type_codes() -> Vec<u16> {
    (0u16..=70).chain([99, 108, 109, 249, 250, 251, 252, 253, 254, 255, 256, 257, 258, 32768, 32769, 65280, 65305, 65535]).collect()
}

/// The codes with a dedicated decoder in this build plus two opaque representatives.
pub fn distinct_decoder_codes() -> Vec<u16> {
    use hickory_proto::rr::RecordType;
    let mut v: Vec<u16> = rdata_type_codes()
        .into_iter()
        .filter(|c| !matches!(RecordType::from(*c), RecordType::Unknown(_)))
        .collect();
    v.push(99);
    v.push(65280);
    v
}

/// The `index`-th string of length `len` over `alphabet` (little-endian digits).
#[inline]
pub fn string_at(alphabet: &[u8], len: usize, mut index: u64, out: &mut Vec<u8>) {
    let k = alphabet.len() as u64;
    for _ in 0..len {
        out.push(alphabet[(index % k) as usize]);
        index /= k;
    }
}

/// The `index`-th byte string of length `len` (all 256 values per position).
#[inline]
pub fn bytes_at(len: usize, mut index: u64, out: &mut Vec<u8>) {
    for _ in 0..len {
        out.push((index & 0xff) as u8);
        index >>= 8;
    }
}

/// Prefix placed before a name / record / RDATA that is decoded at a non-zero offset: the octets
/// a backward pointer can land on. Period 8: `01 'a' 00 | c0 00 | 02 'b' 'c'` => offset 0 is the
/// name "a.", offset 2 the root, offset 3 a pointer to 0, offset 5 "bc.a." (runs into the next period).
pub fn pointer_target_prefix(len: usize) -> Vec<u8> {
    const P: [u8; 8] = [0x01, b'a', 0x00, 0xc0, 0x00, 0x02, b'b', b'c'];
    (0..len).map(|i| P[i % 8]).collect()
}

// ------------------------------------------------------------------------------------------
// header shapes for "string as message body"

#[derive(Clone, Copy, Debug)]
pub struct HeaderShape {
    pub name: &'static str,
    pub flags: u16,
    pub qd: u16,
    pub an: u16,
    pub ns: u16,
    pub ar: u16,
}

impl HeaderShape {
    pub fn bytes(&self) -> [u8; 12] {
        let mut h = [0u8; 12];
        h[0] = 0x12;
        h[1] = 0x34;
        h[2..4].copy_from_slice(&self.flags.to_be_bytes());
        h[4..6].copy_from_slice(&self.qd.to_be_bytes());
        h[6..8].copy_from_slice(&self.an.to_be_bytes());
        h[8..10].copy_from_slice(&self.ns.to_be_bytes());
        h[10..12].copy_from_slice(&self.ar.to_be_bytes());
        h
    }
}

const OP_STATUS: u16 = 2 << 11;
const OP_NOTIFY: u16 = 4 << 11;
const OP_UPDATE: u16 = 5 << 11;
const OP_UNASSIGNED: u16 = 15 << 11;
const QR: u16 = 0x8000;

/// Counts 0 / 1 / 2 / 65535 per section and every opcode class (UPDATE admits empty RDATA).
pub const HEADER_SHAPES: [HeaderShape; 15] = [
    HeaderShape { name: "counts-0", flags: 0x0100, qd: 0, an: 0, ns: 0, ar: 0 },
    HeaderShape { name: "query-qd1", flags: 0x0100, qd: 1, an: 0, ns: 0, ar: 0 },
    HeaderShape { name: "resp-qd1-an1", flags: QR | 0x0180, qd: 1, an: 1, ns: 0, ar: 0 },
    HeaderShape { name: "resp-an1", flags: QR, qd: 0, an: 1, ns: 0, ar: 0 },
    HeaderShape { name: "resp-ns1", flags: QR, qd: 0, an: 0, ns: 1, ar: 0 },
    HeaderShape { name: "query-ar1", flags: 0, qd: 0, an: 0, ns: 0, ar: 1 },
    HeaderShape { name: "query-qd1-ar1", flags: 0x0100, qd: 1, an: 0, ns: 0, ar: 1 },
    HeaderShape { name: "query-qd2", flags: 0, qd: 2, an: 0, ns: 0, ar: 0 },
    HeaderShape { name: "resp-an2", flags: QR, qd: 0, an: 2, ns: 0, ar: 0 },
    HeaderShape { name: "update-qd1-an1", flags: OP_UPDATE, qd: 1, an: 1, ns: 0, ar: 0 },
    HeaderShape { name: "update-ns1", flags: OP_UPDATE, qd: 0, an: 0, ns: 1, ar: 0 },
    HeaderShape { name: "notify-qd1-an1", flags: OP_NOTIFY | 0x0400, qd: 1, an: 1, ns: 0, ar: 0 },
    HeaderShape { name: "status-an1-ar1", flags: OP_STATUS, qd: 0, an: 1, ns: 0, ar: 1 },
    HeaderShape { name: "unassigned-op-qd65535", flags: OP_UNASSIGNED | 0x000f, qd: 65535, an: 0, ns: 0, ar: 0 },
    HeaderShape { name: "all-65535", flags: QR | 0x07ff, qd: 65535, an: 65535, ns: 65535, ar: 65535 },
];

/// A message whose single answer record (root owner, class IN, TTL 1) carries `rdata`.
pub fn message_with_rdata(rtype: u16, rdata: &[u8], update: bool, out: &mut Vec<u8>) {
    out.clear();
    let h = HeaderShape { name: "", flags: if update { OP_UPDATE } else { QR }, qd: 0, an: 1, ns: 0, ar: 0 };
    out.extend_from_slice(&h.bytes());
    // OPT / TSIG / SIG only decode in the additional section
    if matches!(rtype, 41 | 250 | 24) {
        out[6] = 0;
        out[7] = 0;
        out[10] = 0;
        out[11] = 1;
    }
    out.push(0);
    out.extend_from_slice(&rtype.to_be_bytes());
    out.extend_from_slice(&[0, 1, 0, 0, 0, 1]);
    out.extend_from_slice(&(rdata.len() as u16).to_be_bytes());
    out.extend_from_slice(rdata);
}

// ------------------------------------------------------------------------------------------
// family 3: single-edit neighbourhood

/// Calls `f` with every single edit of `seed`: every truncation, every byte substituted by all
/// 256 values, every insertion of an `S` octet, every deletion, every 16-bit window set to
/// {0,1,len-1,len,len+1,0x3fff,0x4000,0xffff}; with `pairs` also every pair of substitutions
/// from `S`. Returns the number of strings produced.
pub fn edits(seed: &[u8], pairs: bool, mut f: impl FnMut(&[u8])) -> u64 {
    let n = seed.len();
    let mut count = 0u64;
    let mut buf: Vec<u8> = Vec::with_capacity(n + 2);
    for cut in 0..n {
        f(&seed[..cut]);
        count += 1;
    }
    buf.clear();
    buf.extend_from_slice(seed);
    for i in 0..n {
        let orig = seed[i];
        for v in 0..=255u8 {
            if v != orig {
                buf[i] = v;
                f(&buf);
                count += 1;
            }
        }
        buf[i] = orig;
    }
    for i in 0..=n {
        for &v in &S {
            buf.clear();
            buf.extend_from_slice(&seed[..i]);
            buf.push(v);
            buf.extend_from_slice(&seed[i..]);
            f(&buf);
            count += 1;
        }
    }
    for i in 0..n {
        buf.clear();
        buf.extend_from_slice(&seed[..i]);
        buf.extend_from_slice(&seed[i + 1..]);
        f(&buf);
        count += 1;
    }
    if n >= 2 {
        let l = n as u32;
        let vals: [u32; 8] = [0, 1, l.saturating_sub(1), l, l + 1, 0x3fff, 0x4000, 0xffff];
        buf.clear();
        buf.extend_from_slice(seed);
        for i in 0..n - 1 {
            let (a, b) = (seed[i], seed[i + 1]);
            for v in vals {
                let v = (v & 0xffff) as u16;
                let be = v.to_be_bytes();
                if be != [a, b] {
                    buf[i] = be[0];
                    buf[i + 1] = be[1];
                    f(&buf);
                    count += 1;
                }
            }
            buf[i] = a;
            buf[i + 1] = b;
        }
    }
    if pairs {
        buf.clear();
        buf.extend_from_slice(seed);
        for i in 0..n {
            for &vi in &S {
                if vi == seed[i] {
                    continue;
                }
                buf[i] = vi;
                for j in i + 1..n {
                    for &vj in &S {
                        if vj == seed[j] {
                            continue;
                        }
                        buf[j] = vj;
                        f(&buf);
                        count += 1;
                    }
                    buf[j] = seed[j];
                }
            }
            buf[i] = seed[i];
        }
    }
    count
}

// ------------------------------------------------------------------------------------------
// family 5: every value of every 16-bit window

/// Calls `f` with `seed` in which the 16-bit window at offset i (big endian) is set to every one
/// of the 65,536 values, for every i in `lo..hi` (i + 1 < seed.len()). The single-edit family
/// reaches all values of every octet; this reaches all values of every 16-bit field (type codes,
/// classes, counts, lengths, flag words, key tags, parameter keys, option codes ...).
pub fn windows16(seed: &[u8], lo: usize, hi: usize, mut f: impl FnMut(&[u8])) -> u64 {
    let mut buf = seed.to_vec();
    let mut count = 0u64;
    let hi = hi.min(seed.len().saturating_sub(1));
    for i in lo..hi {
        let (a, b) = (seed[i], seed[i + 1]);
        for v in 0..=65535u16 {
            let be = v.to_be_bytes();
            buf[i] = be[0];
            buf[i + 1] = be[1];
            f(&buf);
            count += 1;
        }
        buf[i] = a;
        buf[i + 1] = b;
    }
    count
}

// ------------------------------------------------------------------------------------------
// family 4: growth families

pub const GROWTH_FAMILIES: [&str; 22] = [
    "name-length-sweep",
    "name-length-sweep-ptr",
    "label-count-sweep",
    "bitmap-window-len",
    "opt-option-len",
    "pointer-chain",
    "pointer-chain-rr",
    "pointer-chain-rdata",
    "pointer-blob",
    "label-hop-ladder",
    "max-labels",
    "long-name-repeated",
    "counts-65535-zeros",
    "counts-65535-root-questions",
    "opt-options",
    "svcb-params",
    "nsec-windows",
    "txt-empty-strings",
    "txt-255-strings",
    "straddle-3fff",
    "many-records",
    "update-empty-records",
];

/// Values of the growth parameter: 1..=64, then powers of two, then (added by the caller) the
/// largest n that still fits in 65,535 bytes.
pub fn growth_params() -> Vec<u32> {
    let mut v: Vec<u32> = (1..=64).collect();
    let mut p = 128u32;
    while p <= 65536 {
        v.push(p);
        p *= 2;
    }
    v
}

fn hdr(flags: u16, qd: u32, an: u32, ns: u32, ar: u32) -> Vec<u8> {
    HeaderShape { name: "", flags, qd: qd as u16, an: an as u16, ns: ns as u16, ar: ar as u16 }.bytes().to_vec()
}

fn ptr(off: usize) -> [u8; 2] {
    assert!(off < 0x4000);
    [0xc0 | (off >> 8) as u8, off as u8]
}

/// The message of `family` for parameter `n`, or `None` when it does not exist for this n
/// (longer than 65,535 bytes, count above 65,535, pointer target beyond 0x3fff ...).
/// `qd1`: start with one root question (so that the server-side request path reads on).
pub fn growth(family: &str, n: u32, qd1: bool) -> Option<Vec<u8>> {
    let n = n as usize;
    let mut m: Vec<u8>;
    let q = |m: &mut Vec<u8>| {
        if qd1 {
            m.extend_from_slice(&[0, 0, 1, 0, 1]);
        }
    };
    let qd = qd1 as u32;
    match family {
        // question k is a pointer to the name of question k-1; question 1 is the root
        "pointer-chain" => {
            if qd1 || n > 65535 {
                return None;
            }
            m = hdr(0, n as u32, 0, 0, 0);
            let mut prev = 0usize;
            for k in 0..n {
                let at = m.len();
                if k == 0 {
                    m.push(0);
                } else {
                    m.extend_from_slice(&ptr(prev));
                }
                // beyond the 14-bit pointer range every further name enters the chain at its last reachable link
                if at < 0x4000 {
                    prev = at;
                }
                m.extend_from_slice(&[0, 1, 0, 1]);
            }
        }
        // the same chain through the owner names of A records
        "pointer-chain-rr" => {
            if n > 65535 {
                return None;
            }
            m = hdr(0x8000, qd, n as u32, 0, 0);
            q(&mut m);
            let mut prev = 0usize;
            for k in 0..n {
                let at = m.len();
                if k == 0 {
                    m.push(0);
                } else {
                    m.extend_from_slice(&ptr(prev));
                }
                if at < 0x4000 {
                    prev = at;
                }
                m.extend_from_slice(&[0, 1, 0, 1, 0, 0, 0, 1, 0, 4, 10, 0, 0, 1]);
            }
        }
        // NS records whose RDATA name points at the RDATA name of the previous record
        "pointer-chain-rdata" => {
            if n > 65535 {
                return None;
            }
            m = hdr(0x8000, qd, n as u32, 0, 0);
            q(&mut m);
            let mut prev = 0usize;
            for k in 0..n {
                m.push(0);
                m.extend_from_slice(&[0, 2, 0, 1, 0, 0, 0, 1]);
                if k == 0 {
                    m.extend_from_slice(&[0, 1]);
                    prev = m.len();
                    m.push(0);
                } else {
                    m.extend_from_slice(&[0, 2]);
                    let at = m.len();
                    m.extend_from_slice(&ptr(prev));
                    if at < 0x4000 {
                        prev = at;
                    }
                }
            }
        }
        // UPDATE message: one NULL record holding a chain of h = min(2n, 8170) pointers, then n
        // empty-RDATA records (12 octets each) whose owner enters the chain at its end
        "pointer-blob" => {
            let h = (2 * n).min(8170);
            if n + 1 > 65535 {
                return None;
            }
            m = hdr(5 << 11, qd, 0, (n + 1) as u32, 0);
            q(&mut m);
            m.push(0);
            m.extend_from_slice(&[0, 10, 0, 1, 0, 0, 0, 1]);
            m.extend_from_slice(&((2 * h + 1) as u16).to_be_bytes());
            let mut prev = m.len();
            m.push(0); // root: end of the chain
            for _ in 0..h {
                let at = m.len();
                m.extend_from_slice(&ptr(prev));
                prev = at;
            }
            for _ in 0..n {
                m.extend_from_slice(&ptr(prev));
                m.extend_from_slice(&[0, 1, 0, 255, 0, 0, 0, 0, 0, 0]);
            }
        }
        // a 127-label name laid out as 127 segments "01 'x' <pointer to the previous segment>"
        // inside a NULL record (127 labels and 126 hops per reference), then n records owned by it
        "label-hop-ladder" if !qd1 => {
            // densest form: the ladder is built from the names of the first 127 questions
            // ("01 'x' 00", then "01 'x' <pointer to the previous question>"), followed by n
            // questions that point at the top rung: 127 labels + 126 hops per 6 octets
            if n + 127 > 65535 {
                return None;
            }
            m = hdr(0, (n + 127) as u32, 0, 0, 0);
            let mut prev = m.len();
            m.extend_from_slice(&[1, b'x', 0, 0, 1, 0, 1]);
            for _ in 0..126 {
                let at = m.len();
                m.extend_from_slice(&[1, b'x']);
                m.extend_from_slice(&ptr(prev));
                m.extend_from_slice(&[0, 1, 0, 1]);
                prev = at;
            }
            for _ in 0..n {
                m.extend_from_slice(&ptr(prev));
                m.extend_from_slice(&[0, 1, 0, 1]);
            }
        }
        "label-hop-ladder" => {
            if n + 1 > 65535 {
                return None;
            }
            m = hdr(0x8000, qd, (n + 1) as u32, 0, 0);
            q(&mut m);
            m.push(0);
            m.extend_from_slice(&[0, 10, 0, 1, 0, 0, 0, 1]);
            let blob_len = 3 + 126 * 4;
            m.extend_from_slice(&(blob_len as u16).to_be_bytes());
            let mut prev = m.len();
            m.extend_from_slice(&[1, b'x', 0]);
            for _ in 0..126 {
                let at = m.len();
                m.extend_from_slice(&[1, b'x']);
                m.extend_from_slice(&ptr(prev));
                prev = at;
            }
            for _ in 0..n {
                m.extend_from_slice(&ptr(prev));
                m.extend_from_slice(&[0, 1, 0, 1, 0, 0, 0, 1, 0, 4, 10, 0, 0, 1]);
            }
        }
        // one question with 127 one-octet labels (255 octets), then n questions pointing at it
        "max-labels" => {
            if qd1 || n + 1 > 65535 {
                return None;
            }
            m = hdr(0, (n + 1) as u32, 0, 0, 0);
            for _ in 0..127 {
                m.extend_from_slice(&[1, b'y']);
            }
            m.push(0);
            m.extend_from_slice(&[0, 1, 0, 1]);
            for _ in 0..n {
                m.extend_from_slice(&ptr(12));
                m.extend_from_slice(&[0, 1, 0, 1]);
            }
        }
        // n uncompressed 255-octet names (labels 63,63,63,61) as A record owners
        "long-name-repeated" => {
            if n > 65535 {
                return None;
            }
            m = hdr(0x8000, qd, n as u32, 0, 0);
            q(&mut m);
            for _ in 0..n {
                for l in [63usize, 63, 63, 61] {
                    m.push(l as u8);
                    m.extend(std::iter::repeat(b'n').take(l));
                }
                m.push(0);
                m.extend_from_slice(&[0, 1, 0, 1, 0, 0, 0, 1, 0, 4, 10, 0, 0, 1]);
            }
        }
        // all four counts 65535, body = n zero octets
        "counts-65535-zeros" => {
            if qd1 {
                return None;
            }
            m = hdr(0x8000, 65535, 65535, 65535, 65535);
            m.extend(std::iter::repeat(0u8).take(n));
        }
        // all four counts 65535, body = n complete root questions
        "counts-65535-root-questions" => {
            if qd1 {
                return None;
            }
            m = hdr(0, 65535, 65535, 65535, 65535);
            for _ in 0..n {
                m.extend_from_slice(&[0, 0, 1, 0, 1]);
            }
        }
        // OPT with n zero-length options
        "opt-options" => {
            if 4 * n > 65535 {
                return None;
            }
            m = hdr(0, qd, 0, 0, 1);
            q(&mut m);
            m.push(0);
            m.extend_from_slice(&[0, 41, 0x04, 0xd0, 0, 0, 0, 0]);
            m.extend_from_slice(&((4 * n) as u16).to_be_bytes());
            for k in 0..n {
                m.extend_from_slice(&((20 + (k % 1000)) as u16).to_be_bytes());
                m.extend_from_slice(&[0, 0]);
            }
        }
        // SVCB with n empty private-range parameters in ascending key order
        "svcb-params" => {
            if 3 + 4 * n > 65535 || 1000 + n > 65279 {
                return None;
            }
            m = hdr(0x8000, qd, 1, 0, 0);
            q(&mut m);
            m.push(0);
            m.extend_from_slice(&[0, 64, 0, 1, 0, 0, 0, 1]);
            m.extend_from_slice(&((3 + 4 * n) as u16).to_be_bytes());
            m.extend_from_slice(&[0, 1, 0]);
            for k in 0..n {
                m.extend_from_slice(&((1000 + k) as u16).to_be_bytes());
                m.extend_from_slice(&[0, 0]);
            }
        }
        // ceil(n/256) NSEC records with min(n,256) full 32-octet windows each
        "nsec-windows" => {
            let recs = (n + 255) / 256;
            m = hdr(0x8000, qd, recs as u32, 0, 0);
            q(&mut m);
            let mut left = n;
            for _ in 0..recs {
                let w = left.min(256);
                left -= w;
                m.push(0);
                m.extend_from_slice(&[0, 47, 0, 1, 0, 0, 0, 1]);
                m.extend_from_slice(&((1 + 34 * w) as u16).to_be_bytes());
                m.push(0);
                for i in 0..w {
                    m.push(i as u8);
                    m.push(32);
                    m.extend(std::iter::repeat(0xffu8).take(32));
                }
            }
        }
        // a question whose name is 63.63.63.<n>: 195+n wire octets (n = 61 is the last legal one)
        "name-length-sweep" => {
            if qd1 || n == 0 || n > 63 {
                return None;
            }
            m = hdr(0, 1, 0, 0, 0);
            for l in [63usize, 63, 63, n] {
                m.push(l as u8);
                m.extend(std::iter::repeat(b'n').take(l));
            }
            m.push(0);
            m.extend_from_slice(&[0, 1, 0, 1]);
        }
        // question 1 = 63.63.63. (193 octets), question 2 = <n> + pointer to it: 194+n octets after expansion
        "name-length-sweep-ptr" => {
            if qd1 || n == 0 || n > 63 {
                return None;
            }
            m = hdr(0, 2, 0, 0, 0);
            for l in [63usize, 63, 63] {
                m.push(l as u8);
                m.extend(std::iter::repeat(b'n').take(l));
            }
            m.push(0);
            m.extend_from_slice(&[0, 1, 0, 1]);
            m.push(n as u8);
            m.extend(std::iter::repeat(b'p').take(n));
            m.extend_from_slice(&ptr(12));
            m.extend_from_slice(&[0, 1, 0, 1]);
        }
        // a question whose name has 96+n one-octet labels (127 is the last legal count)
        "label-count-sweep" => {
            if qd1 || n == 0 || n > 64 {
                return None;
            }
            m = hdr(0, 1, 0, 0, 0);
            for _ in 0..96 + n {
                m.extend_from_slice(&[1, b'c']);
            }
            m.push(0);
            m.extend_from_slice(&[0, 1, 0, 1]);
        }
        // NSEC with one window whose length octet is n (valid up to 32), followed by n octets ff
        "bitmap-window-len" => {
            if n > 255 {
                return None;
            }
            m = hdr(0x8000, qd, 1, 0, 0);
            q(&mut m);
            m.push(0);
            m.extend_from_slice(&[0, 47, 0, 1, 0, 0, 0, 1]);
            m.extend_from_slice(&((3 + n) as u16).to_be_bytes());
            m.extend_from_slice(&[0, 0, n as u8]);
            m.extend(std::iter::repeat(0xffu8).take(n));
        }
        // OPT with a single option of n octets
        "opt-option-len" => {
            if n + 4 > 65535 - 30 {
                return None;
            }
            m = hdr(0, qd, 0, 0, 1);
            q(&mut m);
            m.push(0);
            m.extend_from_slice(&[0, 41, 0x04, 0xd0, 0, 0, 0, 0]);
            m.extend_from_slice(&((4 + n) as u16).to_be_bytes());
            m.extend_from_slice(&[0, 12]);
            m.extend_from_slice(&(n as u16).to_be_bytes());
            m.extend(std::iter::repeat(0u8).take(n));
        }
        // TXT records filled with empty character-strings (n in total, 65,000 per record)
        "txt-empty-strings" => {
            let per = 65000usize;
            let recs = (n + per - 1) / per;
            m = hdr(0x8000, qd, recs as u32, 0, 0);
            q(&mut m);
            let mut left = n;
            for _ in 0..recs {
                let w = left.min(per);
                left -= w;
                m.push(0);
                m.extend_from_slice(&[0, 16, 0, 1, 0, 0, 0, 1]);
                m.extend_from_slice(&(w as u16).to_be_bytes());
                m.extend(std::iter::repeat(0u8).take(w));
            }
        }
        // one TXT record per 255 strings of 255 octets
        "txt-255-strings" => {
            let per = 255usize;
            let recs = (n + per - 1) / per;
            m = hdr(0x8000, qd, recs as u32, 0, 0);
            q(&mut m);
            let mut left = n;
            for _ in 0..recs {
                let w = left.min(per);
                left -= w;
                m.push(0);
                m.extend_from_slice(&[0, 16, 0, 1, 0, 0, 0, 1]);
                m.extend_from_slice(&((256 * w) as u16).to_be_bytes());
                for _ in 0..w {
                    m.push(255);
                    m.extend(std::iter::repeat(b't').take(255));
                }
            }
        }
        // a NULL record pads the message so that the owner "ab.cd." of the next record starts at
        // 0x3fff - 32 + n (n = 1..64 sweeps it across the 14-bit pointer limit); a third record
        // points at it when the offset is still expressible
        "straddle-3fff" => {
            if n == 0 || n > 64 {
                return None;
            }
            let target = 0x3fff - 32 + n;
            m = hdr(0x8000, qd, 3, 0, 0);
            q(&mut m);
            let pad = target - (m.len() + 11);
            m.push(0);
            m.extend_from_slice(&[0, 10, 0, 1, 0, 0, 0, 1]);
            m.extend_from_slice(&(pad as u16).to_be_bytes());
            m.extend(std::iter::repeat(0xc0u8).take(pad));
            assert_eq!(m.len(), target);
            m.extend_from_slice(&[2, b'a', b'b', 2, b'c', b'd', 0]);
            m.extend_from_slice(&[0, 1, 0, 1, 0, 0, 0, 1, 0, 4, 10, 0, 0, 1]);
            let p = target.min(0x3fff);
            m.extend_from_slice(&ptr(p));
            m.extend_from_slice(&[0, 2, 0, 1, 0, 0, 0, 1, 0, 2]);
            m.extend_from_slice(&ptr((target + 3).min(0x3fff)));
        }
        // n minimal A records (honest linear baseline)
        "many-records" => {
            if n > 65535 {
                return None;
            }
            m = hdr(0x8000, qd, n as u32, 0, 0);
            q(&mut m);
            for _ in 0..n {
                m.push(0);
                m.extend_from_slice(&[0, 1, 0, 1, 0, 0, 0, 1, 0, 4, 10, 0, 0, 1]);
            }
        }
        // UPDATE message with n empty-RDATA records (11 octets each, the densest record stream)
        "update-empty-records" => {
            if n > 65535 {
                return None;
            }
            m = hdr(5 << 11, qd, 0, n as u32, 0);
            q(&mut m);
            for _ in 0..n {
                m.push(0);
                m.extend_from_slice(&[0, 1, 0, 255, 0, 0, 0, 0, 0, 0]);
            }
        }
        _ => return None,
    }
    if m.len() > 65535 {
        return None;
    }
    Some(m)
}

/// All (n) for which `family` exists: `growth_params()` plus the largest fitting n.
pub fn growth_sizes(family: &str, qd1: bool) -> Vec<u32> {
    let mut v: Vec<u32> = growth_params().into_iter().filter(|n| growth(family, *n, qd1).is_some()).collect();
    if let Some(&last) = v.last() {
        // largest n that fits: binary search between last and 2*last (existence is monotone in n)
        let (mut lo, mut hi) = (last, last.saturating_mul(2).min(70000));
        while lo + 1 < hi {
            let mid = (lo + hi) / 2;
            if growth(family, mid, qd1).is_some() {
                lo = mid;
            } else {
                hi = mid;
            }
        }
        if lo > last {
            v.push(lo);
        }
    }
    v
}
