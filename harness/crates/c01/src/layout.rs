//! Family 6: consistent resizes of inner length-prefixed fields.
//!
//! The edit families substitute a length octet without touching the field it describes, so a
//! reader fails with "insufficient bytes" before it sees a field of that length. Here every seed
//! is described as a tree of fields (a small table per type, written from the RFC layouts); a
//! field is resized to EVERY length its width can express with its content padded or truncated
//! to exactly that length, and every enclosing length (option / parameter length, RDLENGTH) is
//! recomputed when the tree is serialised again.

/// A piece of wire data.
#[derive(Clone, Debug, PartialEq, Eq)]
pub enum Node {
    /// octets without a length of their own
    Bytes(Vec<u8>),
    /// one length octet + content (character-string, label, salt, hash, bitmap window ...)
    Len8(Vec<Node>),
    /// 16-bit length + content (RDLENGTH, EDNS option, SvcParam value, TSIG MAC / other data)
    Len16(Vec<Node>),
    /// trailing blob whose length is only given by the enclosing length (key, digest, signature ...)
    Tail(Vec<u8>),
    /// a label of a name: one length octet + content, like `Len8`, but no integer field interprets it
    Label(Vec<u8>),
}

/// Serialise; `false` if some content does not fit the width of its length field.
pub fn serialize(nodes: &[Node], out: &mut Vec<u8>) -> bool {
    for n in nodes {
        match n {
            Node::Bytes(b) | Node::Tail(b) => out.extend_from_slice(b),
            Node::Label(b) => {
                if b.len() > 255 {
                    return false;
                }
                out.push(b.len() as u8);
                out.extend_from_slice(b);
            }
            Node::Len8(c) => {
                let at = out.len();
                out.push(0);
                if !serialize(c, out) {
                    return false;
                }
                let l = out.len() - at - 1;
                if l > 255 {
                    return false;
                }
                out[at] = l as u8;
            }
            Node::Len16(c) => {
                let at = out.len();
                out.extend_from_slice(&[0, 0]);
                if !serialize(c, out) {
                    return false;
                }
                let l = out.len() - at - 2;
                if l > 65535 {
                    return false;
                }
                out[at..at + 2].copy_from_slice(&(l as u16).to_be_bytes());
            }
        }
    }
    true
}

fn flat(nodes: &[Node]) -> Vec<u8> {
    let mut v = vec![];
    let _ = serialize(nodes, &mut v);
    v
}

/// Paths (child indices from the root) of every resizable field, depth first.
pub fn fields(nodes: &[Node]) -> Vec<Vec<usize>> {
    fn rec(nodes: &[Node], prefix: &mut Vec<usize>, out: &mut Vec<Vec<usize>>) {
        for (i, n) in nodes.iter().enumerate() {
            prefix.push(i);
            match n {
                Node::Len8(c) | Node::Len16(c) => {
                    out.push(prefix.clone());
                    rec(c, prefix, out);
                }
                Node::Tail(_) | Node::Label(_) => out.push(prefix.clone()),
                Node::Bytes(_) => {}
            }
            prefix.pop();
        }
    }
    let mut out = vec![];
    rec(nodes, &mut vec![], &mut out);
    out
}

fn node_at<'a>(nodes: &'a [Node], path: &[usize]) -> &'a Node {
    let n = &nodes[path[0]];
    if path.len() == 1 {
        return n;
    }
    match n {
        Node::Len8(c) | Node::Len16(c) => node_at(c, &path[1..]),
        _ => unreachable!("path through a leaf"),
    }
}

/// Width class of the field: 8 (one length octet) or 16 (16-bit length / implicit length).
pub fn width(nodes: &[Node], path: &[usize]) -> u8 {
    match node_at(nodes, path) {
        Node::Len8(_) | Node::Label(_) => 8,
        _ => 16,
    }
}

/// Current content length of the field.
pub fn content_len(nodes: &[Node], path: &[usize]) -> usize {
    match node_at(nodes, path) {
        Node::Len8(c) | Node::Len16(c) => flat(c).len(),
        Node::Tail(b) | Node::Bytes(b) | Node::Label(b) => b.len(),
    }
}

/// The tree with the content of the field at `path` truncated or padded with `fill` to `len` octets.
pub fn resize(nodes: &[Node], path: &[usize], len: usize, fill: u8) -> Vec<Node> {
    let mut out = nodes.to_vec();
    fn rec(nodes: &mut [Node], path: &[usize], len: usize, fill: u8) {
        let n = &mut nodes[path[0]];
        if path.len() > 1 {
            if let Node::Len8(c) | Node::Len16(c) = n {
                rec(c, &path[1..], len, fill);
            }
            return;
        }
        let fit = |mut b: Vec<u8>| {
            b.resize(len, fill);
            b
        };
        *n = match n {
            Node::Len8(c) => Node::Len8(vec![Node::Bytes(fit(flat(c)))]),
            Node::Len16(c) => Node::Len16(vec![Node::Bytes(fit(flat(c)))]),
            Node::Tail(b) => Node::Tail(fit(b.clone())),
            Node::Label(b) => Node::Label(fit(b.clone())),
            Node::Bytes(b) => Node::Bytes(b.clone()),
        };
    }
    rec(&mut out, path, len, fill);
    out
}

// ------------------------------------------------------------------------------------------
// layouts, written from the RFCs

struct P<'a> {
    b: &'a [u8],
    p: usize,
    out: Vec<Node>,
}

impl<'a> P<'a> {
    fn bytes(&mut self, n: usize) -> Option<()> {
        let s = self.b.get(self.p..self.p + n)?;
        self.out.push(Node::Bytes(s.to_vec()));
        self.p += n;
        Some(())
    }
    /// <character-string> / salt / hash / bitmap: one length octet + that many octets
    fn len8(&mut self) -> Option<()> {
        let l = *self.b.get(self.p)? as usize;
        let s = self.b.get(self.p + 1..self.p + 1 + l)?;
        self.out.push(Node::Len8(vec![Node::Bytes(s.to_vec())]));
        self.p += 1 + l;
        Some(())
    }
    fn len16_raw(&mut self) -> Option<Vec<u8>> {
        let l = u16::from_be_bytes([*self.b.get(self.p)?, *self.b.get(self.p + 1)?]) as usize;
        let s = self.b.get(self.p + 2..self.p + 2 + l)?.to_vec();
        self.p += 2 + l;
        Some(s)
    }
    fn len16(&mut self) -> Option<()> {
        let s = self.len16_raw()?;
        self.out.push(Node::Len16(vec![Node::Bytes(s)]));
        Some(())
    }
    /// uncompressed name: labels as one-octet-length fields, then the root octet
    fn name(&mut self) -> Option<()> {
        loop {
            let l = *self.b.get(self.p)?;
            if l == 0 {
                return self.bytes(1);
            }
            if l & 0xc0 != 0 {
                return None;
            }
            let s = self.b.get(self.p + 1..self.p + 1 + l as usize)?;
            self.out.push(Node::Label(s.to_vec()));
            self.p += 1 + l as usize;
        }
    }
    /// type bitmap: (window octet, length octet, bitmap)*
    fn bitmap(&mut self) -> Option<()> {
        while self.p < self.b.len() {
            self.bytes(1)?;
            self.len8()?;
        }
        Some(())
    }
    fn tail(&mut self) -> Option<()> {
        self.out.push(Node::Tail(self.b[self.p..].to_vec()));
        self.p = self.b.len();
        Some(())
    }
    fn rest_len8s(&mut self) -> Option<()> {
        while self.p < self.b.len() {
            self.len8()?;
        }
        Some(())
    }
}

/// Field tree of the RDATA `wire` of type `rtype`; `None` if the octets do not follow the layout.
pub fn rdata_layout(rtype: u16, wire: &[u8]) -> Option<Vec<Node>> {
    let mut p = P { b: wire, p: 0, out: vec![] };
    match rtype {
        // TXT (RFC 1035 3.3.14), HINFO (3.3.2): character-strings
        16 | 13 => p.rest_len8s()?,
        // NS, CNAME, PTR, ANAME, DNAME-like: one name
        2 | 5 | 12 | 65305 | 39 => p.name()?,
        15 => {
            p.bytes(2)?;
            p.name()?
        }
        6 => {
            p.name()?;
            p.name()?;
            p.bytes(20)?
        }
        14 => {
            p.name()?;
            p.name()?
        }
        33 => {
            p.bytes(6)?;
            p.name()?
        }
        // NAPTR (RFC 3403 4.1)
        35 => {
            p.bytes(4)?;
            p.len8()?;
            p.len8()?;
            p.len8()?;
            p.name()?
        }
        // CAA (RFC 8659 4.1): flags, tag length, tag, value
        257 => {
            p.bytes(1)?;
            p.len8()?;
            p.tail()?
        }
        // NSEC3 (RFC 5155 3.2): alg, flags, iterations, salt, hash, bitmap
        50 => {
            p.bytes(4)?;
            p.len8()?;
            p.len8()?;
            p.bitmap()?
        }
        51 => {
            p.bytes(4)?;
            p.len8()?
        }
        47 => {
            p.name()?;
            p.bitmap()?
        }
        62 => {
            p.bytes(6)?;
            p.bitmap()?
        }
        // SVCB / HTTPS (RFC 9460 2.2): priority, target, (key, length, value)*; alpn = (length, id)*
        64 | 65 => {
            p.bytes(2)?;
            p.name()?;
            while p.p < wire.len() {
                let key = u16::from_be_bytes([*wire.get(p.p)?, *wire.get(p.p + 1)?]);
                p.bytes(2)?;
                let v = p.len16_raw()?;
                if key == 1 {
                    let mut q = P { b: &v, p: 0, out: vec![] };
                    q.rest_len8s()?;
                    p.out.push(Node::Len16(q.out));
                } else {
                    p.out.push(Node::Len16(vec![Node::Bytes(v)]));
                }
            }
        }
        // OPT (RFC 6891 6.1.2): (code, length, data)*
        // (RFC 7871 6: code 8 = FAMILY, SOURCE PREFIX-LENGTH, SCOPE PREFIX-LENGTH, ADDRESS...)
        41 => {
            while p.p < wire.len() {
                let code = u16::from_be_bytes([*wire.get(p.p)?, *wire.get(p.p + 1)?]);
                p.bytes(2)?;
                let v = p.len16_raw()?;
                if code == 8 && v.len() >= 4 {
                    p.out.push(Node::Len16(vec![Node::Bytes(v[..4].to_vec()), Node::Tail(v[4..].to_vec())]));
                } else {
                    p.out.push(Node::Len16(vec![Node::Tail(v)]));
                }
            }
        }
        // TSIG (RFC 8945 4.2)
        250 => {
            p.name()?;
            p.bytes(8)?;
            p.len16()?;
            p.bytes(4)?;
            p.len16()?
        }
        // RRSIG / SIG (RFC 4034 3.1): 18 fixed octets, signer, signature
        46 | 24 => {
            p.bytes(18)?;
            p.name()?;
            p.tail()?
        }
        // fixed part + trailing blob
        37 => {
            p.bytes(5)?;
            p.tail()?
        }
        48 | 60 | 25 | 43 | 59 => {
            p.bytes(4)?;
            p.tail()?
        }
        52 | 53 => {
            p.bytes(3)?;
            p.tail()?
        }
        44 => {
            p.bytes(2)?;
            p.tail()?
        }
        // A, AAAA, NULL, OPENPGPKEY, unknown types: the RDATA as a whole
        _ => p.tail()?,
    }
    if p.p != wire.len() {
        return None;
    }
    Some(p.out)
}

/// Query-shaped message (id 0x6666, RD, QDCOUNT 1, ARCOUNT 1): question `q.z. ANY IN`, one
/// additional record owned by `Own.q.z.` of type `rtype` whose RDATA is `rdata`. Returns the
/// tree and the index of the RDLENGTH node. (OPT wants a root owner: it gets one.)
pub fn message_tree(rtype: u16, rdata: Vec<Node>) -> (Vec<Node>, usize) {
    let mut t = vec![Node::Bytes(vec![0x66, 0x66, 0x01, 0x00, 0, 1, 0, 0, 0, 0, 0, 1])];
    let name = |labels: &[&[u8]], t: &mut Vec<Node>| {
        for l in labels {
            t.push(Node::Label(l.to_vec()));
        }
        t.push(Node::Bytes(vec![0]));
    };
    name(&[b"q", b"z"], &mut t);
    t.push(Node::Bytes(vec![0, 255, 0, 1]));
    if rtype == 41 {
        name(&[], &mut t);
    } else {
        name(&[b"Own", b"q", b"z"], &mut t);
    }
    let mut fixed = rtype.to_be_bytes().to_vec();
    fixed.extend_from_slice(&[0, 1, 0, 0, 0, 60]);
    t.push(Node::Bytes(fixed));
    t.push(Node::Len16(rdata));
    let at = t.len() - 1;
    (t, at)
}

/// Every length a field of width class `w` is resized to; 16-bit fields also get `max_fit`
/// (the largest length that keeps the whole input within 65,535 octets).
pub fn lengths(w: u8, max_fit: usize) -> Vec<usize> {
    if w == 8 {
        (0..=255).collect()
    } else {
        let mut v: Vec<usize> = (0..=300).chain([511, 512, 65534, 65535]).filter(|l| *l <= max_fit).collect();
        if max_fit > 300 && !v.contains(&max_fit) {
            v.push(max_fit);
        }
        v
    }
}

pub const FILLS: [u8; 3] = [0x00, 0xff, b'a'];
pub const PAIR_VALUES: [usize; 7] = [0, 1, 39, 40, 63, 64, 255];

/// Enumerate the resize family of one message tree. `f(message, rdlength node index, description)`
/// is called with every consistently resized tree that still fits its length fields and 65,535
/// octets: every field x every length (x 3 fill octets when the field grows), and every pair of
/// fields inside the RDATA x `PAIR_VALUES` x `PAIR_VALUES` x 3 fills.
pub fn resize_family(tree: &[Node], rd_at: usize, mut f: impl FnMut(&[Node], String)) -> u64 {
    let fs = fields(tree);
    let mut count = 0u64;
    let base_total = flat(tree).len();
    for path in &fs {
        let cur = content_len(tree, path);
        let w = width(tree, path);
        let max_fit = if w == 8 { 255 } else { (65535 - (base_total - cur)).min(65535) };
        for len in lengths(w, max_fit) {
            let fills: &[u8] = if len > cur { &FILLS } else { &FILLS[..1] };
            for &fill in fills {
                let t = resize(tree, path, len, fill);
                f(&t, format!("field {path:?} -> {len} fill {fill:#04x}"));
                count += 1;
            }
        }
    }
    // pairs of fields inside the RDATA (incl. nested ones)
    let inner: Vec<&Vec<usize>> = fs.iter().filter(|p| p[0] == rd_at && p.len() > 1).collect();
    for (i, a) in inner.iter().enumerate() {
        for b in inner.iter().skip(i + 1) {
            // a field nested in the other one disappears when its parent is flattened
            if b.starts_with(a) || a.starts_with(b) {
                continue;
            }
            for &la in &PAIR_VALUES {
                for &lb in &PAIR_VALUES {
                    for &fill in &FILLS {
                        let t = resize(&resize(tree, a, la, fill), b, lb, fill);
                        f(&t, format!("fields {a:?} -> {la}, {b:?} -> {lb} fill {fill:#04x}"));
                        count += 1;
                    }
                }
            }
        }
    }
    count
}

// ------------------------------------------------------------------------------------------
// family 8: value of a fixed octet x consistent resize of a variable-length field

/// Lengths the variable-length field is resized to.
pub fn f8_lengths() -> Vec<usize> {
    (0..=20).chain(31..=33).chain(63..=65).chain([255]).collect()
}

/// (path of a `Bytes` node, octet index) of every fixed octet below `nodes`; the root octet of a name is none.
fn fixed_octets(nodes: &[Node], prefix: &mut Vec<usize>, deep: bool, out: &mut Vec<(Vec<usize>, usize)>) {
    for (i, n) in nodes.iter().enumerate() {
        prefix.push(i);
        match n {
            Node::Bytes(b) => {
                let name_root = b.len() == 1 && b[0] == 0 && i > 0 && matches!(nodes[i - 1], Node::Label(_));
                if !name_root {
                    for j in 0..b.len() {
                        out.push((prefix.clone(), j));
                    }
                }
            }
            Node::Len8(c) | Node::Len16(c) if deep => fixed_octets(c, prefix, deep, out),
            _ => {}
        }
        prefix.pop();
    }
}

fn set_octet(nodes: &mut [Node], path: &[usize], j: usize, v: u8) {
    let n = &mut nodes[path[0]];
    if path.len() > 1 {
        if let Node::Len8(c) | Node::Len16(c) = n {
            set_octet(c, &path[1..], j, v);
        }
    } else if let Node::Bytes(b) = n {
        b[j] = v;
    }
}

fn children_at<'a>(nodes: &'a [Node], path: &[usize]) -> &'a [Node] {
    if path.is_empty() {
        return nodes;
    }
    match &nodes[path[0]] {
        Node::Len8(c) | Node::Len16(c) => children_at(c, &path[1..]),
        _ => &[],
    }
}

/// Paths of every sibling list (the root and the content of every length-prefixed container) below `at`.
fn structures(nodes: &[Node], prefix: &mut Vec<usize>, out: &mut Vec<Vec<usize>>) {
    out.push(prefix.clone());
    for (i, n) in nodes.iter().enumerate() {
        if let Node::Len8(c) | Node::Len16(c) = n {
            prefix.push(i);
            structures(c, prefix, out);
            prefix.pop();
        }
    }
}

/// f8 over the subtree at `root` (the RDLENGTH container of a message tree): every fixed octet is
/// set to EVERY value 0..=255, crossed with every consistent resize of a variable-length field to
/// `f8_lengths()` (content truncated or padded with ff, enclosing lengths recomputed on
/// serialisation). `all_pairs = false`: the octet and the field are siblings of the same
/// (sub)structure (RDATA root, one EDNS option, one SvcParam value ...) and name labels are not
/// resized; `true`: every fixed octet of the RDATA with every variable field of the RDATA.
pub fn value_resize_family(tree: &[Node], root: usize, all_pairs: bool, mut f: impl FnMut(&[Node])) -> u64 {
    let mut count = 0u64;
    let lens = f8_lengths();
    let mut pairs: Vec<((Vec<usize>, usize), Vec<usize>)> = vec![];
    if all_pairs {
        let mut octs = vec![];
        if let Node::Len16(c) = &tree[root] {
            fixed_octets(c, &mut vec![root], true, &mut octs);
        }
        let vars: Vec<Vec<usize>> = fields(tree).into_iter().filter(|p| p[0] == root && p.len() > 1).collect();
        for o in &octs {
            for v in &vars {
                // resizing a container flattens it: an octet inside it would be addressed in vain
                if !o.0.starts_with(v) {
                    pairs.push((o.clone(), v.clone()));
                }
            }
        }
    } else {
        let mut ss = vec![];
        if let Node::Len16(c) = &tree[root] {
            structures(c, &mut vec![root], &mut ss);
        }
        for s in ss {
            let kids = children_at(tree, &s);
            let mut octs = vec![];
            fixed_octets(kids, &mut s.clone(), false, &mut octs);
            for (k, n) in kids.iter().enumerate() {
                if matches!(n, Node::Len8(_) | Node::Len16(_) | Node::Tail(_)) {
                    let mut v = s.clone();
                    v.push(k);
                    for o in &octs {
                        pairs.push((o.clone(), v.clone()));
                    }
                }
            }
        }
    }
    for ((opath, j), vpath) in pairs {
        for &len in &lens {
            let mut t = resize(tree, &vpath, len, 0xff);
            for v in 0..=255u8 {
                set_octet(&mut t, &opath, j, v);
                f(&t);
                count += 1;
            }
        }
    }
    count
}
