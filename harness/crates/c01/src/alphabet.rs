//! Record alphabet R: valid resource records of every RData variant the build supports.
//!
//! Every entry carries the RDATA wire form **written by hand from the RFC that defines the type**
//! (names uncompressed, case exactly as given). Where hickory has a simple public constructor
//! the same value is also assembled through it (`built`), so that the round-trip check can
//! compare "what a user assembles" with "what the RFC says goes on the wire". Entries without a
//! constructor value are materialised by decoding the RFC bytes (the result is still a valid
//! record value; the bytes stay the independent reference for the byte-for-byte clause).

use hickory_proto::dnssec::rdata::{DNSSECRData, DS, NSEC, NSEC3, NSEC3PARAM};
use hickory_proto::dnssec::{Algorithm, DigestType, Nsec3HashAlgorithm};
use hickory_proto::rr::rdata::sshfp;
use hickory_proto::rr::rdata::tlsa::{CertUsage, Matching, Selector};
use hickory_proto::rr::rdata::{
    A, AAAA, ANAME, CNAME, CSYNC, HINFO, MX, NAPTR, NS, NULL, OPENPGPKEY, PTR, SMIMEA, SOA, SRV, SSHFP, TLSA, TXT,
};
use hickory_proto::rr::{DNSClass, Name, RData, Record, RecordType};
use hickory_proto::serialize::binary::BinDecoder;

/// Wire form of a name given in a tiny presentation syntax: labels separated by '.', a label
/// `%HH` inside a label is one arbitrary octet; `@N` stands for N octets of 'x' (N <= 63), `@@N` for N octets of 'X' (the upper-case twin). Case is preserved.
pub fn labels(s: &str) -> Vec<Vec<u8>> {
    let mut out = vec![];
    if s == "." {
        return out;
    }
    for l in s.trim_end_matches('.').split('.') {
        if let Some(n) = l.strip_prefix("@@") {
            out.push(vec![b'X'; n.parse().unwrap()]);
        } else if let Some(n) = l.strip_prefix('@') {
            out.push(vec![b'x'; n.parse().unwrap()]);
        } else if l.contains('%') {
            // %HH = one arbitrary octet (binary labels: dots, NUL, 0xff, '[' vs '{' ...)
            let b = l.as_bytes();
            let mut v = vec![];
            let mut i = 0;
            while i < b.len() {
                if b[i] == b'%' {
                    v.push(u8::from_str_radix(&l[i + 1..i + 3], 16).expect("hex escape"));
                    i += 3;
                } else {
                    v.push(b[i]);
                    i += 1;
                }
            }
            out.push(v);
        } else {
            out.push(l.as_bytes().to_vec());
        }
    }
    out
}

/// Uncompressed wire form of a name (RFC 1035 3.1).
pub fn wn(s: &str) -> Vec<u8> {
    let mut out = vec![];
    for l in labels(s) {
        assert!(l.len() <= 63 && !l.is_empty());
        out.push(l.len() as u8);
        out.extend_from_slice(&l);
    }
    out.push(0);
    assert!(out.len() <= 255);
    out
}

/// The same name as a hickory `Name` (fully qualified, case preserved).
pub fn hn(s: &str) -> Name {
    let ls = labels(s);
    Name::from_labels(ls.iter().map(|l| &l[..])).expect("valid name")
}

#[derive(Clone, Debug)]
pub struct Entry {
    pub tag: String,
    pub rtype: u16,
    /// RDATA as the defining RFC encodes it (no compression)
    pub wire: Vec<u8>,
    /// value assembled through hickory's constructors, if one exists
    pub built: Option<RData>,
    /// the value used in messages: `built`, else decode(`wire`)
    pub value: RData,
}

impl Entry {
    /// RFC 3597 section 4: only the RFC 1035 types may have compressed names in RDATA.
    pub fn compressible(&self) -> bool {
        compressible_type(self.rtype)
    }
}

/// Types whose embedded names may legitimately be (de)compressed: NS, CNAME, PTR, MX, SOA and the
/// obsolete RFC 1035 types MD, MF, MB, MG, MR, MINFO.
pub fn compressible_type(t: u16) -> bool {
    matches!(t, 2 | 5 | 12 | 15 | 6 | 3 | 4 | 7 | 8 | 9 | 14)
}

fn cat(parts: &[&[u8]]) -> Vec<u8> {
    parts.concat()
}

fn cs(s: &[u8]) -> Vec<u8> {
    assert!(s.len() <= 255);
    let mut v = vec![s.len() as u8];
    v.extend_from_slice(s);
    v
}

fn be16(v: u16) -> [u8; 2] {
    v.to_be_bytes()
}
fn be32(v: u32) -> [u8; 4] {
    v.to_be_bytes()
}

/// NSEC/NSEC3/CSYNC type bitmap (RFC 4034 4.1.2) for a sorted list of type codes.
pub fn bitmap(types: &[u16]) -> Vec<u8> {
    let mut out = vec![];
    let mut ts = types.to_vec();
    ts.sort();
    ts.dedup();
    let mut w = 0usize;
    while w < 256 {
        let in_w: Vec<u16> = ts.iter().copied().filter(|t| (*t >> 8) as usize == w).collect();
        if !in_w.is_empty() {
            let maxlow = (in_w.iter().max().unwrap() & 0xff) as usize;
            let mut bm = vec![0u8; maxlow / 8 + 1];
            for t in in_w {
                let low = (t & 0xff) as usize;
                bm[low / 8] |= 0x80 >> (low % 8);
            }
            out.push(w as u8);
            out.push(bm.len() as u8);
            out.extend(bm);
        }
        w += 1;
    }
    out
}

static REJECTED: std::sync::Mutex<Vec<(String, u16, Vec<u8>, String)>> = std::sync::Mutex::new(Vec::new());

/// Alphabet entries (tag, type, RFC RDATA, error) whose hand-written RFC octets the decoder refused
/// during the last `rdata_alphabet` call.
pub fn rejected_entries() -> Vec<(String, u16, Vec<u8>, String)> {
    REJECTED.lock().unwrap().clone()
}

struct B {
    v: Vec<Entry>,
}

impl B {
    fn add(&mut self, tag: &str, rtype: u16, wire: Vec<u8>, built: Option<RData>) {
        let decoded = RData::read(BinDecoder::new(&wire), RecordType::from(rtype));
        let value = match (&built, decoded) {
            (Some(b), _) => b.clone(),
            (None, Ok(d)) => d,
            (None, Err(e)) => {
                // RFC-valid RDATA the decoder refuses: not usable as a value; C02 reports it as a violation
                REJECTED.lock().unwrap().push((tag.to_string(), rtype, wire, e.to_string()));
                return;
            }
        };
        self.v.push(Entry { tag: tag.to_string(), rtype, wire, built, value });
    }
}

/// The RDATA alphabet. `thorough` adds further value shapes.
pub fn rdata_alphabet(thorough: bool) -> Vec<Entry> {
    REJECTED.lock().unwrap().clear();
    let mut b = B { v: vec![] };
    let t = thorough;

    // ---- RFC 1035 ----------------------------------------------------------------------------
    b.add("A/min", 1, vec![0, 0, 0, 0], Some(RData::A(A::new(0, 0, 0, 0))));
    b.add("A/max", 1, vec![255, 255, 255, 255], Some(RData::A(A::new(255, 255, 255, 255))));
    if t {
        b.add("A/c0-bytes", 1, vec![0xc0, 0x0c, 0xc0, 0x00], Some(RData::A(A::new(0xc0, 0x0c, 0xc0, 0x00))));
    }
    b.add("NS/shared-suffix", 2, wn("ns.a.z."), Some(RData::NS(NS(hn("ns.a.z.")))));
    b.add("NS/mixed-case", 2, wn("Ns.A.z."), Some(RData::NS(NS(hn("Ns.A.z.")))));
    b.add("NS/root", 2, wn("."), Some(RData::NS(NS(hn(".")))));
    b.add("CNAME/owner-like", 5, wn("a.z."), Some(RData::CNAME(CNAME(hn("a.z.")))));
    b.add("CNAME/upper", 5, wn("B.A.Z."), Some(RData::CNAME(CNAME(hn("B.A.Z.")))));
    if t {
        b.add("CNAME/63", 5, wn("@63.z."), Some(RData::CNAME(CNAME(hn("@63.z.")))));
    }
    b.add("PTR/arpa", 12, wn("1.0.0.10.in-addr.arpa."), Some(RData::PTR(PTR(hn("1.0.0.10.in-addr.arpa.")))));
    b.add("PTR/shared", 12, wn("b.a.z."), Some(RData::PTR(PTR(hn("b.a.z.")))));
    b.add("MX/min", 15, cat(&[&be16(0), &wn("a.z.")]), Some(RData::MX(MX::new(0, hn("a.z.")))));
    b.add(
        "MX/mixed-case",
        15,
        cat(&[&be16(65535), &wn("Mail.B.a.Z.")]),
        Some(RData::MX(MX::new(65535, hn("Mail.B.a.Z.")))),
    );
    b.add(
        "SOA/typical",
        6,
        cat(&[&wn("ns.a.z."), &wn("hostmaster.a.z."), &be32(1), &be32(2), &be32(3), &be32(4), &be32(5)]),
        Some(RData::SOA(SOA::new(hn("ns.a.z."), hn("hostmaster.a.z."), 1, 2, 3, 4, 5))),
    );
    b.add(
        "SOA/boundary",
        6,
        cat(&[
            &wn("A.z."),
            &wn("."),
            &be32(u32::MAX),
            &be32(i32::MAX as u32),
            &be32(0),
            &be32(i32::MAX as u32),
            &be32(u32::MAX),
        ]),
        Some(RData::SOA(SOA::new(hn("A.z."), hn("."), u32::MAX, i32::MAX, 0, i32::MAX, u32::MAX))),
    );
    if t {
        // negative interval values: the fields are 32-bit on the wire, hickory models them as i32
        b.add(
            "SOA/high-bit",
            6,
            cat(&[&wn("z."), &wn("Z."), &be32(0x8000_0000), &be32(0x8000_0000), &be32(0xffff_ffff), &be32(0x8000_0001), &be32(0x8000_0000)]),
            Some(RData::SOA(SOA::new(hn("z."), hn("Z."), 0x8000_0000, i32::MIN, -1, i32::MIN + 1, 0x8000_0000))),
        );
    }
    b.add("TXT/one", 16, cs(b"hello"), Some(RData::TXT(TXT::new(vec!["hello".into()]))));
    b.add(
        "TXT/two",
        16,
        cat(&[&cs(b"a"), &cs(b"")]),
        Some(RData::TXT(TXT::from_bytes(vec![b"a", b""]))),
    );
    b.add(
        "TXT/255-binary",
        16,
        cs(&(0..255u32).map(|i| i as u8).collect::<Vec<u8>>()),
        Some(RData::TXT(TXT::from_bytes(vec![&(0..255u32).map(|i| i as u8).collect::<Vec<u8>>()[..]]))),
    );
    b.add("HINFO/typical", 13, cat(&[&cs(b"CPU"), &cs(b"OS")]), Some(RData::HINFO(HINFO::new("CPU".into(), "OS".into()))));
    b.add("HINFO/empty-strings", 13, cat(&[&cs(b""), &cs(b"")]), Some(RData::HINFO(HINFO::new("".into(), "".into()))));
    b.add("NULL/bytes", 10, vec![0xc0, 0x0c, 0x00, 0xff], Some(RData::NULL(NULL::with(vec![0xc0, 0x0c, 0x00, 0xff]))));
    b.add("NULL/one", 10, vec![0], Some(RData::NULL(NULL::with(vec![0]))));

    // ---- later types, names never compressed -------------------------------------------------
    b.add("AAAA/min", 28, vec![0; 16], Some(RData::AAAA(AAAA::new(0, 0, 0, 0, 0, 0, 0, 0))));
    b.add(
        "AAAA/doc",
        28,
        vec![0x20, 0x01, 0x0d, 0xb8, 0, 0, 0, 0, 0, 0, 0, 0, 0xc0, 0x0c, 0xff, 0xff],
        Some(RData::AAAA(AAAA::new(0x2001, 0x0db8, 0, 0, 0, 0, 0xc00c, 0xffff))),
    );
    b.add("ANAME/shared", 65305, wn("a.z."), Some(RData::ANAME(ANAME(hn("a.z.")))));
    b.add("ANAME/mixed-case", 65305, wn("wWw.A.Z."), Some(RData::ANAME(ANAME(hn("wWw.A.Z.")))));
    b.add(
        "SRV/typical",
        33,
        cat(&[&be16(1), &be16(2), &be16(443), &wn("b.a.z.")]),
        Some(RData::SRV(SRV::new(1, 2, 443, hn("b.a.z.")))),
    );
    b.add(
        "SRV/mixed-case-root",
        33,
        cat(&[&be16(65535), &be16(0), &be16(65535), &wn("Srv.A.z.")]),
        Some(RData::SRV(SRV::new(65535, 0, 65535, hn("Srv.A.z.")))),
    );
    if t {
        b.add("SRV/root-target", 33, cat(&[&be16(0), &be16(0), &be16(0), &wn(".")]), Some(RData::SRV(SRV::new(0, 0, 0, hn(".")))));
    }
    b.add(
        "NAPTR/typical",
        35,
        cat(&[&be16(100), &be16(10), &cs(b"S"), &cs(b"SIP+D2U"), &cs(b""), &wn("_sip._udp.a.z.")]),
        Some(RData::NAPTR(NAPTR::new(
            100,
            10,
            b"S".to_vec().into_boxed_slice(),
            b"SIP+D2U".to_vec().into_boxed_slice(),
            b"".to_vec().into_boxed_slice(),
            hn("_sip._udp.a.z."),
        ))),
    );
    b.add(
        "NAPTR/regexp-mixed-case",
        35,
        cat(&[&be16(0), &be16(65535), &cs(b"u"), &cs(b"E2U+sip"), &cs(b"!^.*$!sip:info@example.com!"), &wn("A.Z.")]),
        Some(RData::NAPTR(NAPTR::new(
            0,
            65535,
            b"u".to_vec().into_boxed_slice(),
            b"E2U+sip".to_vec().into_boxed_slice(),
            b"!^.*$!sip:info@example.com!".to_vec().into_boxed_slice(),
            hn("A.Z."),
        ))),
    );
    b.add("OPENPGPKEY/bytes", 61, vec![0x99, 0x01, 0x0d, 0x04], Some(RData::OPENPGPKEY(OPENPGPKEY::new(vec![0x99, 0x01, 0x0d, 0x04]))));
    b.add(
        "SSHFP/ed25519-sha256",
        44,
        cat(&[&[4, 2], &[0xab; 32]]),
        Some(RData::SSHFP(SSHFP::new(sshfp::Algorithm::Ed25519, sshfp::FingerprintType::SHA256, vec![0xab; 32]))),
    );
    b.add(
        "SSHFP/unassigned-codes",
        44,
        vec![200, 201, 1],
        Some(RData::SSHFP(SSHFP::new(
            sshfp::Algorithm::Unassigned(200),
            sshfp::FingerprintType::Unassigned(201),
            vec![1],
        ))),
    );
    b.add(
        "TLSA/3-1-1",
        52,
        cat(&[&[3, 1, 1], &[0x5a; 32]]),
        Some(RData::TLSA(TLSA::new(CertUsage::DaneEe, Selector::Spki, Matching::Sha256, vec![0x5a; 32]))),
    );
    b.add(
        "TLSA/unassigned",
        52,
        vec![9, 9, 9, 0],
        Some(RData::TLSA(TLSA::new(CertUsage::Unassigned(9), Selector::Unassigned(9), Matching::Unassigned(9), vec![0]))),
    );
    b.add(
        "SMIMEA/0-0-0",
        53,
        vec![0, 0, 0, 0x30, 0x82],
        Some(RData::SMIMEA(SMIMEA::new(CertUsage::PkixTa, Selector::Full, Matching::Raw, vec![0x30, 0x82]))),
    );
    // CAA (RFC 8659 4.1): flags, tag length, tag, value
    b.add("CAA/issue", 257, cat(&[&[0], &cs(b"issue"), b"ca.example.net"]), None);
    b.add("CAA/issue-critical-params", 257, cat(&[&[0x80], &cs(b"issuewild"), b"ca.example.net; account=230123"]), None);
    b.add("CAA/iodef", 257, cat(&[&[0], &cs(b"iodef"), b"mailto:security@example.com"]), None);
    b.add("CAA/unknown-tag-empty-value", 257, cat(&[&[0x01], &cs(b"tbs")]), None);
    if t {
        b.add("CAA/issue-empty", 257, cat(&[&[0], &cs(b"issue"), b";"]), None);
        b.add("CAA/mixed-case-tag", 257, cat(&[&[0], &cs(b"Issue"), b"Ca.Example.Net"]), None);
    }
    // CERT (RFC 4398 2): type, key tag, algorithm, certificate
    b.add("CERT/pkix", 37, cat(&[&be16(1), &be16(12345), &[8], &[0x30, 0x82, 0x01]]), None);
    b.add("CERT/uri-private", 37, cat(&[&be16(253), &be16(0), &[0], b"http://x/"]), None);
    if t {
        b.add("CERT/unassigned", 37, cat(&[&be16(9), &be16(65535), &[255], &[0]]), None);
    }
    // CSYNC (RFC 7477 2.1.1): serial, flags, type bitmap
    b.add(
        "CSYNC/immediate",
        62,
        cat(&[&be32(66), &be16(3), &bitmap(&[1, 2, 28])]),
        Some(RData::CSYNC(CSYNC::new(66, true, true, [RecordType::A, RecordType::NS, RecordType::AAAA]))),
    );
    b.add(
        "CSYNC/high-window",
        62,
        cat(&[&be32(u32::MAX), &be16(0), &bitmap(&[2, 257, 65280])]),
        Some(RData::CSYNC(CSYNC::new(u32::MAX, false, false, [RecordType::NS, RecordType::CAA, RecordType::Unknown(65280)]))),
    );
    // SVCB / HTTPS (RFC 9460 2.2): priority, target, params in ascending key order
    b.add("SVCB/alias", 64, cat(&[&be16(0), &wn("Svc.a.z.")]), None);
    b.add(
        "SVCB/params",
        64,
        cat(&[
            &be16(1),
            &wn("."),
            // mandatory = alpn, port
            &be16(0), &be16(4), &be16(1), &be16(3),
            // alpn = h2, h3
            &be16(1), &be16(6), &cs(b"h2"), &cs(b"h3"),
            // port
            &be16(3), &be16(2), &be16(8443),
        ]),
        None,
    );
    b.add(
        "HTTPS/hints",
        65,
        cat(&[
            &be16(16),
            &wn("b.a.z."),
            // no-default-alpn needs alpn
            &be16(1), &be16(3), &cs(b"h2"),
            &be16(2), &be16(0),
            // ipv4hint x2
            &be16(4), &be16(8), &[192, 0, 2, 1, 192, 0, 2, 2],
            // ech
            &be16(5), &be16(3), &[0xfe, 0x0d, 0x00],
            // ipv6hint
            &be16(6), &be16(16), &[0x20, 0x01, 0x0d, 0xb8, 0, 0, 0, 0, 0, 0, 0, 0, 0, 0, 0, 1],
            // private-use key with opaque value, unknown key with empty value
            &be16(667), &be16(2), &[0xc0, 0x0c],
            &be16(65280), &be16(0),
        ]),
        None,
    );
    b.add("HTTPS/alias-root", 65, cat(&[&be16(0), &wn(".")]), None);
    // unknown type (RFC 3597): opaque
    b.add(
        "TYPE65280/opaque",
        65280,
        vec![0xc0, 0x0c, 1, 2, 3],
        Some(RData::Unknown { code: RecordType::Unknown(65280), rdata: NULL::with(vec![0xc0, 0x0c, 1, 2, 3]) }),
    );
    b.add(
        "TYPE39/DNAME-as-unknown",
        39,
        wn("Target.Z."),
        Some(RData::Unknown { code: RecordType::Unknown(39), rdata: NULL::with(wn("Target.Z.")) }),
    );
    if t {
        b.add(
            "TYPE14/MINFO-as-unknown",
            14,
            cat(&[&wn("r.a.z."), &wn("e.a.z.")]),
            Some(RData::Unknown { code: RecordType::Unknown(14), rdata: NULL::with(cat(&[&wn("r.a.z."), &wn("e.a.z.")])) }),
        );
    }

    // ---- DNSSEC (RFC 4034, 5155, 7344) -------------------------------------------------------
    // DNSKEY: flags, protocol=3, algorithm, key
    b.add("DNSKEY/zsk-ed25519", 48, cat(&[&be16(256), &[3, 15], &[0x11; 32]]), None);
    b.add("DNSKEY/ksk-revoked-rsa", 48, cat(&[&be16(257 | 0x80), &[3, 8], &[3, 1, 0, 1], &[0xc3; 64]]), None);
    b.add("CDNSKEY/ksk", 60, cat(&[&be16(257), &[3, 13], &[0x22; 64]]), None);
    b.add("CDNSKEY/delete", 60, cat(&[&be16(0), &[3, 0], &[0]]), None);
    b.add(
        "DS/sha256",
        43,
        cat(&[&be16(60485), &[13, 2], &[0x2b; 32]]),
        Some(RData::DNSSEC(DNSSECRData::DS(DS::new(60485, Algorithm::ECDSAP256SHA256, DigestType::SHA256, vec![0x2b; 32])))),
    );
    b.add(
        "DS/sha384",
        43,
        cat(&[&be16(0), &[15, 4], &[0x01; 48]]),
        Some(RData::DNSSEC(DNSSECRData::DS(DS::new(0, Algorithm::ED25519, DigestType::SHA384, vec![0x01; 48])))),
    );
    b.add("CDS/sha256", 59, cat(&[&be16(65535), &[8, 2], &[0x7c; 32]]), None);
    b.add("CDS/delete", 59, cat(&[&be16(0), &[0, 0], &[0]]), None);
    // KEY (RFC 2535 3.1 / RFC 3445): flags, protocol, algorithm, key
    b.add("KEY/host", 25, cat(&[&be16(0x0200), &[3, 15], &[0x44; 32]]), None);
    b.add("KEY/zone-signatory", 25, cat(&[&be16(0x0101), &[3, 8], &[3, 1, 0, 1, 0xaa, 0xbb]]), None);
    // NSEC: next name (never compressed, case preserved), bitmap
    b.add(
        "NSEC/typical",
        47,
        cat(&[&wn("b.a.z."), &bitmap(&[1, 46, 47])]),
        Some(RData::DNSSEC(DNSSECRData::NSEC(NSEC::new(hn("b.a.z."), [RecordType::A, RecordType::RRSIG, RecordType::NSEC])))),
    );
    b.add(
        "NSEC/mixed-case-windows",
        47,
        cat(&[&wn("Host.A.Z."), &bitmap(&[2, 6, 257, 1234, 65535])]),
        Some(RData::DNSSEC(DNSSECRData::NSEC(NSEC::new(
            hn("Host.A.Z."),
            [RecordType::NS, RecordType::SOA, RecordType::CAA, RecordType::Unknown(1234), RecordType::Unknown(65535)],
        )))),
    );
    // NSEC3: alg=1, flags, iterations, salt, next hashed owner, bitmap
    b.add(
        "NSEC3/optout-salt",
        50,
        cat(&[&[1, 1], &be16(10), &cs(&[0xaa, 0xbb]), &cs(&[0x5c; 20]), &bitmap(&[1, 2, 43])]),
        Some(RData::DNSSEC(DNSSECRData::NSEC3(NSEC3::new(
            Nsec3HashAlgorithm::SHA1,
            true,
            10,
            vec![0xaa, 0xbb],
            vec![0x5c; 20],
            [RecordType::A, RecordType::NS, RecordType::DS],
        )))),
    );
    b.add(
        "NSEC3/nosalt-empty-bitmap",
        50,
        cat(&[&[1, 0], &be16(0), &cs(&[]), &cs(&[0x01; 20])]),
        Some(RData::DNSSEC(DNSSECRData::NSEC3(NSEC3::new(Nsec3HashAlgorithm::SHA1, false, 0, vec![], vec![0x01; 20], [])))),
    );
    b.add(
        "NSEC3PARAM/salt",
        51,
        cat(&[&[1, 0], &be16(65535), &cs(&[1, 2, 3, 4])]),
        Some(RData::DNSSEC(DNSSECRData::NSEC3PARAM(NSEC3PARAM::new(Nsec3HashAlgorithm::SHA1, false, 65535, vec![1, 2, 3, 4])))),
    );
    b.add(
        "NSEC3PARAM/nosalt",
        51,
        cat(&[&[1, 0], &be16(0), &cs(&[])]),
        Some(RData::DNSSEC(DNSSECRData::NSEC3PARAM(NSEC3PARAM::new(Nsec3HashAlgorithm::SHA1, false, 0, vec![])))),
    );
    // RRSIG / SIG: covered, alg, labels, original ttl, expiration, inception, key tag, signer, sig
    let sigfix = |covered: u16, alg: u8, nlabels: u8, ttl: u32, exp: u32, inc: u32, tag: u16| -> Vec<u8> {
        cat(&[&be16(covered), &[alg, nlabels], &be32(ttl), &be32(exp), &be32(inc), &be16(tag)])
    };
    b.add("RRSIG/typical", 46, cat(&[&sigfix(1, 13, 2, 3600, 1_700_086_400, 1_700_000_000, 60485), &wn("a.z."), &[0x99; 64]]), None);
    b.add("RRSIG/mixed-case-signer", 46, cat(&[&sigfix(65280, 8, 0, u32::MAX, u32::MAX, 0, 65535), &wn("A.Z."), &[1]]), None);
    b.add("SIG/sig0-like", 24, cat(&[&sigfix(0, 15, 0, 0, 1_700_000_300, 1_700_000_000, 1), &wn("Key.a.z."), &[0x77; 64]]), None);
    b.add("SIG/root-signer", 24, cat(&[&sigfix(6, 5, 1, 1, 2, 3, 4), &wn("."), &[0xff, 0x00]]), None);

    b.v
}

pub const OWNERS: [&str; 5] = [".", "a.z.", "A.z.", "b.a.z.", "@63.z."];
pub const TTLS: [u32; 5] = [0, 1, 0x7fff_ffff, 0x8000_0000, 0xffff_ffff];

pub fn classes() -> [DNSClass; 5] {
    [DNSClass::IN, DNSClass::CH, DNSClass::NONE, DNSClass::ANY, DNSClass::Unknown(4096)]
}

#[derive(Clone, Debug)]
pub struct Rec {
    pub tag: String,
    pub entry: usize,
    pub owner: &'static str,
    pub record: Record,
}

/// Record alphabet R. `level` 0 = compact (every RDATA entry once with a rotating owner / class /
/// TTL), 1 = compact + an owner x class x TTL slice on one A entry, 2 = two rotations of every
/// entry + the full owner x class x TTL product on A and a third of it on MX.
pub fn record_alphabet(entries: &[Entry], level: u8) -> Vec<Rec> {
    let cl = classes();
    let mut out = vec![];
    let mk = |ei: usize, o: usize, c: usize, t: usize| -> Rec {
        let e = &entries[ei];
        let mut r = Record::from_rdata(hn(OWNERS[o]), TTLS[t], e.value.clone());
        r.dns_class = cl[c];
        Rec { tag: format!("{} @{} {:?} ttl={}", e.tag, OWNERS[o], cl[c], TTLS[t]), entry: ei, owner: OWNERS[o], record: r }
    };
    for ei in 0..entries.len() {
        // rotate so that every owner / class / ttl shape meets several types
        out.push(mk(ei, ei % 5, (ei / 5) % 5, (ei / 2) % 5));
        if level >= 2 {
            out.push(mk(ei, (ei + 2) % 5, 0, (ei + 1) % 5));
        }
    }
    if level == 0 {
        return out;
    }
    let a = entries.iter().position(|e| e.tag == "A/max").unwrap();
    let mx = entries.iter().position(|e| e.tag == "MX/mixed-case").unwrap();
    for o in 0..5 {
        for c in 0..5 {
            for t in 0..5 {
                if level >= 2 || o == c || c == t || o == t {
                    out.push(mk(a, o, c, t));
                }
                if level >= 2 && (o + c + t) % 3 == 0 {
                    out.push(mk(mx, o, c, t));
                }
            }
        }
    }
    out
}
