//! Name visitor: every `Name` reachable from a decoded value, and the RFC 1035 size limits
//! computed from the label iterator (never from hickory's own `len()`).

use hickory_proto::dnssec::rdata::DNSSECRData;
use hickory_proto::op::Message;
use hickory_proto::rr::rdata::tsig::TsigAlgorithm;
use hickory_proto::rr::{Name, RData, Record};

/// (wire length, longest label) of a name, from its labels: sum(len+1) + 1 for the root octet.
pub fn measure(name: &Name) -> (usize, usize) {
    let mut total = 1usize;
    let mut longest = 0usize;
    for l in name.iter() {
        total += l.len() + 1;
        longest = longest.max(l.len());
    }
    (total, longest)
}

/// `None` if the name respects RFC 1035 2.3.4 (labels <= 63, name <= 255), else the clause id.
pub fn limit_violation(name: &Name) -> Option<&'static str> {
    let (total, longest) = measure(name);
    if longest > 63 {
        Some("label-over-63")
    } else if total > 255 {
        Some("name-over-255")
    } else {
        None
    }
}

/// Calls `f` for every name embedded in the RDATA.
pub fn visit_rdata(r: &RData, f: &mut dyn FnMut(&Name)) {
    match r {
        RData::ANAME(n) => f(&n.0),
        RData::CNAME(n) => f(&n.0),
        RData::NS(n) => f(&n.0),
        RData::PTR(n) => f(&n.0),
        RData::MX(mx) => f(&mx.exchange),
        RData::SOA(soa) => {
            f(&soa.mname);
            f(&soa.rname);
        }
        RData::SRV(srv) => f(&srv.target),
        RData::NAPTR(n) => f(&n.replacement),
        RData::SVCB(s) => f(&s.target_name),
        RData::HTTPS(s) => f(&s.0.target_name),
        // the CAA value is kept as raw octets and parsed on demand (RFC 8659 4.2/4.3): run the deferred
        // parsers, the issuer they yield is a name taken from network octets like any other
        RData::CAA(caa) => {
            if let Ok((Some(n), _params)) = caa.value_as_issue() {
                f(&n)
            }
            let _ = caa.value_as_iodef();
        }
        RData::TSIG(t) => {
            if let TsigAlgorithm::Unknown(n) = &t.algorithm {
                f(n)
            }
        }
        RData::DNSSEC(d) => match d {
            DNSSECRData::NSEC(n) => f(n.next_domain_name()),
            DNSSECRData::RRSIG(s) => f(&s.input().signer_name),
            DNSSECRData::SIG(s) => f(&s.input().signer_name),
            _ => {}
        },
        _ => {}
    }
}

pub fn visit_record(r: &Record, f: &mut dyn FnMut(&Name)) {
    f(&r.name);
    visit_rdata(&r.data, f);
}

pub fn visit_message(m: &Message, f: &mut dyn FnMut(&Name)) {
    for q in &m.queries {
        f(&q.name);
    }
    for r in m.answers.iter().chain(m.authorities.iter()).chain(m.additionals.iter()) {
        visit_record(r, f);
    }
    if let Some(sig) = &m.signature {
        f(&sig.name);
        if let TsigAlgorithm::Unknown(n) = &sig.data.algorithm {
            f(n)
        }
    }
}

/// Names of two RDATA values pairwise equal, case-sensitively.
pub fn rdata_names_eq_case(a: &RData, b: &RData) -> bool {
    let mut na: Vec<Name> = vec![];
    let mut nb: Vec<Name> = vec![];
    visit_rdata(a, &mut |n| na.push(n.clone()));
    visit_rdata(b, &mut |n| nb.push(n.clone()));
    na.len() == nb.len() && na.iter().zip(nb.iter()).all(|(x, y)| x.eq_case(y))
}
