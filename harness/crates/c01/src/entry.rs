//! The decoding entry points of hickory that accept network bytes, behind one uniform call.

use std::cell::{Cell, RefCell};
use std::net::SocketAddr;

use futures_util::StreamExt;
use hickory_net::runtime::Time;
use hickory_net::xfer::Protocol;
use hickory_net::BufDnsStreamHandle;
use hickory_proto::op::{DnsResponse, Message, SerialMessage};
use hickory_proto::rr::rdata::tsig::signed_bitmessage_to_buf;
use hickory_proto::rr::{Name, RData, Record, RecordType};
use hickory_proto::serialize::binary::{BinDecodable, BinDecoder, DecodeError};
use hickory_proto::ProtoError;
use hickory_server::server::{Request, RequestHandler, ResponseHandler};
use hickory_server::Server;

use crate::names;

#[derive(Clone, Copy, Debug, PartialEq, Eq, Hash)]
pub enum Entry {
    /// `Message::from_vec`
    Message,
    /// `hickory_server::server::Request::from_bytes` (UDP)
    Request,
    /// `DnsResponse::from_buffer`
    Response,
    /// the server's real front door (`ServerContext::handle_request` through the
    /// `Server::verif_handle_raw_request` hook, UDP): header gate, response gate, opcode gate,
    /// `Queries::read`, `MessageRequest::read_with_queries`, error responses built from the raw
    /// question. "accepted" = the request reached the `RequestHandler`.
    FrontDoor,
    /// `signed_bitmessage_to_buf(bytes, None, true)`: the TSIG verifier's parse of unauthenticated bytes
    TsigTbs,
    /// `Record::read` with the decoder positioned at `off` (bytes before `off` are pointer targets)
    Record { off: u16 },
    /// `Name::read` at `off`
    Name { off: u16 },
    /// `RData::read(decoder, rtype)` with the decoder clamped to `buf[off..]`
    Rdata { rtype: u16, off: u16 },
}

impl Entry {
    pub fn label(&self) -> String {
        match self {
            Entry::Message => "message".into(),
            Entry::Request => "request".into(),
            Entry::Response => "response".into(),
            Entry::FrontDoor => "frontdoor".into(),
            Entry::TsigTbs => "tsig-tbs".into(),
            Entry::Record { off } => format!("record@{off}"),
            Entry::Name { off } => format!("name@{off}"),
            Entry::Rdata { rtype, off } => format!("rdata:{rtype}@{off}"),
        }
    }
    /// coarse class used in violation keys (no offsets, no type codes)
    pub fn class(&self) -> &'static str {
        match self {
            Entry::Message => "message",
            Entry::Request => "request",
            Entry::Response => "response",
            Entry::FrontDoor => "frontdoor",
            Entry::TsigTbs => "tsig-tbs",
            Entry::Record { .. } => "record",
            Entry::Name { .. } => "name",
            Entry::Rdata { .. } => "rdata",
        }
    }
    pub fn off(&self) -> usize {
        match self {
            Entry::Record { off } | Entry::Name { off } | Entry::Rdata { off, .. } => *off as usize,
            _ => 0,
        }
    }
    pub fn parse(s: &str) -> Option<Entry> {
        Some(match s {
            "message" => Entry::Message,
            "request" => Entry::Request,
            "response" => Entry::Response,
            "frontdoor" => Entry::FrontDoor,
            "tsig-tbs" => Entry::TsigTbs,
            _ => {
                let (head, off) = s.split_once('@')?;
                let off: u16 = off.parse().ok()?;
                if head == "record" {
                    Entry::Record { off }
                } else if head == "name" {
                    Entry::Name { off }
                } else {
                    let t = head.strip_prefix("rdata:")?;
                    Entry::Rdata { rtype: t.parse().ok()?, off }
                }
            }
        })
    }
}

/// Result of one decode that returned.
#[derive(Clone, Debug)]
pub struct Outcome {
    pub ok: bool,
    /// error variant (static name), "" when ok
    pub err: &'static str,
    /// decoder work units (hook counter)
    pub ticks: u64,
    /// RFC 1035 size limit broken by a name inside the decoded value
    pub name_violation: Option<(&'static str, String)>,
}

pub fn err_name(e: &DecodeError) -> &'static str {
    use DecodeError::*;
    match e {
        BadQueryCount(_) => "BadQueryCount",
        DnsKeyProtocolNot3(_) => "DnsKeyProtocolNot3",
        KeyFlagsReserved(_) => "KeyFlagsReserved",
        ExtendedKeyFlagsUnsupported(_) => "ExtendedKeyFlagsUnsupported",
        EdnsNameNotRoot(_) => "EdnsNameNotRoot",
        IncorrectRDataLengthRead { .. } => "IncorrectRDataLengthRead",
        InsufficientBytes => "InsufficientBytes",
        InvalidEmptyRecord => "InvalidEmptyRecord",
        InvalidPreviousIndex => "InvalidPreviousIndex",
        PointerNotPriorToLabel { .. } => "PointerNotPriorToLabel",
        LabelBytesTooLong(_) => "LabelBytesTooLong",
        UnrecognizedLabelCode(_) => "UnrecognizedLabelCode",
        DomainNameTooLong(_) => "DomainNameTooLong",
        LabelOverlapsWithOther { .. } => "LabelOverlapsWithOther",
        UnknownDigestAlgorithm(_) => "UnknownDigestAlgorithm",
        UnknownDnsClassStr(_) => "UnknownDnsClassStr",
        UnknownDnsClassValue(_) => "UnknownDnsClassValue",
        UnknownRecordTypeStr(_) => "UnknownRecordTypeStr",
        UnknownRecordTypeValue(_) => "UnknownRecordTypeValue",
        UnrecognizedNsec3Flags(_) => "UnrecognizedNsec3Flags",
        UnrecognizedCsyncFlags(_) => "UnrecognizedCsyncFlags",
        UnknownNsec3HashAlgorithm(_) => "UnknownNsec3HashAlgorithm",
        RecordAfterSig => "RecordAfterSig",
        RecordNotInAdditionalSection(_) => "RecordNotInAdditionalSection",
        DuplicateEdns => "DuplicateEdns",
        SvcParamsOutOfOrder => "SvcParamsOutOfOrder",
        SvcParamMissingValue => "SvcParamMissingValue",
        NsecBitmapOutOfBounds => "NsecBitmapOutOfBounds",
        CaaTagInvalid => "CaaTagInvalid",
        NaptrFlagsInvalid => "NaptrFlagsInvalid",
        UnknownAddressFamily(_) => "UnknownAddressFamily",
        Utf8(_) => "Utf8",
        _ => "OtherDecodeError",
    }
}

pub fn proto_err_name(e: &ProtoError) -> &'static str {
    match e {
        ProtoError::Decode(d) => err_name(d),
        ProtoError::Message(_) => "ProtoError::Message",
        ProtoError::Msg(_) => "ProtoError::Msg",
        ProtoError::NotAResponse => "ProtoError::NotAResponse",
        _ => "ProtoError::Other",
    }
}

fn check_names(visit: impl FnOnce(&mut dyn FnMut(&Name))) -> Option<(&'static str, String)> {
    let mut bad = None;
    visit(&mut |n: &Name| {
        if bad.is_none() {
            if let Some(c) = names::limit_violation(n) {
                let (total, longest) = names::measure(n);
                bad = Some((c, format!("wire length {total}, longest label {longest}")));
            }
        }
    });
    bad
}

// ---- front door -------------------------------------------------------------------------------

thread_local! {
    static REACHED: Cell<bool> = const { Cell::new(false) };
    static REQ_NAMES: RefCell<Option<(&'static str, String)>> = const { RefCell::new(None) };
    static FRONT: (tokio::runtime::Runtime, Server<Probe>) = (
        tokio::runtime::Builder::new_current_thread().enable_time().build().expect("runtime"),
        Server::new(Probe),
    );
}

/// A request handler that only records that decoding succeeded and inspects the decoded names.
struct Probe;

#[async_trait::async_trait]
impl RequestHandler for Probe {
    async fn handle_request<R: ResponseHandler, T: Time>(&self, r: &Request, _response_handle: R) {
        REACHED.with(|c| c.set(true));
        let bad = request_names(r);
        REQ_NAMES.with(|c| *c.borrow_mut() = bad);
    }
}

fn request_names(r: &Request) -> Option<(&'static str, String)> {
    check_names(|f| {
        f(&r.queries.original().name);
        f(r.queries.name());
        for rec in r.answers.iter().chain(r.authorities.iter()).chain(r.additionals.iter()) {
            names::visit_record(rec, f);
        }
        if let Some(sig) = &r.signature {
            f(&sig.name);
        }
    })
}

fn front_door(buf: &[u8]) -> (bool, &'static str, Option<(&'static str, String)>) {
    REACHED.with(|c| c.set(false));
    REQ_NAMES.with(|c| *c.borrow_mut() = None);
    let responses: Vec<Vec<u8>> = FRONT.with(|(rt, server)| {
        rt.block_on(async {
            let (handle, mut rx) = BufDnsStreamHandle::new(src());
            server.verif_handle_raw_request(SerialMessage::new(buf.to_vec(), src()), Protocol::Udp, handle).await;
            let mut out = vec![];
            while let Some(m) = rx.next().await {
                out.push(m.into_parts().0);
            }
            out
        })
    });
    if REACHED.with(|c| c.get()) {
        return (true, "", REQ_NAMES.with(|c| c.borrow_mut().take()));
    }
    let err = match responses.first() {
        None => "frontdoor:no-response",
        Some(r) if r.len() < 4 => "frontdoor:short-response",
        Some(r) => match r[3] & 0x0f {
            1 => "frontdoor:FormErr",
            4 => "frontdoor:NotImp",
            5 => "frontdoor:Refused",
            _ => "frontdoor:other-rcode",
        },
    };
    (false, err, None)
}

fn src() -> SocketAddr {
    SocketAddr::from(([192, 0, 2, 1], 5353))
}

/// Decode `buf` through `entry`. The caller wraps this in `vcore::catch`. Ticks are reset before
/// and read after the call, so the count is the work of this decode alone.
pub fn decode(entry: Entry, buf: &[u8]) -> Outcome {
    let _ = hickory_proto::verif::take_ticks();
    let (ok, err, name_violation) = match entry {
        Entry::Message => match Message::from_vec(buf) {
            Ok(m) => (true, "", check_names(|f| names::visit_message(&m, f))),
            Err(e) => (false, err_name(&e), None),
        },
        Entry::Response => match DnsResponse::from_buffer(buf.to_vec()) {
            Ok(m) => (true, "", check_names(|f| names::visit_message(&m, f))),
            Err(e) => (false, proto_err_name(&e), None),
        },
        Entry::Request => match Request::from_bytes(buf.to_vec(), src(), Protocol::Udp) {
            Ok(r) => (true, "", request_names(&r)),
            Err(e) => (false, proto_err_name(&e), None),
        },
        Entry::FrontDoor => front_door(buf),
        Entry::TsigTbs => match signed_bitmessage_to_buf(buf, None, true) {
            Ok((_tbs, rec)) => (true, "", check_names(|f| f(&rec.name))),
            Err(e) => (false, proto_err_name(&e), None),
        },
        Entry::Record { off } => {
            let mut d = BinDecoder::new(buf).clone(off);
            match Record::read(&mut d) {
                Ok(r) => (true, "", check_names(|f| names::visit_record(&r, f))),
                Err(e) => (false, err_name(&e), None),
            }
        }
        Entry::Name { off } => {
            let mut d = BinDecoder::new(buf).clone(off);
            match Name::read(&mut d) {
                Ok(n) => (true, "", check_names(|f| f(&n))),
                Err(e) => (false, err_name(&e), None),
            }
        }
        Entry::Rdata { rtype, off } => {
            let d = BinDecoder::new(buf).clone(off);
            match RData::read(d, RecordType::from(rtype)) {
                Ok(r) => (true, "", check_names(|f| names::visit_rdata(&r, f))),
                Err(e) => (false, err_name(&e), None),
            }
        }
    };
    let ticks = hickory_proto::verif::take_ticks();
    Outcome { ok, err, ticks, name_violation }
}
