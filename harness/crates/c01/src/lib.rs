//! Shared building blocks of the C01 (wire decoding is total) and C02 (round trip) checks:
//! entry points, name visitor, record alphabet with RFC wire forms, seed corpus, byte-string families.
pub mod alphabet;
pub mod entry;
pub mod families;
pub mod layout;
pub mod msgs;
pub mod names;
pub mod seeds;
pub mod wirex;
