//! RDATA-level wire helpers written from the RFC layouts (no hickory code): decompression of the
//! RFC 1035 types whose names may be compressed, and detection of compression pointers inside
//! names of types that must not be compressed (RFC 3597 section 4).

use vref::wire::{emit_name, read_name};

/// RDATA of a compressible type with all names expanded (case preserved); `None` if the type is
/// not one of NS, CNAME, PTR, MX, SOA (+ MD, MF, MB, MG, MR, MINFO) or the RDATA is malformed.
pub fn decompress_rdata(msg: &[u8], rtype: u16, start: usize, end: usize) -> Option<Vec<u8>> {
    let within = &msg[..end];
    let mut out = vec![];
    match rtype {
        2 | 5 | 12 | 3 | 4 | 7 | 8 | 9 => {
            let (n, p) = read_name(within, start).ok()?;
            if p != end {
                return None;
            }
            emit_name(&n, &mut out);
        }
        15 => {
            if start + 2 > end {
                return None;
            }
            out.extend_from_slice(&msg[start..start + 2]);
            let (n, p) = read_name(within, start + 2).ok()?;
            if p != end {
                return None;
            }
            emit_name(&n, &mut out);
        }
        6 | 14 => {
            let (n1, p1) = read_name(within, start).ok()?;
            let (n2, p2) = read_name(within, p1).ok()?;
            emit_name(&n1, &mut out);
            emit_name(&n2, &mut out);
            if rtype == 6 {
                if p2 + 20 != end {
                    return None;
                }
                out.extend_from_slice(&msg[p2..end]);
            } else if p2 != end {
                return None;
            }
        }
        _ => return None,
    }
    Some(out)
}

/// Does the encoded name starting at `rdata[at..]` end in a compression pointer?
fn name_has_pointer(rdata: &[u8], at: usize) -> Option<bool> {
    let mut p = at;
    loop {
        let l = *rdata.get(p)?;
        if l == 0 {
            return Some(false);
        }
        match l & 0xc0 {
            0x00 => p += 1 + l as usize,
            0xc0 => return Some(true),
            _ => return None,
        }
    }
}

/// For a type whose embedded name must not be compressed: `Some(true)` if the original RDATA
/// nevertheless carries a compression pointer in that name (the input is then outside RFC 3597
/// and a faithful re-encoding cannot keep the octets), `Some(false)` if the name is plain,
/// `None` if the type embeds no name (or the layout cannot be followed).
pub fn noncompressible_name_has_pointer(rtype: u16, rdata: &[u8]) -> Option<bool> {
    match rtype {
        // SIG, RRSIG: signer name after 18 fixed octets
        24 | 46 => name_has_pointer(rdata, 18),
        // SRV: target after priority, weight, port
        33 => name_has_pointer(rdata, 6),
        // NAPTR: order, preference, three character-strings, replacement
        35 => {
            let mut p = 4;
            for _ in 0..3 {
                p += 1 + *rdata.get(p)? as usize;
            }
            name_has_pointer(rdata, p)
        }
        // NSEC next name, TSIG algorithm name, ANAME (hickory's private code), DNAME-like single names
        47 | 250 | 65305 => name_has_pointer(rdata, 0),
        // SVCB, HTTPS: target after priority
        64 | 65 => name_has_pointer(rdata, 2),
        _ => None,
    }
}
