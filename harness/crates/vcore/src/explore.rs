//! E-STATE (explicit-state BFS over histories) and E-SCHED (deviation-bounded schedules).

use crate::{Ctx, Local};
use std::collections::HashSet;
use std::hash::Hash;
use std::sync::atomic::{AtomicU64, Ordering};
use std::sync::Mutex;

#[derive(Clone, Debug, Default)]
pub struct BfsStats {
    pub states: u64,
    pub transitions: u64,
    pub depth_completed: usize,
    pub fixpoint: bool,
    pub per_depth: Vec<u64>,
}

/// Breadth-first search. A node `N` is whatever the caller needs to re-create the state (usually
/// the operation history); `expand(node, local)` executes every enabled operation on the real
/// implementation (checking the oracle on each transition, reporting through `local`) and returns
/// the successors with their canonical keys. Nodes with an already seen key are dropped. The
/// visiting order and the representative of every key are deterministic (successors are merged
/// in (parent index, operation index) order) although expansion runs on all workers.
pub fn bfs<N, K, F>(ctx: &Ctx, roots: Vec<(N, K)>, max_depth: usize, expand: F) -> BfsStats
where
    N: Send + Sync,
    K: Hash + Eq + Send + Sync + Clone,
    F: Fn(&N, &mut Local) -> Vec<(N, K)> + Sync,
{
    let mut seen: HashSet<K> = HashSet::new();
    let mut frontier: Vec<N> = vec![];
    for (n, k) in roots {
        if seen.insert(k) {
            frontier.push(n);
        }
    }
    let mut stats = BfsStats {
        states: frontier.len() as u64,
        per_depth: vec![frontier.len() as u64],
        ..Default::default()
    };
    let mut depth = 0;
    while !frontier.is_empty() && depth < max_depth {
        if ctx.out_of_time() {
            ctx.cap(&format!("wall-clock budget reached at BFS depth {depth}"));
            break;
        }
        let results: Mutex<Vec<(u64, Vec<(N, K)>)>> = Mutex::new(Vec::new());
        let transitions = AtomicU64::new(0);
        let fr = &frontier;
        ctx.par_run(fr.len() as u64, 1, |i, l| {
            let succ = expand(&fr[i as usize], l);
            transitions.fetch_add(succ.len() as u64, Ordering::Relaxed);
            results.lock().unwrap().push((i, succ));
        });
        let mut results = results.into_inner().unwrap();
        results.sort_by_key(|r| r.0);
        stats.transitions += transitions.load(Ordering::Relaxed);
        let mut next = vec![];
        for (_, succ) in results {
            for (n, k) in succ {
                if seen.insert(k) {
                    next.push(n);
                }
            }
        }
        depth += 1;
        stats.depth_completed = depth;
        stats.states += next.len() as u64;
        stats.per_depth.push(next.len() as u64);
        frontier = next;
    }
    stats.fixpoint = frontier.is_empty();
    ctx.states.fetch_add(stats.states, Ordering::SeqCst);
    ctx.transitions.fetch_add(stats.transitions, Ordering::SeqCst);
    stats
}

// ------------------------------------------------------------------------------------------

/// Decision source for one execution of a scripted environment. Every decision point has a
/// default answer (index 0) and `n-1` alternatives. The chooser replays a recorded prefix and
/// answers 0 afterwards; the trace records (choice, number of alternatives) per point.
#[derive(Clone, Debug, Default)]
pub struct Chooser {
    prefix: Vec<u32>,
    pub trace: Vec<(u32, u32)>,
    pub diverged: bool,
}

impl Chooser {
    pub fn new(prefix: Vec<u32>) -> Self {
        Chooser {
            prefix,
            trace: vec![],
            diverged: false,
        }
    }
    pub fn choose(&mut self, n: u32) -> u32 {
        assert!(n >= 1);
        let pos = self.trace.len();
        let c = if pos < self.prefix.len() {
            let c = self.prefix[pos];
            if c >= n {
                // the recorded prefix does not fit this execution: nondeterminism leak
                self.diverged = true;
                0
            } else {
                c
            }
        } else {
            0
        };
        self.trace.push((c, n));
        c
    }
    pub fn choices(&self) -> Vec<u32> {
        self.trace.iter().map(|t| t.0).collect()
    }
    pub fn deviations(&self) -> usize {
        self.trace.iter().filter(|t| t.0 != 0).count()
    }
}

#[derive(Clone, Debug, Default)]
pub struct SchedStats {
    pub executions: u64,
    pub max_points: usize,
    pub per_deviation_count: Vec<u64>,
}

/// Explore every schedule with at most `bound` deviations from the default answers.
/// `run(chooser, local)` executes one complete schedule (to completion) and checks the oracle.
/// A divergence while replaying a prefix is a machinery failure.
pub fn explore_deviations<F>(ctx: &Ctx, bound: usize, run: F) -> SchedStats
where
    F: Fn(&mut Chooser, &mut Local) + Sync,
{
    let mut stats = SchedStats {
        per_deviation_count: vec![0; bound + 1],
        ..Default::default()
    };
    // level d holds prefixes with exactly d deviations, each ending in its last deviation
    let mut level: Vec<Vec<u32>> = vec![vec![]];
    for d in 0..=bound {
        if level.is_empty() {
            break;
        }
        let next: Mutex<Vec<(u64, Vec<Vec<u32>>)>> = Mutex::new(vec![]);
        let maxp = AtomicU64::new(0);
        let lv = &level;
        ctx.par_run(lv.len() as u64, 1, |i, l| {
            let prefix = lv[i as usize].clone();
            let plen = prefix.len();
            let mut ch = Chooser::new(prefix);
            run(&mut ch, l);
            if ch.diverged {
                ctx.machinery_failure("schedule replay diverged from its recorded prefix");
            }
            maxp.fetch_max(ch.trace.len() as u64, Ordering::Relaxed);
            if d < bound {
                let mut out = vec![];
                for p in plen..ch.trace.len() {
                    let (_, n) = ch.trace[p];
                    for alt in 1..n {
                        let mut np: Vec<u32> = ch.trace[..p].iter().map(|t| t.0).collect();
                        np.push(alt);
                        out.push(np);
                    }
                }
                next.lock().unwrap().push((i, out));
            }
        });
        stats.executions += level.len() as u64;
        stats.per_deviation_count[d] = level.len() as u64;
        stats.max_points = stats.max_points.max(maxp.load(Ordering::Relaxed) as usize);
        let mut nx = next.into_inner().unwrap();
        nx.sort_by_key(|x| x.0);
        level = nx.into_iter().flat_map(|x| x.1).collect();
        if ctx.out_of_time() {
            ctx.cap(&format!("wall-clock budget reached after deviation level {d}"));
            break;
        }
    }
    stats
}
