//! vcore: shared machinery of the hickory-dns model-checking harness.
//!
//! * [`Ctx`]   – one per check run: CLI/env, counters, violation collection, known-finding
//!               classification, replay files, evidence writer, exit code.
//! * [`Local`] – per-worker accumulator (cheap counters; merged into the `Ctx`).
//! * [`Ctx::par_run`] – E-ENUM: every index of a declared finite space exactly once, 16 workers.
//! * [`bfs`]   – E-STATE: explicit-state breadth-first search over histories with canonical keys.
//! * [`Chooser`] / [`explore_deviations`] – E-SCHED: deviation-bounded environment schedules.
//! * [`catch`] – panic capture with message and location.
//!
//! Exit codes: 0 = nothing outside known_findings.json violated, 1 = VIOLATION, 2 = machinery.

pub mod enumerate;
pub mod explore;
pub mod hex;

use serde_json::{json, Value};
use std::cell::RefCell;
use std::collections::{BTreeMap, HashSet};
use std::path::{Path, PathBuf};
use std::sync::atomic::{AtomicBool, AtomicU64, Ordering};
use std::sync::Mutex;
use std::time::Instant;

pub use enumerate::Odometer;
pub use explore::{bfs, explore_deviations, BfsStats, Chooser, SchedStats};

#[derive(Clone, Copy, Debug, PartialEq, Eq)]
pub enum Tier {
    Quick,
    Thorough,
}

impl Tier {
    pub fn name(self) -> &'static str {
        match self {
            Tier::Quick => "quick",
            Tier::Thorough => "thorough",
        }
    }
    pub fn pick<T>(self, quick: T, thorough: T) -> T {
        match self {
            Tier::Quick => quick,
            Tier::Thorough => thorough,
        }
    }
}

/// Root of /verif (the driver runs every check with cwd=/verif; fall back to the env override).
pub fn verif_root() -> PathBuf {
    if let Ok(p) = std::env::var("VERIF_ROOT") {
        return PathBuf::from(p);
    }
    let cwd = std::env::current_dir().unwrap();
    for anc in cwd.ancestors() {
        if anc.join("properties.jsonl").exists() {
            return anc.to_path_buf();
        }
    }
    PathBuf::from("/verif")
}

// ------------------------------------------------------------------------------------------
// panic capture

#[derive(Clone, Debug)]
pub struct PanicInfo {
    pub msg: String,
    pub loc: String,
}

thread_local! {
    static LAST_PANIC: RefCell<Option<PanicInfo>> = const { RefCell::new(None) };
}

static HOOK_ONCE: std::sync::Once = std::sync::Once::new();

pub fn install_panic_hook() {
    HOOK_ONCE.call_once(|| {
        let verbose = std::env::var("VERIF_PANIC_VERBOSE").is_ok();
        let default = std::panic::take_hook();
        std::panic::set_hook(Box::new(move |info| {
            let msg = if let Some(s) = info.payload().downcast_ref::<&str>() {
                s.to_string()
            } else if let Some(s) = info.payload().downcast_ref::<String>() {
                s.clone()
            } else {
                "<non-string panic>".to_string()
            };
            let loc = info
                .location()
                .map(|l| format!("{}:{}", l.file(), l.line()))
                .unwrap_or_default();
            LAST_PANIC.with(|p| *p.borrow_mut() = Some(PanicInfo { msg, loc }));
            if verbose {
                default(info);
            }
        }));
    });
}

/// Run `f`, turning a panic into `Err(PanicInfo)` (message + source location).
pub fn catch<T>(f: impl FnOnce() -> T) -> Result<T, PanicInfo> {
    install_panic_hook();
    LAST_PANIC.with(|p| *p.borrow_mut() = None);
    match std::panic::catch_unwind(std::panic::AssertUnwindSafe(f)) {
        Ok(v) => Ok(v),
        Err(_) => Err(take_last_panic().unwrap_or(PanicInfo {
            msg: "<unknown>".into(),
            loc: String::new(),
        })),
    }
}

/// The last panic recorded on this thread (e.g. one swallowed by a tokio task), cleared on read.
pub fn take_last_panic() -> Option<PanicInfo> {
    LAST_PANIC.with(|p| p.borrow_mut().take())
}

/// Strip the path prefix so that keys do not depend on where /repo lives.
pub fn short_loc(loc: &str) -> String {
    match loc.find("crates/") {
        Some(i) => loc[i..].to_string(),
        None => loc.to_string(),
    }
}

// ------------------------------------------------------------------------------------------
// hashing helper (FNV-1a 64, deterministic across runs)

pub fn fnv64(bytes: &[u8]) -> u64 {
    let mut h: u64 = 0xcbf29ce484222325;
    for b in bytes {
        h ^= *b as u64;
        h = h.wrapping_mul(0x100000001b3);
    }
    h
}

pub fn fnv_str(s: &str) -> u64 {
    fnv64(s.as_bytes())
}

// ------------------------------------------------------------------------------------------
// violations, known findings

#[derive(Clone, Debug)]
pub struct Violation {
    pub key: String,
    pub what: String,
    pub case: Value,
}

#[derive(Clone, Debug)]
struct KnownFinding {
    key: String,
    what: String,
    status: String,
}

fn load_known(root: &Path, id: &str) -> Result<Vec<KnownFinding>, String> {
    let p = root.join("known_findings.json");
    if !p.exists() {
        return Ok(vec![]);
    }
    let txt = std::fs::read_to_string(&p).map_err(|e| e.to_string())?;
    let v: Value = serde_json::from_str(&txt).map_err(|e| format!("known_findings.json: {e}"))?;
    let mut out = vec![];
    for e in v.as_array().ok_or("known_findings.json: not a list")? {
        if e["property"].as_str() == Some(id) {
            out.push(KnownFinding {
                key: e["key"].as_str().unwrap_or_default().to_string(),
                what: e["what"].as_str().unwrap_or_default().to_string(),
                status: e["status"].as_str().unwrap_or("open").to_string(),
            });
        }
    }
    Ok(out)
}

// ------------------------------------------------------------------------------------------
// per-worker accumulator

const MAX_SAMPLES: usize = 24;
const MAX_DISTINCT: usize = 40_000_000;

#[derive(Default)]
pub struct Local {
    pub evals: u64,
    pub nontrivial: HashSet<u64>,
    pub outcomes: BTreeMap<String, u64>,
    pub samples: Vec<Value>,
    pub violations: Vec<Violation>,
    viol_keys: HashSet<String>,
    pub viol_counts: BTreeMap<String, u64>,
    pub worker: usize,
}

impl Local {
    #[inline]
    pub fn eval(&mut self) {
        self.evals += 1;
    }
    #[inline]
    pub fn evals_add(&mut self, n: u64) {
        self.evals += n;
    }
    /// Record that a distinct non-trivial case (identified by a 64-bit digest) was executed.
    #[inline]
    pub fn nontrivial(&mut self, digest: u64) {
        if self.nontrivial.len() < MAX_DISTINCT {
            self.nontrivial.insert(digest);
        }
    }
    pub fn outcome(&mut self, class: &str) {
        if let Some(c) = self.outcomes.get_mut(class) {
            *c += 1;
        } else {
            self.outcomes.insert(class.to_string(), 1);
        }
    }
    /// Keep the case as a sample if it is the first of its outcome class on this worker.
    pub fn outcome_sample(&mut self, class: &str, case: impl FnOnce() -> Value) {
        let first = !self.outcomes.contains_key(class);
        self.outcome(class);
        if first && self.samples.len() < MAX_SAMPLES {
            self.samples.push(json!({"class": class, "case": case()}));
        }
    }
    pub fn sample(&mut self, v: Value) {
        if self.samples.len() < MAX_SAMPLES {
            self.samples.push(v);
        }
    }
    /// Record a violation of oracle clause `key`. Only the first witness per key and worker is
    /// kept (every occurrence is counted).
    pub fn violation(&mut self, key: &str, what: &str, case: impl FnOnce() -> Value) {
        *self.viol_counts.entry(key.to_string()).or_insert(0) += 1;
        if self.viol_keys.insert(key.to_string()) {
            self.violations.push(Violation {
                key: key.to_string(),
                what: what.to_string(),
                case: case(),
            });
        }
    }
    pub fn has_violation_key(&self, key: &str) -> bool {
        self.viol_keys.contains(key)
    }
}

// ------------------------------------------------------------------------------------------
// run context

pub struct Ctx {
    pub id: &'static str,
    pub level: &'static str,
    pub tier: Tier,
    pub seed: u64,
    pub replay: Option<PathBuf>,
    pub root: PathBuf,
    pub workers: usize,
    start: Instant,
    merged: Mutex<Local>,
    extra: Mutex<BTreeMap<String, Value>>,
    assumptions: Mutex<Vec<String>>,
    rule: Mutex<String>,
    caps: Mutex<Vec<String>>,
    machinery_failed: AtomicBool,
    // watchdog
    slots: Vec<Slot>,
    pub case_timeout_s: AtomicU64,
    // model checking counts
    pub states: AtomicU64,
    pub transitions: AtomicU64,
    pub traces_validated: AtomicU64,
    deadline: Option<Instant>,
}

struct Slot {
    start_ms: AtomicU64, // 0 = idle
    desc: Mutex<String>,
}

impl Ctx {
    /// Parse `--tier quick|thorough`, `--replay <path>`, env `VERIF_TIER`, `VERIF_SEED`,
    /// `VERIF_WORKERS`, `VERIF_BUDGET_S`.
    pub fn from_args(id: &'static str, level: &'static str) -> Ctx {
        install_panic_hook();
        let args: Vec<String> = std::env::args().collect();
        let mut tier = match std::env::var("VERIF_TIER").ok().as_deref() {
            Some("thorough") => Tier::Thorough,
            _ => Tier::Quick,
        };
        let mut replay = None;
        let mut i = 1;
        while i < args.len() {
            match args[i].as_str() {
                "--tier" => {
                    i += 1;
                    tier = match args.get(i).map(|s| s.as_str()) {
                        Some("thorough") => Tier::Thorough,
                        Some("quick") => Tier::Quick,
                        other => machinery_exit(&format!("bad --tier {other:?}")),
                    };
                }
                "--replay" => {
                    i += 1;
                    replay = Some(PathBuf::from(
                        args.get(i)
                            .unwrap_or_else(|| machinery_exit("--replay needs a path")),
                    ));
                }
                other => machinery_exit(&format!("unknown argument {other}")),
            }
            i += 1;
        }
        let seed = std::env::var("VERIF_SEED")
            .ok()
            .and_then(|s| s.parse::<i64>().ok())
            .unwrap_or(0) as u64;
        let workers = std::env::var("VERIF_WORKERS")
            .ok()
            .and_then(|s| s.parse().ok())
            .unwrap_or_else(|| {
                std::thread::available_parallelism()
                    .map(|n| n.get())
                    .unwrap_or(8)
                    .min(16)
            });
        let budget = std::env::var("VERIF_BUDGET_S")
            .ok()
            .and_then(|s| s.parse::<u64>().ok());
        let start = Instant::now();
        let ctx = Ctx {
            id,
            level,
            tier,
            seed,
            replay,
            root: verif_root(),
            workers,
            start,
            merged: Mutex::new(Local::default()),
            extra: Mutex::new(BTreeMap::new()),
            assumptions: Mutex::new(vec![]),
            rule: Mutex::new(String::new()),
            caps: Mutex::new(vec![]),
            machinery_failed: AtomicBool::new(false),
            slots: (0..workers + 1)
                .map(|_| Slot {
                    start_ms: AtomicU64::new(0),
                    desc: Mutex::new(String::new()),
                })
                .collect(),
            case_timeout_s: AtomicU64::new(120),
            states: AtomicU64::new(0),
            transitions: AtomicU64::new(0),
            traces_validated: AtomicU64::new(0),
            deadline: budget.map(|b| start + std::time::Duration::from_secs(b)),
        };
        ctx
    }

    pub fn quick(&self) -> bool {
        self.tier == Tier::Quick
    }

    pub fn elapsed_s(&self) -> f64 {
        self.start.elapsed().as_secs_f64()
    }

    /// True once the optional wall-clock budget (VERIF_BUDGET_S or `set_budget`) is used up.
    pub fn out_of_time(&self) -> bool {
        self.deadline.map(|d| Instant::now() >= d).unwrap_or(false)
    }

    pub fn set_rule(&self, rule: &str) {
        *self.rule.lock().unwrap() = rule.to_string();
    }
    pub fn assume(&self, a: &str) {
        self.assumptions.lock().unwrap().push(a.to_string());
    }
    pub fn set(&self, key: &str, v: Value) {
        self.extra.lock().unwrap().insert(key.to_string(), v);
    }
    pub fn add_count(&self, key: &str, n: u64) {
        let mut e = self.extra.lock().unwrap();
        let cur = e.get(key).and_then(|v| v.as_u64()).unwrap_or(0);
        e.insert(key.to_string(), json!(cur + n));
    }
    /// Record that a cap fired: the run is then reported as not exhaustive.
    pub fn cap(&self, what: &str) {
        self.caps.lock().unwrap().push(what.to_string());
    }
    pub fn machinery_failure(&self, what: &str) {
        eprintln!("MACHINERY-FAILURE property={} {}", self.id, what);
        self.machinery_failed.store(true, Ordering::SeqCst);
    }

    pub fn merge(&self, l: Local) {
        let mut m = self.merged.lock().unwrap();
        m.evals += l.evals;
        if m.nontrivial.len() < MAX_DISTINCT {
            m.nontrivial.extend(l.nontrivial);
        }
        for (k, v) in l.outcomes {
            *m.outcomes.entry(k).or_insert(0) += v;
        }
        for s in l.samples {
            if m.samples.len() < MAX_SAMPLES {
                m.samples.push(s);
            }
        }
        for (k, v) in l.viol_counts {
            *m.viol_counts.entry(k).or_insert(0) += v;
        }
        for v in l.violations {
            if m.viol_keys.insert(v.key.clone()) {
                m.violations.push(v);
            }
        }
    }

    /// Run `f` with a fresh `Local` on the calling thread and merge it.
    pub fn with_local<R>(&self, f: impl FnOnce(&mut Local) -> R) -> R {
        let mut l = Local::default();
        l.worker = self.workers; // the extra slot
        let r = f(&mut l);
        self.merge(l);
        r
    }

    /// Mark the beginning of a (group of) case(s) for the hang watchdog. `desc` is only
    /// evaluated here, so keep it cheap or call this per chunk.
    pub fn watch(&self, worker: usize, desc: impl FnOnce() -> String) {
        let slot = &self.slots[worker.min(self.slots.len() - 1)];
        let d = desc();
        // under `supervise` the same descriptor tells the parent what was running if the code
        // under test kills the process
        mark_case(worker, || format!("{{\"property\":\"{}\",\"watch\":{}}}", self.id, serde_json::Value::String(d.clone())));
        *slot.desc.lock().unwrap() = d;
        slot.start_ms
            .store(self.start.elapsed().as_millis() as u64 + 1, Ordering::SeqCst);
    }
    pub fn unwatch(&self, worker: usize) {
        self.slots[worker.min(self.slots.len() - 1)]
            .start_ms
            .store(0, Ordering::SeqCst);
    }

    fn watchdog_scan(&self) {
        let now = self.start.elapsed().as_millis() as u64 + 1;
        let limit = self.case_timeout_s.load(Ordering::Relaxed) * 1000;
        for s in &self.slots {
            let st = s.start_ms.load(Ordering::SeqCst);
            if st != 0 && now.saturating_sub(st) > limit {
                let desc = s.desc.lock().unwrap().clone();
                let mut l = Local::default();
                l.violation(
                    "hang:watchdog",
                    "a single case did not finish within the per-case wall-clock limit",
                    || json!({"case": desc, "limit_s": limit / 1000}),
                );
                self.merge(l);
                // cannot stop the stuck worker: report and leave
                self.finish_inner(false, true);
            }
        }
    }

    /// E-ENUM driver: call `f(index, local)` for every index in `0..n` exactly once, spread over
    /// the workers in chunks (dynamic balancing; the *set* of executed indices is always `0..n`).
    pub fn par_run<F>(&self, n: u64, chunk: u64, f: F)
    where
        F: Fn(u64, &mut Local) + Sync,
    {
        self.par_run_init(n, chunk, |_| (), |i, l, _| f(i, l));
    }

    /// As `par_run` with a per-worker state built by `init` (e.g. a tokio runtime).
    pub fn par_run_init<S, I, F>(&self, n: u64, chunk: u64, init: I, f: F)
    where
        I: Fn(usize) -> S + Sync,
        F: Fn(u64, &mut Local, &mut S) + Sync,
    {
        let next = AtomicU64::new(0);
        let done_workers = AtomicU64::new(0);
        let chunk = chunk.max(1);
        let nw = self.workers.min(((n + chunk - 1) / chunk).max(1) as usize).max(1);
        std::thread::scope(|sc| {
            for w in 0..nw {
                let next = &next;
                let f = &f;
                let init = &init;
                let done_workers = &done_workers;
                std::thread::Builder::new()
                    .stack_size(64 << 20)
                    .spawn_scoped(sc, move || {
                        let mut l = Local::default();
                        l.worker = w;
                        let mut st = init(w);
                        loop {
                            if self.out_of_time() {
                                break;
                            }
                            let lo = next.fetch_add(chunk, Ordering::SeqCst);
                            if lo >= n {
                                break;
                            }
                            let hi = (lo + chunk).min(n);
                            self.watch(w, || format!("indices {lo}..{hi}"));
                            for i in lo..hi {
                                f(i, &mut l, &mut st);
                            }
                            self.unwatch(w);
                        }
                        self.merge(l);
                        done_workers.fetch_add(1, Ordering::SeqCst);
                    })
                    .expect("spawn worker");
            }
            // watchdog on the calling thread
            while done_workers.load(Ordering::SeqCst) < nw as u64 {
                std::thread::sleep(std::time::Duration::from_millis(50));
                self.watchdog_scan();
            }
        });
        if next.load(Ordering::SeqCst) < n && self.out_of_time() {
            self.cap(&format!(
                "wall-clock budget reached in a par_run of {n} cases (completed about {})",
                next.load(Ordering::SeqCst).min(n)
            ));
        }
    }

    pub fn evals(&self) -> u64 {
        self.merged.lock().unwrap().evals
    }

    pub fn outcome_count(&self, class: &str) -> u64 {
        *self.merged.lock().unwrap().outcomes.get(class).unwrap_or(&0)
    }
    pub fn outcome_classes(&self) -> usize {
        self.merged.lock().unwrap().outcomes.len()
    }

    // --------------------------------------------------------------------------------------
    // replay support

    /// If `--replay <file>` was given: load the file and return (key, case).
    pub fn replay_case(&self) -> Option<(String, Value)> {
        let p = self.replay.as_ref()?;
        let txt = std::fs::read_to_string(p)
            .unwrap_or_else(|e| machinery_exit(&format!("cannot read replay {p:?}: {e}")));
        let v: Value = serde_json::from_str(&txt)
            .unwrap_or_else(|e| machinery_exit(&format!("bad replay json: {e}")));
        Some((
            v["key"].as_str().unwrap_or_default().to_string(),
            v["case"].clone(),
        ))
    }

    fn write_replay(&self, v: &Violation) -> PathBuf {
        let dir = self.root.join("replays");
        let _ = std::fs::create_dir_all(&dir);
        let body = json!({
            "property": self.id,
            "key": v.key,
            "what": v.what,
            "case": v.case,
            "replay_cmd": format!("./check {} --replay <this file>", self.id),
        });
        let txt = serde_json::to_string_pretty(&body).unwrap();
        let h = fnv64(format!("{}{}", v.key, txt).as_bytes());
        let p = dir.join(format!("{}-{:016x}.json", self.id, h));
        let _ = std::fs::write(&p, txt);
        p
    }

    // --------------------------------------------------------------------------------------
    // finish: evidence + verdict lines + exit code

    /// Write evidence, print KNOWN-FINDING / VIOLATION lines and exit.
    pub fn finish(&self, exhaustive: bool) -> ! {
        self.finish_inner(exhaustive, false)
    }

    fn finish_inner(&self, exhaustive: bool, from_watchdog: bool) -> ! {
        let known = load_known(&self.root, self.id).unwrap_or_else(|e| machinery_exit(&e));
        let m = self.merged.lock().unwrap();
        let caps = self.caps.lock().unwrap().clone();
        let exhaustive = exhaustive && caps.is_empty() && !from_watchdog;

        let mut unlisted: Vec<(&Violation, PathBuf)> = vec![];
        let mut known_hits: BTreeMap<String, u64> = BTreeMap::new();
        let mut lines: Vec<String> = vec![];
        let mut viols: Vec<&Violation> = m.violations.iter().collect();
        viols.sort_by(|a, b| a.key.cmp(&b.key));
        for v in viols {
            let count = *m.viol_counts.get(&v.key).unwrap_or(&1);
            if let Some(k) = known
                .iter()
                .find(|k| k.status == "open" && key_matches(&k.key, &v.key))
            {
                *known_hits.entry(k.key.clone()).or_insert(0) += count;
                let what = if k.what.is_empty() { &v.what } else { &k.what };
                lines.push(format!(
                    "KNOWN-FINDING: property={} {} -- {}",
                    self.id, k.key, what
                ));
            } else {
                let p = self.write_replay(v);
                unlisted.push((v, p));
            }
        }
        lines.sort();
        lines.dedup();
        for l in &lines {
            println!("{l}");
        }
        for (v, p) in &unlisted {
            println!(
                "VIOLATION property={} replay={} key={} -- {}",
                self.id,
                p.display(),
                v.key,
                v.what
            );
        }

        if self.replay.is_none() {
            let mut cov = serde_json::Map::new();
            cov.insert("evaluations".into(), json!(m.evals));
            cov.insert("distinct_nontrivial".into(), json!(m.nontrivial.len()));
            cov.insert("rule".into(), json!(*self.rule.lock().unwrap()));
            let mut samples = m.samples.clone();
            if samples.is_empty() {
                samples.push(json!("(no sample recorded)"));
            }
            cov.insert("samples".into(), Value::Array(samples));
            cov.insert("exhaustive".into(), json!(exhaustive));
            cov.insert("outcome_classes".into(), json!(m.outcomes));
            cov.insert("known_finding_hits".into(), json!(known_hits));
            cov.insert(
                "unlisted_violation_keys".into(),
                json!(unlisted
                    .iter()
                    .map(|(v, _)| v.key.clone())
                    .collect::<Vec<_>>()),
            );
            cov.insert("caps".into(), json!(caps));
            cov.insert("workers".into(), json!(self.workers));
            let st = self.states.load(Ordering::SeqCst);
            let tr = self.transitions.load(Ordering::SeqCst);
            if self.level == "model_checking" || st > 0 {
                cov.insert("states".into(), json!(st));
                cov.insert("transitions".into(), json!(tr));
                cov.insert(
                    "traces_validated_against_impl".into(),
                    json!(self.traces_validated.load(Ordering::SeqCst)),
                );
            }
            for (k, v) in self.extra.lock().unwrap().iter() {
                cov.insert(k.clone(), v.clone());
            }
            let ev = json!({
                "property_id": self.id,
                "tier": self.tier.name(),
                "seed": self.seed,
                "level": self.level,
                "coverage": Value::Object(cov),
                "assumptions": *self.assumptions.lock().unwrap(),
                "wall_s": self.start.elapsed().as_secs_f64(),
                "violations": unlisted.len(),
            });
            let dir = self.root.join("evidence");
            let _ = std::fs::create_dir_all(&dir);
            let p = dir.join(format!("{}.json", self.id));
            if let Err(e) = std::fs::write(&p, serde_json::to_string_pretty(&ev).unwrap()) {
                eprintln!("cannot write evidence {p:?}: {e}");
                std::process::exit(2);
            }
        }
        eprintln!(
            "[{}] tier={} evals={} distinct_nontrivial={} outcomes={} known_keys={} unlisted={} exhaustive={} wall={:.1}s",
            self.id,
            self.tier.name(),
            m.evals,
            m.nontrivial.len(),
            m.outcomes.len(),
            known_hits.len(),
            unlisted.len(),
            exhaustive,
            self.start.elapsed().as_secs_f64()
        );
        if !unlisted.is_empty() {
            std::process::exit(1);
        }
        if self.machinery_failed.load(Ordering::SeqCst) {
            std::process::exit(2);
        }
        std::process::exit(0);
    }
}

/// A known-finding key matches exactly, or by prefix when the listed key ends in `*`.
fn key_matches(listed: &str, observed: &str) -> bool {
    if let Some(prefix) = listed.strip_suffix('*') {
        observed.starts_with(prefix)
    } else {
        listed == observed
    }
}

pub fn machinery_exit(msg: &str) -> ! {
    eprintln!("MACHINERY-FAILURE {msg}");
    std::process::exit(2);
}

// ------------------------------------------------------------------------------------------
// supervised runs: turning a process abort of the code under test into a violation
//
// A stack overflow (unbounded recursion) or an abort inside the code under test kills the whole
// process and cannot be caught in-process. A check whose property includes termination calls
// `supervise(id)` first thing in `main`: the check then runs in a child process; workers note the
// case they are about to execute with `mark_case`; if the child is killed by a signal the parent
// reports `VIOLATION ... key=crash:process-aborted:signal-<n>` with the marked cases as replay.

static MARK_DIR: std::sync::OnceLock<Option<PathBuf>> = std::sync::OnceLock::new();

fn mark_dir() -> &'static Option<PathBuf> {
    MARK_DIR.get_or_init(|| std::env::var("VERIF_SUPERVISED").ok().map(PathBuf::from))
}

/// Note the case worker `worker` is about to run (no-op unless the process is supervised).
pub fn mark_case(worker: usize, desc: impl FnOnce() -> String) {
    if let Some(dir) = mark_dir() {
        let _ = std::fs::write(dir.join(format!("w{worker}")), desc());
    }
}

/// Re-execute the current check in a supervised child process (see above). Returns in the child;
/// never returns in the parent.
pub fn supervise(id: &'static str) {
    if std::env::var("VERIF_SUPERVISED").is_ok() {
        return;
    }
    let base = if Path::new("/dev/shm").is_dir() { PathBuf::from("/dev/shm") } else { std::env::temp_dir() };
    let dir = base.join(format!("verif-{}-{}", id, std::process::id()));
    let _ = std::fs::remove_dir_all(&dir);
    if std::fs::create_dir_all(&dir).is_err() {
        machinery_exit("cannot create the supervision directory");
    }
    let exe = std::env::current_exe().unwrap_or_else(|_| machinery_exit("current_exe"));
    let status = std::process::Command::new(exe)
        .args(std::env::args().skip(1))
        .env("VERIF_SUPERVISED", &dir)
        .status();
    let status = match status {
        Ok(s) => s,
        Err(e) => {
            let _ = std::fs::remove_dir_all(&dir);
            machinery_exit(&format!("cannot spawn the supervised child: {e}"))
        }
    };
    if let Some(code) = status.code() {
        if code == 0 || code == 1 || code == 2 {
            let _ = std::fs::remove_dir_all(&dir);
            std::process::exit(code);
        }
    }
    // Any other exit code (101: a panic outside the judged sections, i.e. the code under test
    // broke an assumption the harness makes about valid behaviour - an encoder that fails on a
    // valid value, a constructor that rejects a valid argument ...) is reported like a kill by a
    // signal: on the unchanged tree neither happens, so the change to /repo caused it.
    let exit_code = status.code();
    // killed by a signal: collect what the workers were running
    #[cfg(unix)]
    let sig = {
        use std::os::unix::process::ExitStatusExt;
        status.signal().unwrap_or(0)
    };
    #[cfg(not(unix))]
    let sig = 0;
    let mut cases: Vec<Value> = vec![];
    if let Ok(rd) = std::fs::read_dir(&dir) {
        let mut names: Vec<PathBuf> = rd.filter_map(|e| e.ok().map(|e| e.path())).collect();
        names.sort();
        for p in names {
            if let Ok(txt) = std::fs::read_to_string(&p) {
                cases.push(serde_json::from_str(&txt).unwrap_or(Value::String(txt)));
            }
        }
    }
    let _ = std::fs::remove_dir_all(&dir);
    let root = verif_root();
    let rdir = root.join("replays");
    let _ = std::fs::create_dir_all(&rdir);
    let key = match exit_code {
        Some(c) => format!("crash:check-process-panicked:exit-{c}"),
        None => format!("crash:process-aborted:signal-{sig}"),
    };
    let body = json!({
        "property": id,
        "key": key,
        "what": "the check process died (signal: stack overflow / abort in the code under test; exit code 101: a panic outside the judged sections, see stderr) while running one of these cases",
        "case": {"crashed_cases": cases},
        "replay_cmd": format!("./check {id} --replay <this file>"),
    });
    let txt = serde_json::to_string_pretty(&body).unwrap();
    let p = rdir.join(format!("{}-{:016x}.json", id, fnv64(txt.as_bytes())));
    let _ = std::fs::write(&p, txt);
    println!(
        "VIOLATION property={} replay={} key={} -- the code under test killed the check process (stack overflow, abort, or a panic outside the judged sections: see stderr)",
        id,
        p.display(),
        key
    );
    std::process::exit(1);
}

// ------------------------------------------------------------------------------------------------
// Logging as an environment dimension. hickory logs through `tracing`; without a subscriber the
// arguments of `warn!`/`debug!`/... are never evaluated, with one (every production binary has
// one) they are: an out-of-range slice or an `unwrap` inside a log argument or a `Display` impl
// then runs on untrusted input. `install_log_evaluation` installs a process-wide subscriber that
// is enabled for every level and FORMATS every field of every event and span into a scratch
// buffer (discarded), so that log arguments are evaluated exactly as under a real subscriber.

struct EvalVisitor<'a>(&'a mut String);

impl tracing_core::field::Visit for EvalVisitor<'_> {
    fn record_debug(&mut self, _field: &tracing_core::Field, value: &dyn std::fmt::Debug) {
        use std::fmt::Write;
        self.0.clear();
        let _ = write!(self.0, "{value:?}");
    }
}

struct EvalSubscriber;

thread_local! {
    static LOG_SCRATCH: std::cell::RefCell<String> = const { std::cell::RefCell::new(String::new()) };
}

impl tracing_core::Subscriber for EvalSubscriber {
    fn enabled(&self, _m: &tracing_core::Metadata<'_>) -> bool {
        true
    }
    fn new_span(&self, attrs: &tracing_core::span::Attributes<'_>) -> tracing_core::span::Id {
        LOG_SCRATCH.with(|b| {
            if let Ok(mut b) = b.try_borrow_mut() {
                attrs.record(&mut EvalVisitor(&mut b));
            }
        });
        tracing_core::span::Id::from_u64(1)
    }
    fn record(&self, _span: &tracing_core::span::Id, values: &tracing_core::span::Record<'_>) {
        LOG_SCRATCH.with(|b| {
            if let Ok(mut b) = b.try_borrow_mut() {
                values.record(&mut EvalVisitor(&mut b));
            }
        });
    }
    fn record_follows_from(&self, _span: &tracing_core::span::Id, _follows: &tracing_core::span::Id) {}
    fn event(&self, event: &tracing_core::Event<'_>) {
        LOG_SCRATCH.with(|b| {
            if let Ok(mut b) = b.try_borrow_mut() {
                event.record(&mut EvalVisitor(&mut b));
            }
        });
    }
    fn enter(&self, _span: &tracing_core::span::Id) {}
    fn exit(&self, _span: &tracing_core::span::Id) {}
}

/// Install the log-evaluating subscriber for the whole process (idempotent; a no-op when another
/// global subscriber is already set).
pub fn install_log_evaluation() {
    let _ = tracing_core::dispatcher::set_global_default(tracing_core::Dispatch::new(EvalSubscriber));
}
