//! tiny hex helpers for replay files
pub fn enc(b: &[u8]) -> String {
    let mut s = String::with_capacity(b.len() * 2);
    for x in b {
        s.push_str(&format!("{x:02x}"));
    }
    s
}

pub fn dec(s: &str) -> Option<Vec<u8>> {
    let s: Vec<u8> = s.bytes().filter(|c| !c.is_ascii_whitespace()).collect();
    if s.len() % 2 != 0 {
        return None;
    }
    let mut out = Vec::with_capacity(s.len() / 2);
    for p in s.chunks(2) {
        let h = (p[0] as char).to_digit(16)?;
        let l = (p[1] as char).to_digit(16)?;
        out.push((h * 16 + l) as u8);
    }
    Some(out)
}
