//! Mixed-radix odometer: a bijection between `0..space()` and the product of finite domains.

#[derive(Clone, Debug)]
pub struct Odometer {
    radices: Vec<u64>,
}

impl Odometer {
    pub fn new(radices: &[u64]) -> Self {
        assert!(radices.iter().all(|r| *r > 0), "empty domain in odometer");
        Odometer {
            radices: radices.to_vec(),
        }
    }
    /// Size of the product space (panics on u64 overflow: declare smaller spaces).
    pub fn space(&self) -> u64 {
        self.radices
            .iter()
            .fold(1u64, |a, r| a.checked_mul(*r).expect("space overflows u64"))
    }
    /// Digits of `index`, least significant domain first (domain 0 varies fastest).
    pub fn digits(&self, mut index: u64, out: &mut Vec<u64>) {
        out.clear();
        for r in &self.radices {
            out.push(index % r);
            index /= r;
        }
    }
    pub fn get(&self, index: u64) -> Vec<u64> {
        let mut v = Vec::with_capacity(self.radices.len());
        self.digits(index, &mut v);
        v
    }
}

/// All strings of length `len` over `alphabet`, addressed by index in `0..alphabet.len()^len`.
pub fn string_at(alphabet: &[u8], len: usize, mut index: u64, out: &mut Vec<u8>) {
    out.clear();
    let k = alphabet.len() as u64;
    for _ in 0..len {
        out.push(alphabet[(index % k) as usize]);
        index /= k;
    }
}

pub fn pow(base: u64, exp: u32) -> u64 {
    base.checked_pow(exp).expect("space overflows u64")
}

/// All permutations of 0..n (Heap's algorithm, deterministic order).
pub fn permutations(n: usize) -> Vec<Vec<usize>> {
    let mut res = vec![];
    let mut a: Vec<usize> = (0..n).collect();
    fn heap(k: usize, a: &mut Vec<usize>, res: &mut Vec<Vec<usize>>) {
        if k <= 1 {
            res.push(a.clone());
            return;
        }
        heap(k - 1, a, res);
        for i in 0..k - 1 {
            if k % 2 == 0 {
                a.swap(i, k - 1);
            } else {
                a.swap(0, k - 1);
            }
            heap(k - 1, a, res);
        }
    }
    heap(n, &mut a, &mut res);
    res
}

/// All subsets of 0..n as bitmasks is just 0..(1<<n); all k-subsets in lexicographic order:
pub fn combinations(n: usize, k: usize) -> Vec<Vec<usize>> {
    let mut res = vec![];
    let mut cur = vec![];
    fn rec(start: usize, n: usize, k: usize, cur: &mut Vec<usize>, res: &mut Vec<Vec<usize>>) {
        if cur.len() == k {
            res.push(cur.clone());
            return;
        }
        for i in start..n {
            cur.push(i);
            rec(i + 1, n, k, cur, res);
            cur.pop();
        }
    }
    rec(0, n, k, &mut cur, &mut res);
    res
}
