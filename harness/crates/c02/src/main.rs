//! C02 — encode/decode round trip preserves every message.
//!
//! Direction 1 (E-ENUM over assembled messages): every message built from a record alphabet that
//! covers every RData variant of the build (each with its RDATA wire form written by hand from the
//! defining RFC) x section placements x questions x EDNS x TSIG, all header flag / opcode / rcode
//! combinations, UPDATE messages with empty-RDATA records, and compression sweeps. Oracle: the
//! independent wire walker (`vref::wire`) reads hickory's encoding completely, finds the original
//! names (case-sensitively) and — for every record — exactly the RFC RDATA octets (after expanding
//! names for NS/CNAME/PTR/MX/SOA); hickory decodes its own encoding to a message equal to the
//! original field by field, names compared with `eq_case`, TTLs included.
//!
//! Direction 2 (decode first): every message-shaped byte string of the C01 families that
//! `Message::from_vec` accepts and `to_vec` re-encodes: the re-encoding decodes to the same
//! message, and RDATA of types whose names are not compressible is identical octet for octet.

mod audit;
mod ext;

use c01::alphabet::{compressible_type, hn, labels, rdata_alphabet, record_alphabet, wn, Entry as AEntry, Rec};
use c01::families::{self, HEADER_SHAPES, S};
use ext::{EdnsSpec, MetaExpect, TsigSpec};
use c01::names::rdata_names_eq_case;
use c01::seeds;
use c01::wirex::{decompress_rdata, noncompressible_name_has_pointer};
use hickory_proto::op::{Edns, Message, MessageType, OpCode, Query, ResponseCode};
use hickory_proto::rr::rdata::{A, MX, NS, NULL, SOA, SRV, TSIG};
use hickory_proto::rr::{DNSClass, Name, RData, Record, RecordType};
use serde_json::{json, Value};
use vcore::{catch, fnv64, hex, Ctx, Local, Odometer};
use vref::wire;

// ------------------------------------------------------------------------------------------
// deep comparison (hickory's PartialEq ignores TTLs and the case of names)

/// `ci`: an encoding mode that folds case by design (DNSSEC canonical form, lower-case names) is being judged
fn name_eq(a: &Name, b: &Name, ci: bool) -> bool {
    (if ci { a == b } else { a.eq_case(b) }) && a.is_fqdn() == b.is_fqdn()
}

/// IANA number of a class variant (own table: hickory's conversion is part of what is checked).
fn class_num(c: DNSClass) -> u16 {
    match c {
        DNSClass::IN => 1,
        DNSClass::CH => 3,
        DNSClass::HS => 4,
        DNSClass::NONE => 254,
        DNSClass::ANY => 255,
        DNSClass::OPT(p) => p.max(512),
        DNSClass::Unknown(v) => v,
    }
}

/// Variant-level equality (not through hickory's integer conversions, which are part of what is
/// checked); BADVERS and BADSIG are two names of the number 16.
fn rcode_eq(a: ResponseCode, b: ResponseCode) -> bool {
    let alias = |c: ResponseCode| if c == ResponseCode::BADVERS { ResponseCode::BADSIG } else { c };
    alias(a) == alias(b)
}

fn record_diff(a: &Record, b: &Record, ci: bool) -> Option<&'static str> {
    if !name_eq(&a.name, &b.name, ci) {
        return Some("owner");
    }
    if a.record_type() != b.record_type() {
        return Some("type");
    }
    if a.dns_class != b.dns_class {
        return Some("class");
    }
    if a.ttl != b.ttl {
        return Some("ttl");
    }
    if a.data != b.data {
        return Some("rdata");
    }
    if !ci && !rdata_names_eq_case(&a.data, &b.data) {
        return Some("rdata-name-case");
    }
    None
}

fn section_diff(a: &[Record], b: &[Record], ci: bool) -> Option<&'static str> {
    if a.len() != b.len() {
        return Some("count");
    }
    a.iter().zip(b.iter()).find_map(|(x, y)| record_diff(x, y, ci))
}

/// First field in which two messages differ ("<section>:<field>"), `None` if equal.
fn message_diff(a: &Message, b: &Message, derived_rcode_high: bool) -> Option<String> {
    message_diff_ci(a, b, derived_rcode_high, false)
}

fn message_diff_ci(a: &Message, b: &Message, derived_rcode_high: bool, ci: bool) -> Option<String> {
    let (x, y) = (&a.metadata, &b.metadata);
    let hdr = [
        ("id", x.id != y.id),
        ("qr", x.message_type != y.message_type),
        ("opcode", x.op_code != y.op_code),
        ("aa", x.authoritative != y.authoritative),
        ("tc", x.truncation != y.truncation),
        ("rd", x.recursion_desired != y.recursion_desired),
        ("ra", x.recursion_available != y.recursion_available),
        ("ad", x.authentic_data != y.authentic_data),
        ("cd", x.checking_disabled != y.checking_disabled),
        ("rcode", !rcode_eq(x.response_code, y.response_code)),
    ];
    if let Some((f, _)) = hdr.iter().find(|(_, d)| *d) {
        return Some(format!("header:{f}"));
    }
    if a.queries.len() != b.queries.len() {
        return Some("question:count".into());
    }
    for (p, q) in a.queries.iter().zip(b.queries.iter()) {
        if !name_eq(&p.name, &q.name, ci) {
            return Some("question:name".into());
        }
        if p.query_type != q.query_type || p.query_class != q.query_class {
            return Some("question:type-class".into());
        }
    }
    for (sec, p, q) in [("answer", &a.answers, &b.answers), ("authority", &a.authorities, &b.authorities), ("additional", &a.additionals, &b.additionals)] {
        if let Some(f) = section_diff(p, q, ci) {
            return Some(format!("{sec}:{f}"));
        }
    }
    match (&a.edns, &b.edns) {
        (None, None) => {}
        (Some(p), Some(q)) => {
            // the OPT copy of the upper rcode bits is derived from the header rcode (compared above) when
            // a message is assembled; between two decoded messages it must agree
            if !derived_rcode_high && p.rcode_high() != q.rcode_high() {
                return Some("edns:rcode-high".into());
            }
            if p.version() != q.version() || p.flags() != q.flags() {
                return Some("edns:version-flags".into());
            }
            if p.max_payload() != q.max_payload() {
                return Some("edns:payload".into());
            }
            if p.options() != q.options() {
                return Some("edns:options".into());
            }
        }
        _ => return Some("edns:presence".into()),
    }
    match (&a.signature, &b.signature) {
        (None, None) => {}
        (Some(p), Some(q)) => {
            if !name_eq(&p.name, &q.name, ci) {
                return Some("tsig:name".into());
            }
            if p.dns_class != q.dns_class || p.ttl != q.ttl {
                return Some("tsig:class-ttl".into());
            }
            if p.data != q.data {
                return Some("tsig:rdata".into());
            }
        }
        _ => return Some("tsig:presence".into()),
    }
    None
}

fn labels_of(n: &Name) -> Vec<Vec<u8>> {
    n.iter().map(|l| l.to_vec()).collect()
}

fn wire_len(ls: &[Vec<u8>]) -> usize {
    ls.iter().map(|l| l.len() + 1).sum::<usize>() + 1
}

// ------------------------------------------------------------------------------------------
// direction 1: assembled messages

/// A record together with the RDATA octets its defining RFC prescribes (names uncompressed).
#[derive(Clone, Debug)]
struct XRec {
    record: Record,
    rtype: u16,
    wire: Vec<u8>,
}

struct Alpha {
    entries: Vec<AEntry>,
    levels: [Vec<Rec>; 3],
    edns: Vec<EdnsSpec>,
    tsig: Vec<TsigSpec>,
}

impl Alpha {
    fn new(thorough: bool) -> Alpha {
        let entries = rdata_alphabet(thorough);
        let levels = [record_alphabet(&entries, 0), record_alphabet(&entries, 1), record_alphabet(&entries, 2)];
        Alpha { entries, levels, edns: ext::edns_specs(), tsig: ext::tsig_specs() }
    }
    fn xrec(&self, level: u8, i: usize) -> XRec {
        let r = &self.levels[level as usize][i];
        let e = &self.entries[r.entry];
        XRec { record: r.record.clone(), rtype: e.rtype, wire: e.wire.clone() }
    }
}

const OPCODES: [u8; 7] = [0, 2, 4, 5, 1, 3, 15];
const RCODES: [u16; 11] = [0, 1, 3, 10, 15, 16, 17, 22, 23, 24, 4095];

fn questions(q: u8) -> Vec<Query> {
    let mk = |n: &str, t: RecordType, c: DNSClass| {
        let mut q = Query::new(hn(n), t);
        q.set_query_class(c);
        q
    };
    match q {
        0 => vec![],
        1 => vec![mk("a.z.", RecordType::A, DNSClass::IN)],
        2 => vec![mk("A.Z.", RecordType::ANY, DNSClass::CH)],
        _ => vec![mk("b.a.z.", RecordType::AAAA, DNSClass::IN), mk("z.", RecordType::SOA, DNSClass::ANY)],
    }
}

#[derive(Clone, Debug, Default)]
struct Spec {
    level: u8,
    /// (index into the record alphabet of `level`, section 0/1/2), in emission order per section
    recs: Vec<(usize, u8)>,
    /// empty-RDATA (RFC 2136) records: (type code, class code, section)
    upd: Vec<(u16, u16, u8)>,
    q: u8,
    edns: i32,
    tsig: i32,
    /// bit 0 QR, 1 AA, 2 TC, 3 RD, 4 RA, 5 AD, 6 CD
    flags: u8,
    opcode: u8,
    rcode: u16,
}

impl Spec {
    fn to_json(&self, thorough: bool) -> Value {
        json!({"dir": 1, "family": "spec", "thorough": thorough, "level": self.level,
               "recs": self.recs.iter().map(|(i, s)| json!([i, s])).collect::<Vec<_>>(),
               "upd": self.upd.iter().map(|(t, c, s)| json!([t, c, s])).collect::<Vec<_>>(),
               "q": self.q, "edns": self.edns, "tsig": self.tsig, "flags": self.flags, "opcode": self.opcode, "rcode": self.rcode})
    }
    fn from_json(v: &Value) -> Spec {
        let u = |x: &Value| x.as_u64().unwrap_or(0);
        Spec {
            level: u(&v["level"]) as u8,
            recs: v["recs"].as_array().map(|a| a.iter().map(|p| (u(&p[0]) as usize, u(&p[1]) as u8)).collect()).unwrap_or_default(),
            upd: v["upd"].as_array().map(|a| a.iter().map(|p| (u(&p[0]) as u16, u(&p[1]) as u16, u(&p[2]) as u8)).collect()).unwrap_or_default(),
            q: u(&v["q"]) as u8,
            edns: v["edns"].as_i64().unwrap_or(-1) as i32,
            tsig: v["tsig"].as_i64().unwrap_or(-1) as i32,
            flags: u(&v["flags"]) as u8,
            opcode: u(&v["opcode"]) as u8,
            rcode: u(&v["rcode"]) as u16,
        }
    }

    /// The message, per section the expected (type, RFC RDATA) of every record, and the RFC form
    /// of the OPT / TSIG records.
    fn build(&self, al: &Alpha) -> (Message, [Vec<XRec>; 3], MetaExpect) {
        let mt = if self.flags & 1 != 0 { MessageType::Response } else { MessageType::Query };
        let id = [0xbeefu16, 0, 0xffff, 1][(self.flags as usize + self.rcode as usize + self.recs.len()) % 4];
        let mut m = Message::new(id, mt, OpCode::from_u8(self.opcode));
        m.metadata.authoritative = self.flags & 2 != 0;
        m.metadata.truncation = self.flags & 4 != 0;
        m.metadata.recursion_desired = self.flags & 8 != 0;
        m.metadata.recursion_available = self.flags & 16 != 0;
        m.metadata.authentic_data = self.flags & 32 != 0;
        m.metadata.checking_disabled = self.flags & 64 != 0;
        m.metadata.response_code = ResponseCode::from((self.rcode >> 4) as u8, (self.rcode & 0xf) as u8);
        for q in questions(self.q) {
            m.add_query(q);
        }
        let mut exp: [Vec<XRec>; 3] = [vec![], vec![], vec![]];
        for (i, s) in &self.recs {
            exp[*s as usize].push(al.xrec(self.level, *i));
        }
        for (t, c, s) in &self.upd {
            let mut r = Record::update0(hn(["z.", "a.z.", "B.a.z."][(*t as usize + *c as usize) % 3]), 0, RecordType::from(*t));
            r.dns_class = DNSClass::from(*c);
            exp[*s as usize].push(XRec { record: r, rtype: *t, wire: vec![] });
        }
        for x in &exp[0] {
            m.add_answer(x.record.clone());
        }
        for x in &exp[1] {
            m.add_authority(x.record.clone());
        }
        for x in &exp[2] {
            m.add_additional(x.record.clone());
        }
        let mut meta = MetaExpect::default();
        meta.questions = Some(match self.q {
            0 => vec![],
            1 => vec![(1, 1)],
            2 => vec![(255, 3)],
            _ => vec![(28, 1), (6, 255)],
        });
        // RFC 1035 4.1.1 from the numbers of the case, not from hickory's enums
        let f = self.flags as u16;
        meta.header = Some((
            id,
            (f & 1) << 15 | (self.opcode as u16) << 11 | (f >> 1 & 1) << 10 | (f >> 2 & 1) << 9 | (f >> 3 & 1) << 8 | (f >> 4 & 1) << 7 | (f >> 5 & 1) << 5 | (f >> 6 & 1) << 4 | (self.rcode & 0xf),
        ));
        if self.edns >= 0 {
            // Edns::rcode_high stays 0 as a user leaves it: the encoder has to commit the upper rcode bits
            let e = &al.edns[self.edns as usize];
            m.set_edns(e.build());
            meta.opt = Some(e.expect(self.rcode));
        }
        if self.tsig >= 0 {
            let t = &al.tsig[self.tsig as usize];
            m.set_signature(t.build());
            meta.tsig = Some(t.expect());
        }
        (m, exp, meta)
    }
}

/// Judge one assembled message. `exp`: per section the records with their RFC RDATA.
/// What else is done with an assembled message besides the default `Message::to_vec` round trip.
#[derive(Clone, Copy, PartialEq, Eq)]
enum Depth {
    /// default encoding only
    Default,
    /// + every other producer / encoder mode, + the reference-produced octets in every layout
    Full,
}

fn judge_d1_depth(m: &Message, exp: &[Vec<XRec>; 3], meta: Option<&MetaExpect>, depth: Depth, l: &mut Local, case: &dyn Fn() -> Value) {
    let bytes = match catch(|| m.to_vec()) {
        Err(p) => {
            l.eval();
            return l.violation(&format!("panic:{}", vcore::short_loc(&p.loc)), &format!("encoder panicked: {}", p.msg), case);
        }
        Ok(Err(e)) => {
            l.eval();
            return l.violation("encode-failed", &format!("a valid message does not encode: {e}"), case);
        }
        Ok(Ok(b)) => b,
    };
    judge_d1_bytes(m, &bytes, exp, meta, &audit::DEFAULT_MODE, l, case);
    if depth == Depth::Full {
        audit::judge_producers(m, &bytes, exp, meta, l, case);
        if let Some(meta) = meta {
            audit::judge_ref(m, exp, meta, l, case);
        }
    }
}

/// Judge the octets one encoding path (`mode`) produced for the assembled message `m`.
fn judge_d1_bytes(m: &Message, bytes: &[u8], exp: &[Vec<XRec>; 3], meta: Option<&MetaExpect>, mode: &audit::Mode, l: &mut Local, case: &dyn Fn() -> Value) {
    l.eval();
    let default_mode = mode.tag == audit::DEFAULT_MODE.tag;
    let wcase = || {
        let mut c = case();
        c["encoded"] = json!(hex::enc(bytes));
        c
    };
    // SIG is a meta record like OPT and TSIG: outside the additional section the decoder refuses it
    let sig_misplaced = exp[0].iter().chain(exp[1].iter()).any(|x| x.rtype == 24);
    let (own_ptr, own_lower) = mode.owner_rule();
    let spelled = |n: &Name| if own_lower { audit::lower_labels(&labels_of(n)) } else { labels_of(n) };

    // (a) independent reading of the encoding
    let w = match wire::walk(bytes) {
        Ok(w) => w,
        Err(e) => return l.violation("wire:walker-rejects", &format!("reference walker cannot read hickory's encoding: {e:?}"), &wcase),
    };
    if w.consumed != bytes.len() {
        return l.violation("wire:leftover-bytes", &format!("{} octets encoded, sections end at {}", bytes.len(), w.consumed), &wcase);
    }
    if w.questions.len() != m.queries.len() {
        return l.violation("wire:question-count", "QDCOUNT differs from the questions assembled", &wcase);
    }
    let mut compressed = false;
    for (k, (wq, q)) in w.questions.iter().zip(m.queries.iter()).enumerate() {
        // the numbers the case intends (when the builder states them), else hickory's own numbering
        let (qt, qc) = match meta.and_then(|x| x.questions.as_ref()).and_then(|v| v.get(k)) {
            Some(n) => *n,
            None => (u16::from(q.query_type), class_num(q.query_class)),
        };
        let ql = spelled(&q.name);
        if wq.name != ql || wq.qtype != qt || wq.qclass != qc {
            return l.violation("wire:question", &format!("question on the wire (type {}, class {}) differs from the one assembled (type {qt}, class {qc})", wq.qtype, wq.qclass), &wcase);
        }
        if !own_ptr && wq.end - wq.start - 4 != wire_len(&ql) {
            return l.violation("wire:pointer-in-uncompressed-mode", "a question name is compressed although the encoder mode forbids compression", &wcase);
        }
    }
    let extra_ar = m.edns.is_some() as usize + m.signature.is_some() as usize;
    let secs = [&w.answers, &w.authorities, &w.additionals];
    for s in 0..3 {
        let want = exp[s].len() + if s == 2 { extra_ar } else { 0 };
        if secs[s].len() != want {
            return l.violation("wire:record-count", &format!("section {s}: {} records on the wire, {} assembled", secs[s].len(), want), &wcase);
        }
        for (wr, x) in secs[s].iter().zip(exp[s].iter()) {
            let r = &x.record;
            let ol = spelled(&r.name);
            if wr.name != ol {
                return l.violation("wire:owner", &format!("owner on the wire {:?} != assembled {}", wire::name_to_string(&wr.name), r.name), &wcase);
            }
            if wr.rdata_start - 10 - wr.start < wire_len(&ol) {
                compressed = true;
                if !own_ptr {
                    return l.violation("wire:pointer-in-uncompressed-mode", "an owner name is compressed although the encoder mode forbids compression", &wcase);
                }
            }
            if wr.rtype != x.rtype || wr.class != class_num(r.dns_class) || wr.ttl != r.ttl {
                return l.violation("wire:fixed-fields", &format!("type/class/ttl on the wire differ for a type {} record", x.rtype), &wcase);
            }
            let raw = &bytes[wr.rdata_start..wr.rdata_end];
            let (rd_ptr, rd_lower) = mode.rdata_rule(x.rtype);
            let lowered;
            let want_wire: &[u8] = if rd_lower {
                lowered = audit::lower_rdata_names(x.rtype, &x.wire);
                &lowered
            } else {
                &x.wire
            };
            let suffix = if default_mode { String::new() } else { format!(":{}", mode.tag) };
            if x.wire.is_empty() {
                // RFC 2136 empty-RDATA record
                if !raw.is_empty() {
                    return l.violation("rdata-octets:update-empty", "an empty-RDATA record was encoded with RDATA", &wcase);
                }
            } else if compressible_type(x.rtype) && rd_ptr {
                if raw.len() < x.wire.len() {
                    compressed = true;
                }
                match decompress_rdata(bytes, x.rtype, wr.rdata_start, wr.rdata_end) {
                    Some(d) if d == want_wire => {}
                    other => {
                        return l.violation(
                            &format!("rdata-octets-after-expansion:type{}{suffix}", x.rtype),
                            &format!("RDATA {} expands to {:?}, RFC form {}", hex::enc(raw), other.map(|d| hex::enc(&d)), hex::enc(want_wire)),
                            &wcase,
                        )
                    }
                }
            } else if raw != want_wire {
                return l.violation(
                    &format!("rdata-octets:type{}{suffix}", x.rtype),
                    &format!("RDATA on the wire {} != RFC form {} (mode {})", hex::enc(raw), hex::enc(want_wire), mode.tag),
                    &wcase,
                );
            }
        }
    }

    // (a') the header word, the OPT and TSIG records against their RFC form
    if let Some(meta) = meta {
        if let Some((id, flags)) = meta.header {
            if w.header.id != id || w.header.flags != flags {
                return l.violation(
                    "wire:header",
                    &format!("ID/flags on the wire {:#06x}/{:#06x}, RFC 1035 form of the assembled header {:#06x}/{:#06x}", w.header.id, w.header.flags, id, flags),
                    &wcase,
                );
            }
        }
        if let Some((key, what)) = ext::check_meta(bytes, &w.additionals[exp[2].len()..], meta, own_lower) {
            return l.violation(&key, &what, &wcase);
        }
    }

    // (b) hickory reads the encoding back
    let dec = match catch(|| Message::from_vec(bytes)) {
        Err(_) => return l.outcome("obs:decode-panic(C01)"),
        Ok(Err(e)) => {
            if sig_misplaced {
                return l.outcome("obs:sig-outside-additional-section-not-decodable");
            }
            return l.violation("own-encoding-rejected", &format!("Message::from_vec rejects the output of {}: {e}", mode.tag), &wcase);
        }
        Ok(Ok(d)) => d,
    };
    if let Some(f) = message_diff_ci(m, &dec, true, mode.folds_case()) {
        return l.violation(&format!("roundtrip-differs:{f}"), &format!("decode({}(m)) != m", mode.tag), &wcase);
    }
    if !default_mode {
        return l.outcome("d1:ok:other-producer-or-mode");
    }
    if m.metadata.response_code == ResponseCode::BADVERS && m.metadata.response_code != dec.metadata.response_code {
        l.outcome("obs:rcode-16-decodes-as-BADSIG-not-BADVERS");
    }
    let ext = m.edns.is_some() || m.signature.is_some() || u16::from(m.metadata.response_code) > 15;
    if compressed || ext {
        l.nontrivial(fnv64(bytes));
    }
    l.outcome(if compressed { "d1:ok:compressed" } else { "d1:ok:plain" });
}

// ---- compression sweeps ------------------------------------------------------------------

const SWEEPS: [&str; 9] = ["odd-labels", "long-names", "same-owner", "distinct-owners", "ns-targets", "mx-mixed-case", "srv-target-then-owner", "deep-suffixes", "soa-names"];

fn xr(owner: &str, ttl: u32, rtype: u16, data: RData, wire: Vec<u8>) -> XRec {
    XRec { record: Record::from_rdata(hn(owner), ttl, data), rtype, wire }
}

fn sweep(variant: &str, n: usize) -> (Message, [Vec<XRec>; 3]) {
    let mut m = Message::new(7, MessageType::Response, OpCode::Query);
    m.add_query(Query::new(hn("a.z."), RecordType::A));
    let mut exp: [Vec<XRec>; 3] = [vec![], vec![], vec![]];
    let mut deep = String::from("z.");
    for i in 0..n {
        let sec = if i * 3 < n { 0 } else if i * 3 < 2 * n { 1 } else { 2 };
        let a4 = |i: usize| (RData::A(A::new(10, 0, (i >> 8) as u8, i as u8)), vec![10, 0, (i >> 8) as u8, i as u8]);
        match variant {
            "same-owner" => {
                let (d, w) = a4(i);
                exp[sec].push(xr("a.z.", i as u32, 1, d, w));
            }
            // labels that are not host-name text: wildcard, a dot / NUL / 0xff / space inside a label, octets
            // that differ from another label only in bit 0x20 without being letters ('[' vs '{', '@' vs '`'),
            // a single-octet label 0x00, 127 one-octet labels. Record i is owned by name x and carries
            // an NS target y, (x, y) running through all ordered pairs, so every name meets every other one
            // as an earlier compression candidate.
            "odd-labels" => {
                const ODD: [&str; 11] = [
                    "*.a.z.", "%2a%2e.a.z.", "a%2eb.z.", "%00.z.", "%00%ff.Z.", "%5b.z.", "%7b.z.", "%40x.z.", "%60x.z.", "a%20b.a.z.",
                    "c.c.c.c.c.c.c.c.c.c.c.c.c.c.c.c.c.c.c.c.c.c.c.c.c.c.c.c.c.c.c.c.c.c.c.c.c.c.c.c.c.c.c.c.c.c.c.c.c.c.c.c.c.c.c.c.c.c.c.c.c.c.c.c.c.c.c.c.c.c.c.c.c.c.c.c.c.c.c.c.c.c.c.c.c.c.c.c.c.c.c.c.c.c.c.c.c.c.c.c.c.c.c.c.c.c.c.c.c.c.c.c.c.c.c.c.c.c.c.c.c.c.c.c.c.c.c.",
                ];
                let (x, y) = (ODD[(i / ODD.len()) % ODD.len()], ODD[i % ODD.len()]);
                exp[sec].push(xr(x, 1, 2, RData::NS(NS(hn(y))), wn(y)));
            }
            // owners of 193..255 wire octets (first label 1..63 octets) sharing a 191-octet suffix; every
            // third owner spells the suffix in another case (must not be merged with the first spelling)
            "long-names" => {
                let first = "f".repeat(i % 63 + 1);
                let o = if i % 3 == 2 { format!("{first}.@63.@@63.@61.") } else { format!("{first}.@63.@63.@61.") };
                let (d, w) = a4(i);
                exp[sec].push(xr(&o, 1, 1, d, w));
            }
            "distinct-owners" => {
                let (d, w) = a4(i);
                exp[sec].push(xr(&format!("h{i}.a.z."), 1, 1, d, w));
            }
            "ns-targets" => {
                let t = format!("ns{i}.a.z.");
                exp[sec].push(xr("a.z.", 1, 2, RData::NS(NS(hn(&t))), wn(&t)));
            }
            "mx-mixed-case" => {
                let o = ["a.z.", "A.Z.", "a.Z."][i % 3];
                let t = if i % 2 == 0 { format!("Mail{i}.A.z.") } else { format!("mail{}.a.z.", i - 1) };
                let mut w = (i as u16).to_be_bytes().to_vec();
                w.extend(wn(&t));
                exp[sec].push(xr(o, 1, 15, RData::MX(MX::new(i as u16, hn(&t))), w));
            }
            "srv-target-then-owner" => {
                let t = format!("T{i}.Srv.z.");
                let mut w = vec![0, 1, 0, 2, 0, 53];
                w.extend(wn(&t));
                exp[sec].push(xr("_s._tcp.z.", 1, 33, RData::SRV(SRV::new(1, 2, 53, hn(&t))), w));
                let (d, w) = a4(i);
                exp[sec].push(xr(&t, 1, 1, d.clone(), w.clone()));
                exp[sec].push(xr(&t.to_lowercase(), 1, 1, d, w));
            }
            "deep-suffixes" => {
                let next = format!("l{}.{}", i % 10, deep);
                deep = if wn_len(&next) > 240 { String::from("z.") } else { next };
                let (d, w) = a4(i);
                exp[sec].push(xr(&deep, 1, 1, d, w));
            }
            _ => {
                let (mn, rn) = (format!("ns{}.a.z.", i % 7), format!("Admin{}.NS{}.a.z.", i, i % 7));
                let mut w = wn(&mn);
                w.extend(wn(&rn));
                for v in [i as u32, 2, 3, 4, 5] {
                    w.extend_from_slice(&v.to_be_bytes());
                }
                exp[sec].push(xr("a.z.", 1, 6, RData::SOA(SOA::new(hn(&mn), hn(&rn), i as u32, 2, 3, 4, 5)), w));
            }
        }
    }
    for x in &exp[0] {
        m.add_answer(x.record.clone());
    }
    for x in &exp[1] {
        m.add_authority(x.record.clone());
    }
    for x in &exp[2] {
        m.add_additional(x.record.clone());
    }
    (m, exp)
}

fn wn_len(s: &str) -> usize {
    labels(s).iter().map(|l| l.len() + 1).sum::<usize>() + 1
}

/// A padding NULL record moves the first occurrence of `Big.Name.Example.` to offset `target`
/// (0x3ff0..=0x4010: around the largest offset a 14-bit pointer can express); later records
/// reuse the name, a suffix of it, and a lower-case twin. Variant 1 puts the first occurrence into
/// the RDATA of an SRV record (never compressed, but a legal pointer target).
fn offset_case(variant: u8, target: usize) -> (Message, [Vec<XRec>; 3]) {
    let mut m = Message::new(9, MessageType::Response, OpCode::Query);
    m.add_query(Query::new(hn("z."), RecordType::NS));
    // header 12 + question (z. = 3 octets + 4) = 19; pad record: owner 1 + 10 + L
    let first_fixed = if variant == 0 { 0 } else { 10 + 10 + 6 }; // SRV owner "_s._tcp.z." compresses to 8+2=10 octets
    let pad = target - 19 - 11 - first_fixed;
    let blob: Vec<u8> = (0..pad).map(|i| (i % 251) as u8).collect();
    let mut an = vec![XRec { record: Record::from_rdata(Name::root(), 1, RData::NULL(NULL::with(blob.clone()))), rtype: 10, wire: blob }];
    let big = "Big.Name.Example.";
    let a = |o: &str| xr(o, 1, 1, RData::A(A::new(192, 0, 2, 1)), vec![192, 0, 2, 1]);
    if variant == 0 {
        an.push(a(big));
    } else {
        let mut w = vec![0, 1, 0, 2, 0, 53];
        w.extend(wn(big));
        an.push(xr("_s._tcp.z.", 1, 33, RData::SRV(SRV::new(1, 2, 53, hn(big))), w));
    }
    an.push(a(big));
    an.push(xr("Name.Example.", 1, 2, RData::NS(NS(hn("ns.Big.Name.Example."))), wn("ns.Big.Name.Example.")));
    let mut w = vec![0, 5];
    w.extend(wn("mail.big.name.example."));
    an.push(xr("example.", 1, 15, RData::MX(MX::new(5, hn("mail.big.name.example."))), w));
    an.push(a("ns.Big.Name.Example."));
    for x in &an {
        m.add_answer(x.record.clone());
    }
    (m, [an, vec![], vec![]])
}

// ------------------------------------------------------------------------------------------
// direction 2: decode first

#[derive(Default)]
struct Tally {
    rejected: u64,
    reencode_failed: u64,
    ok: u64,
    nontrivial: u64,
}

fn judge_d2(b: &[u8], hashed: bool, t: &mut Tally, l: &mut Local, case: &dyn Fn() -> Value) {
    l.eval();
    let d1 = match catch(|| Message::from_vec(b)) {
        Err(_) => return l.outcome("obs:decode-panic(C01)"),
        Ok(Err(_)) => {
            t.rejected += 1;
            return;
        }
        Ok(Ok(d)) => d,
    };
    let e = match catch(|| d1.to_vec()) {
        Err(p) => return l.violation(&format!("panic:{}", vcore::short_loc(&p.loc)), &format!("re-encoding a decoded message panicked: {}", p.msg), case),
        Ok(Err(err)) => {
            // the statement speaks about strings that re-encode; a refusal is logged, not judged
            t.reencode_failed += 1;
            let kind = format!("{err:?}");
            let kind: String = kind.chars().take_while(|c| c.is_ascii_alphanumeric()).collect();
            return l.outcome(&format!("obs:reencode-refused:{kind}"));
        }
        Ok(Ok(e)) => e,
    };
    let wcase = || {
        let mut c = case();
        c["reencoded"] = json!(hex::enc(&e));
        c
    };
    let d2 = match catch(|| Message::from_vec(&e)) {
        Err(_) => return l.outcome("obs:decode-panic(C01)"),
        Ok(Err(err)) => {
            return l.violation(
                &format!("reencoded-undecodable:{}", c01::entry::err_name(&err)),
                &format!("decode(b) re-encodes to octets that Message::from_vec rejects: {err}"),
                &wcase,
            )
        }
        Ok(Ok(d)) => d,
    };
    if d2.metadata.truncation && !d1.metadata.truncation {
        // the re-encoding did not fit into 65,535 octets (names the input compressed are written out):
        // records were dropped and TC set, i.e. the string does not re-encode completely; not judged
        t.reencode_failed += 1;
        return l.outcome("obs:reencoding-exceeds-64k-and-is-truncated");
    }
    if let Some(f) = message_diff(&d1, &d2, false) {
        return l.violation(&format!("redecode-differs:{f}"), "decode(encode(decode(b))) != decode(b)", &wcase);
    }

    // clause 3: raw RDATA of the original vs. the re-encoding
    let w2 = match wire::walk(&e) {
        Ok(w) if w.consumed == e.len() => w,
        Ok(_) => return l.violation("wire:leftover-bytes", "re-encoding has octets after its last section", &wcase),
        Err(err) => return l.violation("wire:walker-rejects", &format!("reference walker cannot read the re-encoding: {err:?}"), &wcase),
    };
    let w1 = match wire::walk(b) {
        Ok(w) => w,
        Err(_) => {
            l.outcome("obs:reference-walker-rejects-an-accepted-input");
            return;
        }
    };
    let no_opt = |v: &[wire::RawRecord]| -> Vec<wire::RawRecord> { v.iter().filter(|r| r.rtype != 41).cloned().collect() };
    let pairs = [(w1.answers.clone(), w2.answers.clone()), (w1.authorities.clone(), w2.authorities.clone()), (no_opt(&w1.additionals), no_opt(&w2.additionals))];
    let mut has_records = false;
    for (s1, s2) in &pairs {
        if s1.len() != s2.len() {
            return l.violation("wire:record-count", "sections of the re-encoding hold a different number of records", &wcase);
        }
        for (r1, r2) in s1.iter().zip(s2.iter()) {
            has_records = true;
            if r1.rtype != r2.rtype {
                return l.violation("wire:record-type-changed", &format!("type {} became {}", r1.rtype, r2.rtype), &wcase);
            }
            if r1.name != r2.name {
                return l.violation("wire:owner-changed", "owner name (case-sensitive) changed in the re-encoding", &wcase);
            }
            let (a, z) = (&b[r1.rdata_start..r1.rdata_end], &e[r2.rdata_start..r2.rdata_end]);
            let t16 = r1.rtype;
            if matches!(t16, 2 | 5 | 12 | 15 | 6) {
                let (da, dz) = (decompress_rdata(b, t16, r1.rdata_start, r1.rdata_end), decompress_rdata(&e, t16, r2.rdata_start, r2.rdata_end));
                if a.is_empty() && z.is_empty() {
                    continue;
                }
                if da.is_none() || da != dz {
                    return l.violation(
                        &format!("rdata-changed-beyond-compression:type{t16}"),
                        &format!("{} -> {} (expanded {:?} -> {:?})", hex::enc(a), hex::enc(z), da.map(|d| hex::enc(&d)), dz.map(|d| hex::enc(&d))),
                        &wcase,
                    );
                }
            } else if compressible_type(t16) {
                // MD, MF, MB, MG, MR, MINFO: the statement allows them to differ; hickory keeps them opaque
                if a != z {
                    l.outcome("obs:obsolete-rfc1035-type-rdata-differs");
                }
            } else if a != z {
                if noncompressible_name_has_pointer(t16, a) == Some(true) {
                    // input outside RFC 3597 section 4 (pointer inside a name that must not be compressed):
                    // the decoder expands it, so the octets cannot be kept; upstream's fuzz target skips these too
                    l.outcome("obs:pointer-in-noncompressible-rdata-expanded");
                } else {
                    let scene = if z.len() < a.len() { "shrinks" } else if z.len() > a.len() { "grows" } else { "same-length" };
                    return l.violation(
                        &format!("rdata-not-preserved:type{t16}:{scene}"),
                        &format!("RDATA {} became {} in the re-encoding", hex::enc(a), hex::enc(z)),
                        &wcase,
                    );
                }
            }
        }
    }
    // OPT is rebuilt hop by hop (never passed through): log, do not judge
    let opt = |v: &[wire::RawRecord], m: &[u8]| v.iter().find(|r| r.rtype == 41).map(|r| m[r.rdata_start..r.rdata_end].to_vec());
    if opt(&w1.additionals, b) != opt(&w2.additionals, &e) {
        l.outcome("obs:opt-rdata-not-octet-identical");
    }
    t.ok += 1;
    if has_records || d1.edns.is_some() || d1.signature.is_some() || !d1.queries.is_empty() {
        if hashed {
            l.nontrivial(fnv64(b));
        } else {
            t.nontrivial += 1;
        }
    }
}

fn flush(t: Tally, fam: &str, l: &mut Local) {
    let mut add = |k: String, n: u64| {
        if n > 0 {
            *l.outcomes.entry(k).or_insert(0) += n;
        }
    };
    add(format!("d2:{fam}:rejected-by-decoder"), t.rejected);
    add(format!("d2:{fam}:obs:reencode-refused"), t.reencode_failed);
    add(format!("d2:{fam}:roundtrip-ok"), t.ok);
    add(format!("d2:{fam}:nontrivial-by-construction"), t.nontrivial);
}

#[derive(Clone)]
struct Block {
    fam: &'static str,
    /// 0 = header shape `arg` + string as body, 1 = string as RDATA of type `arg`, 2 = same inside an UPDATE message
    mode: u8,
    arg: u16,
    alphabet: Option<&'static [u8]>,
    len: usize,
    first: u64,
    count: u64,
}

fn blocks_for(fam: &'static str, mode: u8, arg: u16, alphabet: Option<&'static [u8]>, max_len: usize, out: &mut Vec<Block>) {
    let k = alphabet.map(|a| a.len() as u64).unwrap_or(256);
    for len in 0..=max_len {
        let total = k.pow(len as u32);
        let mut first = 0;
        while first < total {
            let count = (1u64 << 16).min(total - first);
            out.push(Block { fam, mode, arg, alphabet, len, first, count });
            first += count;
        }
    }
}

fn run_block(b: &Block, l: &mut Local) {
    let mut t = Tally::default();
    let mut s: Vec<u8> = vec![];
    let mut buf: Vec<u8> = vec![];
    for i in b.first..b.first + b.count {
        s.clear();
        match b.alphabet {
            Some(a) => families::string_at(a, b.len, i, &mut s),
            None => families::bytes_at(b.len, i, &mut s),
        }
        if b.mode == 0 {
            buf.clear();
            buf.extend_from_slice(&HEADER_SHAPES[b.arg as usize].bytes());
            buf.extend_from_slice(&s);
        } else {
            families::message_with_rdata(b.arg, &s, b.mode == 2, &mut buf);
        }
        judge_d2(&buf, b.len <= 2, &mut t, l, &|| json!({"dir": 2, "hex": hex::enc(&buf)}));
    }
    if b.first == 0 && b.len == 2 && l.samples.len() < 3 {
        l.sample(json!({"dir": 2, "family": b.fam, "mode": b.mode, "arg": b.arg, "len": b.len, "strings": b.count}));
    }
    flush(t, b.fam, l);
}

// ------------------------------------------------------------------------------------------

fn replay(ctx: &Ctx, case: &Value) {
    ctx.with_local(|l| {
        if case["dir"].as_u64() == Some(0) {
            let wire = hex::dec(case["hex"].as_str().unwrap_or("")).unwrap_or_default();
            let rtype = case["rtype"].as_u64().unwrap_or(0) as u16;
            if let Err(e) = RData::read(hickory_proto::serialize::binary::BinDecoder::new(&wire), RecordType::from(rtype)) {
                l.violation(&format!("rfc-octets-rejected:type{rtype}"), &format!("the decoder rejects the RFC form of a valid type {rtype} RDATA: {e}"), || case.clone());
            }
            return;
        }
        if case["dir"].as_u64() == Some(2) && case["large"].is_string() {
            let al = Alpha::new(case["thorough"].as_bool().unwrap_or(false));
            let seeds = ext::large_seeds(&al, &[0, 1, 2]);
            let Some(sd) = seeds.iter().find(|s| Some(s.tag) == case["large"].as_str()) else { return };
            let mut b = sd.bytes.clone();
            let e = &case["edit"];
            match e["kind"].as_str() {
                Some("window") | Some("sub") => {
                    let at = e["at"].as_u64().unwrap_or(0) as usize;
                    for (j, v) in e["bytes"].as_array().cloned().unwrap_or_default().iter().enumerate() {
                        if at + j < b.len() {
                            b[at + j] = v.as_u64().unwrap_or(0) as u8;
                        }
                    }
                }
                Some("cut") => b.truncate(e["at"].as_u64().unwrap_or(0) as usize),
                _ => {}
            }
            let mut t = Tally::default();
            judge_d2(&b, true, &mut t, l, &|| case.clone());
            return;
        }
        if case["dir"].as_u64() == Some(2) {
            let mut t = Tally::default();
            let buf = if let Some(f) = case["family"].as_str() {
                families::growth(f, case["n"].as_u64().unwrap_or(1) as u32, case["qd1"].as_bool().unwrap_or(false)).unwrap_or_default()
            } else {
                hex::dec(case["hex"].as_str().unwrap_or("")).unwrap_or_default()
            };
            judge_d2(&buf, true, &mut t, l, &|| case.clone());
            return;
        }
        match case["family"].as_str().unwrap_or("spec") {
            "sweep" => {
                let v = case["variant"].as_str().unwrap_or("");
                let v = SWEEPS.iter().find(|s| **s == v).copied().unwrap_or("same-owner");
                let (m, exp) = sweep(v, case["n"].as_u64().unwrap_or(0) as usize);
                judge_d1_depth(&m, &exp, None, Depth::Full, l, &|| case.clone());
            }
            "offset" => {
                let (m, exp) = offset_case(case["variant"].as_u64().unwrap_or(0) as u8, case["target"].as_u64().unwrap_or(0x3fff) as usize);
                judge_d1_depth(&m, &exp, None, Depth::Full, l, &|| case.clone());
            }
            "value" => {
                let v = case["sweep"].as_str().unwrap_or("");
                if let Some(v) = ext::VALUE_SWEEPS.iter().find(|s| **s == v) {
                    if let Some((m, exp, meta)) = ext::value_case(v, case["i"].as_u64().unwrap_or(0)) {
                        judge_d1_depth(&m, &exp, Some(&meta), Depth::Full, l, &|| case.clone());
                    }
                }
            }
            _ => {
                let al = Alpha::new(case["thorough"].as_bool().unwrap_or(false));
                let (m, exp, meta) = Spec::from_json(case).build(&al);
                judge_d1_depth(&m, &exp, Some(&meta), Depth::Full, l, &|| case.clone());
            }
        }
    });
}

const SEC_PAIRS: [(u8, u8); 6] = [(0, 0), (0, 1), (0, 2), (1, 1), (1, 2), (2, 2)];
const SEC_TRIPLES: [(u8, u8, u8); 10] = [(0, 0, 0), (0, 0, 1), (0, 0, 2), (0, 1, 1), (0, 1, 2), (0, 2, 2), (1, 1, 1), (1, 1, 2), (1, 2, 2), (2, 2, 2)];

fn main() {
    // a stack overflow / abort in the code under test must become a verdict, not a dead check
    vcore::supervise("C02");
    vcore::install_log_evaluation(); // logging is part of the environment: log arguments are evaluated as under a real subscriber
    let ctx = Ctx::from_args("C02", "exploration");
    let thorough = !ctx.quick();
    ctx.case_timeout_s.store(120, std::sync::atomic::Ordering::Relaxed);

    if let Some((_key, case)) = ctx.replay_case() {
        replay(&ctx, &case);
        ctx.finish(false);
    }

    ctx.set_rule(
        "E-ENUM. Direction 1: messages assembled from a record alphabet R (every RData variant of the build with 2-3 value shapes, \
         each with its RDATA wire form hand-written from the RFC; owners {., a.z., A.z., b.a.z., <63>.z.} x classes {IN,CH,NONE,ANY,4096} \
         x TTL {0,1,2^31-1,2^31,2^32-1}): ALL bodies of <=2 records (quick, thorough on the larger alphabet) / <=3 records (thorough, \
         compact alphabet) in ALL section placements x questions {none, a.z. A, A.Z. ANY CH, two} x EDNS/TSIG combinations; the full EDNS \
         (17 variants) x TSIG (4 variants) product on 1-record bodies; ALL 2^7 header flag combinations x 7 opcodes x 11 rcodes \
         (extended ones with EDNS); UPDATE messages with <=2 records from {empty-RDATA records of 6 types x 3 classes, 10 ordinary}; \
         compression sweeps: 9 families (incl. non-host-name labels) x every n = 0..200 records, first-occurrence offsets 0x3ff0..0x4010 x 2 variants; VALUE SWEEPS: \
         every value of the small fields a message carries: 16 opcodes x 4,096 rcodes, ALL 65,536 message ids / question types / \
         question classes / record classes / unknown record types / types in an NSEC bitmap / CERT types / SvcParam keys / EDNS \
         payload sizes / EDNS Z+DO words / EDNS option codes / TSIG error codes, all 256 EDNS versions, ECS source x scope 33x33 (v4) \
         and 129x3 (v6), all 128 DAU subsets, option lengths {0,1,2,255,256,257,4096,32768,65000} x 3 kinds, 0..64 options, TTL 2^k and \
         2^k-1, a 11x6x3x5x2x8x3 TSIG field product; enum values are chosen by IANA tables of the check, not by hickory's conversions. \
         PRODUCERS AND ENCODER MODES: besides Message::to_vec every message of the 0/1-record product, the header and UPDATE families, all sweeps, one (q, EDNS, TSIG) combination of every 2-record body (thorough: all; and one of every 3-record body) and the boundary values of every value sweep also goes through to_bytes, a second to_vec, emit with name_encoding {Uncompressed, UncompressedLowercase} and canonical_form {false, true} (expected wire form per mode from the mode's documentation and RFC 4034 6.2 / 6840 5.1), the server's MessageResponse emitter (raw question, soa slot), MessageRequest read+emit, an emission split over two encoders (BinEncoder::with_offset), Edns::emit; REFERENCE OCTETS: the same messages assembled WITHOUT hickory (RFC framing, RFC RDATA, RFC 6891 OPT first/last, RFC 8945 TSIG) in 4 layouts (plain; owners + RFC 1035 RDATA names compressed by an independent compressor; every RDATA name compressed; pointer-to-pointer chains) must DECODE to the message assembled through the constructors, then round-trip. \
         Oracle: independent walker reads the encoding completely; ID and flags word, question numbers, owner names (case-sensitive), \
         TYPE/CLASS/TTL and the RFC RDATA octets (after name expansion for NS/CNAME/PTR/MX/SOA) of every record, CLASS/TTL/options of \
         the OPT record (RFC 6891) and the RDATA of the TSIG record (RFC 8945) equal what was assembled; \
         Message::from_vec(Message::to_vec(m)) equals m field by field (names eq_case, TTLs, enum variants). Direction 2: every \
         message-shaped string of the C01 families (header shape + ALL bodies of length <=2/3; ALL strings over S of length <=6/7 as \
         body; ALL strings (<=2/3 octets, S: <=5/6) as RDATA of every type with a dedicated decoder in plain and UPDATE messages; \
         complete single-edit neighbourhoods of the message and RDATA seed corpus; f5: ALL 65,536 values of every 16-bit window of \
         one-record messages around the RFC RDATA of the alphabet (quick: windows starting in the first 8 RDATA octets, fixed fields on \
         every 8th seed; thorough: every window of every entry); structure-aware edits (16-bit windows x 8 boundary values; thorough: \
         S-substitutions, truncations) of 17 KiB..64 KiB seeds (quick: one seed, thorough: three) at the first/last 256 octets and \
         0x3f80..0x4080; f6: consistent resizes of every inner length-prefixed field of every RDATA seed to every length of its width (see C01) \
         and pairs at {0,1,39,40,63,64,255}^2; f8: every value 0..255 of every fixed octet x consistent resizes {0..20, 31..33, 63..65, 255} of a variable-length field of the \
         same (sub)structure (thorough: every octet x every field of the RDATA); f7: boundary patterns {00.., 00..01, 7f ff.., 80 00.., ff..fe, ff..ff} on every window of width 1/2/4/6 \
         of the fixed parts of every RDATA seed, pairs of windows, windows x {0,1,255} resizes; 22 growth families) that decodes and re-encodes: decode(encode(decode(b))) == decode(b), and \
         RDATA of every type other than NS/CNAME/PTR/MX/SOA/obsolete-1035/OPT is octet-identical (inputs with a compression pointer \
         inside a name that RFC 3597 forbids to compress are logged, not judged). distinct_nontrivial: direction 1 = distinct \
         encodings that contain a compression pointer, EDNS, TSIG or an extended rcode; direction 2 = distinct accepted inputs with at \
         least one question or record (hash-counted for strings <= 2 octets, edits and growth; longer strings and f5/large edits are \
         distinct by construction: see outcome_classes['*nontrivial-by-construction']).",
    );
    ctx.assume("vref::wire (RFC 1035 4.1 walker) and c01::wirex (RFC layouts of name-bearing RDATA) are the reference for what is on the wire");
    ctx.assume("the RDATA wire forms of the record alphabet were written by hand from RFC 1035, 2782, 3403, 4034, 4255, 4398, 5155, 6698, 7344, 7477, 7929, 8162, 8659, 9460");
    ctx.assume("valid message = FQDN names, RDATA of >= 1 octet outside UPDATE, extended rcode only with EDNS (Edns::rcode_high is treated as derived from the header rcode), OPT only as Edns, TSIG only as signature, SIG only in the additional section, ECS address bits beyond the prefix zero");

    let al = Alpha::new(thorough);
    ctx.set("rdata_alphabet", json!(al.entries.len()));
    ctx.set("record_alphabet", json!({"compact": al.levels[0].len(), "quick": al.levels[1].len(), "thorough": al.levels[2].len()}));

    // every type code the decoder models with its own variant must be covered by the alphabet
    let alpha_types: std::collections::BTreeSet<u16> = al.entries.iter().map(|e| e.rtype).collect();
    let gaps = audit::untyped_gaps(&alpha_types);
    ctx.set("typed_record_types_without_alphabet_entry", json!(gaps));
    if !gaps.is_empty() {
        ctx.machinery_failure(&format!("record types with a dedicated decoder but no alphabet entry: {gaps:?}"));
    }

    // RFC-valid RDATA of the alphabet that the decoder refuses (the statement: a message assembled from valid
    // records decodes after encoding; these octets are what any conforming encoder writes for the value)
    for (tag, rtype, wire, err) in c01::alphabet::rejected_entries() {
        ctx.with_local(|l| {
            l.violation(
                &format!("rfc-octets-rejected:type{rtype}"),
                &format!("alphabet entry {tag}: the decoder rejects the RFC form {} of a valid type {rtype} RDATA: {err}", hex::enc(&wire)),
                || json!({"dir": 0, "entry": tag, "rtype": rtype, "hex": hex::enc(&wire)}),
            )
        });
    }

    // alphabet self-check: constructor-built values and RFC octets denote the same RDATA
    for e in &al.entries {
        if let Some(built) = &e.built {
            match RData::read(hickory_proto::serialize::binary::BinDecoder::new(&e.wire), RecordType::from(e.rtype)) {
                Ok(d) if &d == built && rdata_names_eq_case(&d, built) => {}
                other => ctx.with_local(|l| {
                    l.violation(
                        &format!("rfc-octets-decode-differently:type{}", e.rtype),
                        &format!("entry {}: RFC RDATA {} decodes to {:?}, constructors give {:?}", e.tag, hex::enc(&e.wire), other, built),
                        || json!({"dir": 0, "entry": e.tag}),
                    )
                }),
            }
        }
    }

    // ---- direction 1 -------------------------------------------------------------------------
    let ne = al.edns.len() as i32;
    let nt = al.tsig.len() as i32;
    // (q, edns, tsig) combinations for multi-record bodies; index-dependent entries rotate through all variants
    let combos = |i: u64| -> Vec<(u8, i32, i32)> {
        let (e, t) = ((i % ne as u64) as i32, (i % nt as u64) as i32);
        let mut v = vec![(1, -1, -1), (0, 1, -1), (2, -1, t), (3, e, (t + 1) % nt)];
        if thorough {
            v.push((1, e, -1));
            v.push((0, -1, -1));
        }
        v
    };
    let run_spec_depth = |s: &Spec, depth: Depth, l: &mut Local| {
        let (m, exp, meta) = s.build(&al);
        judge_d1_depth(&m, &exp, Some(&meta), depth, l, &|| s.to_json(thorough));
    };
    // every producer / encoder mode / reference layout (Depth::Full) is crossed with: all 0- and 1-record
    // messages x the full question x EDNS x TSIG product, all header / UPDATE cases, all sweeps, the first
    // (q, edns, tsig) combination of every 2-record body (thorough: every combination, and the 3-record bodies),
    // the boundary values of every value sweep
    let run_spec = |s: &Spec, l: &mut Local| run_spec_depth(s, Depth::Full, l);

    // bodies of 0, 1, 2 records
    let lvl: u8 = if thorough { 2 } else { 1 };
    let n = al.levels[lvl as usize].len() as u64;
    ctx.with_local(|l| {
        for q in 0..4 {
            for e in -1..ne {
                for t in -1..nt {
                    run_spec(&Spec { level: lvl, q, edns: e, tsig: t, flags: 1, ..Default::default() }, l);
                }
            }
        }
    });
    // 1 record: every section x every question x FULL EDNS x TSIG product
    let od = Odometer::new(&[n, 3, 4, (ne + 1) as u64, (nt + 1) as u64]);
    ctx.set("d1_one_record", json!(od.space()));
    ctx.par_run(od.space(), 256, |i, l| {
        let d = od.get(i);
        let sp = Spec { level: lvl, recs: vec![(d[0] as usize, d[1] as u8)], q: d[2] as u8, edns: d[3] as i32 - 1, tsig: d[4] as i32 - 1, flags: 0x09, ..Default::default() };
        run_spec(&sp, l);
        if i % 100_003 == 0 {
            let mut j = sp.to_json(thorough);
            j["record"] = json!(al.levels[lvl as usize][d[0] as usize].tag);
            l.sample(j);
        }
    });
    // 2 records
    let od = Odometer::new(&[n, n, 6]);
    ctx.set("d1_two_record_bodies", json!(od.space()));
    ctx.par_run(od.space(), 64, |i, l| {
        let d = od.get(i);
        let (s1, s2) = SEC_PAIRS[d[2] as usize];
        for (k, (q, e, t)) in combos(i).into_iter().enumerate() {
            let depth = if thorough || k == 0 { Depth::Full } else { Depth::Default };
            run_spec_depth(&Spec { level: lvl, recs: vec![(d[0] as usize, s1), (d[1] as usize, s2)], q, edns: e, tsig: t, flags: 0x03, ..Default::default() }, depth, l);
        }
        if i % 100_003 == 7 {
            l.sample(json!({"dir": 1, "family": "two-records", "records": [al.levels[lvl as usize][d[0] as usize].tag, al.levels[lvl as usize][d[1] as usize].tag], "sections": [s1, s2], "combos": combos(i).len()}));
        }
    });
    // 3 records (thorough): compact alphabet
    if thorough {
        let n0 = al.levels[0].len() as u64;
        let od = Odometer::new(&[n0, n0, n0, 10]);
        ctx.set("d1_three_record_bodies", json!(od.space()));
        ctx.par_run(od.space(), 64, |i, l| {
            let d = od.get(i);
            let (s1, s2, s3) = SEC_TRIPLES[d[3] as usize];
            let (e, t) = ((i % ne as u64) as i32, (i % nt as u64) as i32);
            for (k, (q, e, t)) in [(1u8, -1, -1), (2, e, t)].into_iter().enumerate() {
                // every producer / mode / reference layout on the EDNS+TSIG combination, the default encoding on both
                let depth = if k == 1 { Depth::Full } else { Depth::Default };
                run_spec_depth(&Spec { level: 0, recs: vec![(d[0] as usize, s1), (d[1] as usize, s2), (d[2] as usize, s3)], q, edns: e, tsig: t, flags: 0x01, ..Default::default() }, depth, l);
            }
        });
    }
    // header: all flags x opcodes x rcodes, 1-record body rotating through the compact alphabet
    let n0 = al.levels[0].len() as u64;
    let od = Odometer::new(&[128, OPCODES.len() as u64, RCODES.len() as u64, 2, 2]);
    ctx.set("d1_header_cases", json!(od.space()));
    ctx.par_run(od.space(), 64, |i, l| {
        let d = od.get(i);
        let rcode = RCODES[d[2] as usize];
        let with_edns = rcode > 15 || d[3] == 1;
        if rcode > 15 && d[3] == 1 {
            return; // same as d[3] == 0
        }
        let mut ri = (i % n0) as usize;
        if al.levels[0][ri].record.record_type() == RecordType::SIG {
            ri = 0;
        }
        let opcode = OPCODES[d[1] as usize];
        run_spec(
            &Spec {
                level: 0,
                recs: vec![(ri, (i % 3) as u8)],
                q: (i % 4) as u8,
                edns: if with_edns { (i % ne as u64) as i32 } else { -1 },
                tsig: if d[4] == 1 { (i % nt as u64) as i32 } else { -1 },
                flags: d[0] as u8,
                opcode,
                rcode,
                ..Default::default()
            },
            l,
        );
    });
    // UPDATE: <=2 records over {empty-RDATA records} U {10 ordinary}
    let upd_types: [u16; 6] = [1, 255, 6, 2, 16, 65280];
    let upd_classes: [u16; 3] = [255, 254, 1];
    let mut atoms: Vec<(Option<(u16, u16)>, usize)> = vec![];
    for t in upd_types {
        for c in upd_classes {
            atoms.push((Some((t, c)), 0));
        }
    }
    for k in 0..10usize {
        atoms.push((None, (k * 7) % al.levels[0].len()));
    }
    let na = atoms.len() as u64;
    let od = Odometer::new(&[na + 1, na + 1, 6]);
    ctx.set("d1_update_cases", json!(od.space()));
    ctx.par_run(od.space(), 64, |i, l| {
        let d = od.get(i);
        let (s1, s2) = SEC_PAIRS[d[2] as usize];
        let mut sp = Spec { level: 0, q: 3, opcode: 5, flags: (i % 2) as u8, edns: if i % 5 == 0 { 0 } else { -1 }, tsig: if i % 7 == 0 { 0 } else { -1 }, ..Default::default() };
        for (a, s) in [(d[0], s1), (d[1], s2)] {
            if a == na {
                continue;
            }
            match atoms[a as usize] {
                (Some((t, c)), _) => sp.upd.push((t, c, s)),
                (None, ri) => {
                    if al.levels[0][ri].record.record_type() != RecordType::SIG || s == 2 {
                        sp.recs.push((ri, s))
                    }
                }
            }
        }
        run_spec(&sp, l);
    });
    // compression sweeps
    let od = Odometer::new(&[SWEEPS.len() as u64, 201]);
    ctx.par_run(od.space(), 4, |i, l| {
        let d = od.get(i);
        let v = SWEEPS[d[0] as usize];
        let (m, exp) = sweep(v, d[1] as usize);
        judge_d1_depth(&m, &exp, None, Depth::Full, l, &|| json!({"dir": 1, "family": "sweep", "variant": v, "n": d[1]}));
        if d[1] == 200 {
            l.sample(json!({"dir": 1, "family": "sweep", "variant": v, "n": 200, "encoded_len": m.to_vec().map(|b| b.len()).unwrap_or(0)}));
        }
    });
    let od = Odometer::new(&[2, 0x4010 - 0x3ff0 + 1]);
    ctx.par_run(od.space(), 2, |i, l| {
        let d = od.get(i);
        let target = 0x3ff0 + d[1] as usize;
        let (m, exp) = offset_case(d[0] as u8, target);
        // the construction must really put the first occurrence at `target`
        if let Ok(b) = m.to_vec() {
            if let Ok(w) = wire::walk(&b) {
                let at = if d[0] == 0 { w.answers[1].start } else { w.answers[1].rdata_start + 6 };
                if at != target {
                    l.outcome("machinery:offset-case-misplaced");
                }
            }
        }
        judge_d1_depth(&m, &exp, None, Depth::Full, l, &|| json!({"dir": 1, "family": "offset", "variant": d[0], "target": target}));
    });

    // value sweeps: every value of the small fields a message can carry
    let mut vitems: Vec<(&'static str, u64, u64)> = vec![];
    for v in ext::VALUE_SWEEPS.iter() {
        let n = ext::value_sweep_size(v);
        let mut lo = 0;
        while lo < n {
            vitems.push((v, lo, (lo + 2048).min(n)));
            lo += 2048;
        }
    }
    ctx.set("d1_value_sweep_cases", json!(ext::VALUE_SWEEPS.iter().map(|v| (v.to_string(), ext::value_sweep_size(v))).collect::<std::collections::BTreeMap<_, _>>()));
    ctx.par_run(vitems.len() as u64, 1, |k, l| {
        let (v, lo, hi) = vitems[k as usize];
        for i in lo..hi {
            match ext::value_case(v, i) {
                Some((m, exp, meta)) => {
                    // other producers / modes / reference layouts at the boundary values of the sweep (thorough: every 16th value too)
                    let n = ext::value_sweep_size(v);
                    let edge = i < 320 || i + 64 >= n || i.is_power_of_two() || (i + 1).is_power_of_two() || (thorough && i % 16 == 0);
                    judge_d1_depth(&m, &exp, Some(&meta), if edge { Depth::Full } else { Depth::Default }, l, &|| json!({"dir": 1, "family": "value", "sweep": v, "i": i}));
                    // `impl BinEncodable for Edns`: a second emitter of the OPT record
                    if let (true, Some(e), Some(o)) = (edge, &m.edns, &meta.opt) {
                        if let Some((key, what)) = ext::check_edns_emit(e, o) {
                            l.violation(&key, &what, || json!({"dir": 1, "family": "value", "sweep": v, "i": i, "producer": "Edns::emit"}));
                        }
                    }
                }
                None => l.outcome("d1:value-without-canonical-representation"),
            }
        }
        if lo == 0 {
            l.sample(json!({"dir": 1, "family": "value", "sweep": v, "values": ext::value_sweep_size(v)}));
        }
    });

    // ---- direction 2 -------------------------------------------------------------------------
    let mut blocks: Vec<Block> = vec![];
    let (l1, l_body, l_rd) = if thorough { (3, 7, 6) } else { (2, 6, 5) };
    let codes = families::distinct_decoder_codes();
    for h in 0..HEADER_SHAPES.len() as u16 {
        blocks_for("f1", 0, h, None, l1, &mut blocks);
        blocks_for("f2", 0, h, Some(&S), l_body, &mut blocks);
    }
    for &c in &codes {
        for mode in [1u8, 2] {
            // opaque decoders and the UPDATE twin stay one octet shorter in the all-bytes family
            let l1c = if thorough && (mode == 2 || c == 99 || c == 65280) { l1 - 1 } else { l1 };
            blocks_for("f1", mode, c, None, l1c, &mut blocks);
            blocks_for("f2", mode, c, Some(&S), if mode == 2 { l_rd - 1 } else { l_rd }, &mut blocks);
        }
    }
    ctx.set("d2_f1_f2_strings", json!(blocks.iter().map(|b| b.count).sum::<u64>()));
    ctx.par_run(blocks.len() as u64, 2, |i, l| run_block(&blocks[i as usize], l));

    // f3: edits of the message seeds
    let recs0 = record_alphabet(&al.entries, 0);
    let msg_seeds = seeds::message_seeds(&al.entries, &recs0, thorough);
    ctx.set("d2_f3_seeds", json!(msg_seeds.len()));
    ctx.par_run(msg_seeds.len() as u64, 1, |i, l| {
        let s = &msg_seeds[i as usize];
        let mut t = Tally::default();
        let mut seed_ok = Tally::default();
        judge_d2(&s.bytes, true, &mut seed_ok, l, &|| json!({"dir": 2, "hex": hex::enc(&s.bytes), "seed": s.tag}));
        if seed_ok.ok == 1 {
            l.outcome("d2:f3:seed-roundtrip-ok");
        }
        let n = families::edits(&s.bytes, false, |b| judge_d2(b, true, &mut t, l, &|| json!({"dir": 2, "hex": hex::enc(b), "seed": s.tag})));
        if l.samples.len() < 5 {
            l.sample(json!({"dir": 2, "family": "f3", "seed": s.tag, "edits": n}));
        }
        flush(t, "f3", l);
    });
    // f3b: edits of the RDATA seeds (RFC octets of every alphabet entry, OPT, TSIG) inside a one-record message
    let rd_seeds = seeds::rdata_seeds(&al.entries);
    ctx.set("d2_f3_rdata_seeds", json!(rd_seeds.len()));
    ctx.par_run(rd_seeds.len() as u64, 1, |i, l| {
        let (tag, rtype, w) = &rd_seeds[i as usize];
        let mut t = Tally::default();
        let mut buf = vec![];
        families::edits(w, thorough, |r| {
            families::message_with_rdata(*rtype, r, false, &mut buf);
            judge_d2(&buf, true, &mut t, l, &|| json!({"dir": 2, "hex": hex::enc(&buf), "seed": tag}));
        });
        flush(t, "f3", l);
    });
    // f5: all 65,536 values of every 16-bit window of one-record messages around the RFC RDATA of
    // the alphabet. Thorough: every entry, every window from the flags word on. Quick: the first
    // entry of every type, the windows that start in the first 8 RDATA octets, and for every 8th
    // seed also the windows of the record's fixed fields (TYPE, CLASS, TTL, RDLENGTH).
    let mut witems: Vec<(String, Vec<u8>, usize, usize)> = vec![];
    {
        let mut seen = std::collections::BTreeSet::new();
        let mut buf = vec![];
        let mut k = 0usize;
        for (tag, t, w) in &rd_seeds {
            if !thorough && !seen.insert(*t) {
                continue;
            }
            families::message_with_rdata(*t, w, false, &mut buf);
            let last = buf.len() - 1;
            let ranges: Vec<(usize, usize)> = if thorough {
                vec![(2, last)]
            } else if k % 8 == 0 {
                vec![(13, last.min(23 + 8))]
            } else {
                vec![(23, last.min(23 + 8))]
            };
            k += 1;
            for (lo, hi) in ranges {
                // slices of 4 windows so that the work spreads over the workers
                let mut a = lo;
                while a < hi {
                    witems.push((tag.clone(), buf.clone(), a, (a + 4).min(hi)));
                    a += 4;
                }
            }
        }
    }
    ctx.set("d2_f5_windows", json!(witems.iter().map(|w| w.3 - w.2).sum::<usize>()));
    ctx.par_run(witems.len() as u64, 1, |i, l| {
        let (tag, seed, lo, hi) = &witems[i as usize];
        ctx.watch(l.worker, || format!("f5 {tag} {lo}..{hi}"));
        let mut t = Tally::default();
        families::windows16(seed, *lo, *hi, |b| judge_d2(b, false, &mut t, l, &|| json!({"dir": 2, "hex": hex::enc(b), "seed": tag})));
        flush(t, "f5", l);
    });

    // f6: consistent resizes of inner length-prefixed fields (c01::layout): every field of every RDATA
    // seed x every length of its width, enclosing lengths recomputed; pairs of RDATA fields at boundary values
    ctx.par_run(rd_seeds.len() as u64, 1, |i, l| {
        use c01::layout;
        let (tag, rtype, w) = &rd_seeds[i as usize];
        ctx.watch(l.worker, || format!("f6 {tag}"));
        let Some(rd) = layout::rdata_layout(*rtype, w) else {
            l.outcome("machinery:layout-table-does-not-fit-seed");
            return;
        };
        let (tree, rd_at) = layout::message_tree(*rtype, rd);
        let mut t = Tally::default();
        let mut msg = vec![];
        layout::resize_family(&tree, rd_at, |tr, _| {
            msg.clear();
            if layout::serialize(tr, &mut msg) && msg.len() <= 65535 {
                judge_d2(&msg, false, &mut t, l, &|| json!({"dir": 2, "hex": hex::enc(&msg), "seed": tag}));
            }
        });
        flush(t, "f6", l);
    });
    if ctx.outcome_count("machinery:layout-table-does-not-fit-seed") > 0 {
        ctx.machinery_failure("f6: a layout table does not describe its seed RDATA");
    }

    // f8: every value of a fixed octet x consistent resize of a variable-length field (c01::layout, see C01):
    // quick: octet and field in the same (sub)structure; thorough: every octet x every field of the RDATA
    ctx.par_run(rd_seeds.len() as u64, 1, |i, l| {
        use c01::layout;
        let (tag, rtype, w) = &rd_seeds[i as usize];
        ctx.watch(l.worker, || format!("f8 {tag}"));
        let Some(rd) = layout::rdata_layout(*rtype, w) else { return };
        let (tree, rd_at) = layout::message_tree(*rtype, rd);
        let mut t = Tally::default();
        let mut msg = vec![];
        layout::value_resize_family(&tree, rd_at, thorough, |tr| {
            msg.clear();
            if layout::serialize(tr, &mut msg) && msg.len() <= 65535 {
                judge_d2(&msg, false, &mut t, l, &|| json!({"dir": 2, "hex": hex::enc(&msg), "seed": tag, "family": "f8"}));
            }
        });
        flush(t, "f8", l);
    });

    // f7: field-boundary patterns inside the fixed parts of every RDATA seed (see audit.rs)
    ctx.par_run(rd_seeds.len() as u64, 1, |i, l| {
        let (tag, rtype, w) = &rd_seeds[i as usize];
        ctx.watch(l.worker, || format!("f7 {tag}"));
        let mut t = Tally::default();
        let n = audit::boundary_family(*rtype, w, thorough, |b| judge_d2(b, false, &mut t, l, &|| json!({"dir": 2, "hex": hex::enc(b), "seed": tag, "family": "f7"})));
        if let Some(n) = n {
            *l.outcomes.entry("d2:f7:cases".into()).or_insert(0) += n;
        }
        flush(t, "f7", l);
    });

    // f3L: structure-aware single edits of large seeds (17 KiB .. 64 KiB)
    let large = ext::large_seeds(&al, if thorough { &[0, 1, 2] } else { &[0] });
    ctx.set("d2_large_seeds", json!(large.iter().map(|s| json!({"tag": s.tag, "len": s.bytes.len()})).collect::<Vec<_>>()));
    // offsets edited: the regions where the position matters: the first 256 octets, 0x3f80..0x4080
    // (14-bit pointer limit), the last 256 (a complete sweep of one 17 KiB seed costs ~15 CPU minutes)
    let mut litems: Vec<(usize, usize, usize)> = vec![];
    for (k, s) in large.iter().enumerate() {
        let n = s.bytes.len();
        if n < 0x4080 {
            ctx.with_local(|l| l.violation("encode-failed:large-seed", &format!("hickory does not encode the valid large message {} (or encodes it in {n} octets)", s.tag), || json!({"dir": 1, "family": "large-seed", "tag": s.tag})));
            continue;
        }
        let _ = k;
        let regions: Vec<(usize, usize)> = vec![(0, 256), (0x3f80, 0x4080.min(n)), (n - 256, n)];
        for (lo, hi) in regions {
            let mut a = lo;
            while a < hi {
                litems.push((k, a, (a + 64).min(hi)));
                a += 64;
            }
        }
    }
    ctx.set("d2_large_offsets", json!(litems.iter().map(|x| x.2 - x.1).sum::<usize>()));
    ctx.par_run(litems.len() as u64, 1, |i, l| {
        let (k, lo, hi) = litems[i as usize];
        let s = &large[k];
        ctx.watch(l.worker, || format!("large {} {lo}..{hi}", s.tag));
        let mut t = Tally::default();
        if lo == 0 {
            let mut ok = Tally::default();
            judge_d2(&s.bytes, true, &mut ok, l, &|| json!({"dir": 2, "large": s.tag, "thorough": thorough, "edit": {"kind": "none"}}));
            if ok.ok == 1 {
                l.outcome("d2:large:seed-roundtrip-ok");
            }
        }
        ext::large_edits_range(&s.bytes, lo, hi, thorough, |b, what| {
            judge_d2(b, false, &mut t, l, &|| json!({"dir": 2, "large": s.tag, "thorough": thorough, "edit": what}))
        });
        flush(t, "large", l);
    });

    // f4: growth families
    let mut gitems: Vec<(&'static str, bool, u32)> = vec![];
    for f in families::GROWTH_FAMILIES.iter() {
        for qd1 in [false, true] {
            for n in families::growth_sizes(f, qd1) {
                gitems.push((f, qd1, n));
            }
        }
    }
    ctx.set("d2_f4_cases", json!(gitems.len()));
    ctx.par_run(gitems.len() as u64, 4, |i, l| {
        let (f, qd1, n) = gitems[i as usize];
        let Some(b) = families::growth(f, n, qd1) else { return };
        let mut t = Tally::default();
        judge_d2(&b, true, &mut t, l, &|| json!({"dir": 2, "family": f, "n": n, "qd1": qd1}));
        flush(t, "f4", l);
    });

    // vacuity
    for k in ["d2:f8:roundtrip-ok", "d2:f8:rejected-by-decoder", "d2:f7:roundtrip-ok", "d2:f7:rejected-by-decoder", "d1:ok:other-producer-or-mode", "d1:producer:same-octets", "d1:reference-octets-decode-to-the-assembled-message", "d2:f6:roundtrip-ok", "d2:f6:rejected-by-decoder", "d2:f5:roundtrip-ok", "d2:f5:rejected-by-decoder", "d2:large:roundtrip-ok", "d2:large:rejected-by-decoder", "d2:large:seed-roundtrip-ok", "d1:ok:compressed", "d1:ok:plain", "d2:f1:roundtrip-ok", "d2:f2:roundtrip-ok", "d2:f3:roundtrip-ok", "d2:f4:roundtrip-ok", "d2:f3:seed-roundtrip-ok", "d2:f3:rejected-by-decoder"] {
        if ctx.outcome_count(k) == 0 {
            ctx.machinery_failure(&format!("vacuous run: outcome class {k} never occurred"));
        }
    }
    if ctx.outcome_count("machinery:offset-case-misplaced") > 0 {
        ctx.machinery_failure("offset sweep: the first occurrence is not where the case claims");
    }
    ctx.finish(true);
}
