//! Audit-round families of the C02 check.
//!
//! * PRODUCERS / KNOBS: the same assembled message goes through every encoding path and every
//!   `BinEncoder` mode (not only `Message::to_vec`): `BinEncodable::to_bytes`, `emit` with
//!   `name_encoding` in {Compressed, Uncompressed, UncompressedLowercase} x `canonical_form` in
//!   {false, true}, the server's `MessageResponse` emitter, `MessageRequest::emit`, an emission
//!   split over two encoders (`BinEncoder::with_offset`), `Edns::emit`, and a second `to_vec`.
//!   What each mode must put on the wire is stated from the documentation of the mode and
//!   RFC 4034 6.2 / RFC 6840 5.1 (`Mode`), not from the code.
//! * REFERENCE-PRODUCED INPUTS: the octets are assembled by the check (RFC RDATA forms, RFC
//!   OPT/TSIG records) in several layouts the RFC permits — uncompressed, names compressed by an
//!   independent compressor (owners + RFC 1035 RDATA names; additionally the RDATA names RFC 3597
//!   forbids to compress on output but decoders accept; pointer-to-pointer chains), OPT at
//!   different positions — and hickory's DECODER must produce the typed message assembled through
//!   the constructors (before, the decoder was only ever compared with hickory's own encoder).
//! * FIELD-BOUNDARY PATTERNS (f7, direction 2): every window of width 1/2/4/6 inside the fixed
//!   parts of every RDATA seed set to {00.., 00..01, 7f ff.., 80 00.., ff..fe, ff..ff}, windows
//!   crossed pairwise within a type and with the {0, 1, max} resizes of its length-prefixed fields.

use hickory_proto::op::{Header, MessageRequest, Queries};
use hickory_proto::serialize::binary::{BinDecodable, BinDecoder, BinEncodable, BinEncoder, NameEncoding};
use hickory_server::zone_handler::MessageResponseBuilder;

use super::*;

// ------------------------------------------------------------------------------------------
// where names sit inside RDATA (RFC layouts) and which rule applies to them

/// Byte ranges of the (uncompressed) names inside the RFC RDATA of `rtype`.
pub fn name_spans(rtype: u16, w: &[u8]) -> Vec<(usize, usize)> {
    fn name_end(w: &[u8], mut p: usize) -> Option<usize> {
        loop {
            let l = *w.get(p)? as usize;
            if l == 0 {
                return Some(p + 1);
            }
            if l & 0xc0 != 0 {
                return None;
            }
            p += 1 + l;
        }
    }
    let mut out = vec![];
    let one = |at: usize, out: &mut Vec<(usize, usize)>| -> Option<usize> {
        let e = name_end(w, at)?;
        out.push((at, e));
        Some(e)
    };
    match rtype {
        2 | 5 | 12 | 65305 | 3 | 4 | 7 | 8 | 9 | 47 | 250 => {
            one(0, &mut out);
        }
        15 => {
            one(2, &mut out);
        }
        6 | 14 => {
            if let Some(e) = one(0, &mut out) {
                one(e, &mut out);
            }
        }
        33 => {
            one(6, &mut out);
        }
        35 => {
            let mut p = 4;
            for _ in 0..3 {
                p += 1 + w.get(p).copied().unwrap_or(0) as usize;
            }
            one(p, &mut out);
        }
        24 | 46 => {
            one(18, &mut out);
        }
        64 | 65 => {
            one(2, &mut out);
        }
        _ => {}
    }
    out
}

#[derive(Clone, Copy, PartialEq, Eq, Debug)]
pub enum NameClass {
    /// NS, CNAME, PTR, MX, SOA: RFC 1035 types, compressible
    Standard,
    /// SRV, NAPTR, SIG, RRSIG: never compressed, lower-cased in the DNSSEC canonical form (RFC 4034 6.2)
    Canonical,
    /// everything else (NSEC per RFC 6840 5.1, SVCB, TSIG, ANAME ...): never compressed, never folded
    Other,
}

pub fn name_class(rtype: u16) -> NameClass {
    match rtype {
        2 | 5 | 12 | 15 | 6 => NameClass::Standard,
        33 | 35 | 24 | 46 => NameClass::Canonical,
        _ => NameClass::Other,
    }
}

/// An encoding path with the wire form it has to produce.
#[derive(Clone, Copy, Debug)]
pub struct Mode {
    pub tag: &'static str,
    /// `BinEncoder::canonical_form`
    pub canonical: bool,
    /// `BinEncoder::name_encoding`: 0 Compressed, 1 Uncompressed, 2 UncompressedLowercase
    pub enc: u8,
}

pub const DEFAULT_MODE: Mode = Mode { tag: "to_vec", canonical: false, enc: 0 };

impl Mode {
    /// (pointers allowed, lower-cased) for owner / question / TSIG key names
    pub fn owner_rule(&self) -> (bool, bool) {
        (self.enc == 0, self.enc == 2)
    }
    /// (pointers allowed, lower-cased) for the names inside RDATA of `rtype`
    pub fn rdata_rule(&self, rtype: u16) -> (bool, bool) {
        match (name_class(rtype), self.canonical) {
            (NameClass::Standard, true) | (NameClass::Canonical, true) => (false, true),
            (NameClass::Standard, false) => self.owner_rule(),
            (NameClass::Canonical, false) | (NameClass::Other, _) => (false, false),
        }
    }
    pub fn folds_case(&self) -> bool {
        self.canonical || self.enc == 2
    }
}

pub fn lower_labels(ls: &[Vec<u8>]) -> Vec<Vec<u8>> {
    ls.iter().map(|l| l.to_ascii_lowercase()).collect()
}

/// RFC RDATA with the name spans lower-cased.
pub fn lower_rdata_names(rtype: u16, w: &[u8]) -> Vec<u8> {
    let mut out = w.to_vec();
    for (a, b) in name_spans(rtype, w) {
        out[a..b].make_ascii_lowercase();
    }
    out
}

// ------------------------------------------------------------------------------------------
// producers

fn emit_with(m: &Message, canonical: bool, enc: u8) -> Result<Vec<u8>, String> {
    let mut buf = Vec::with_capacity(512);
    {
        let mut e = BinEncoder::new(&mut buf);
        e.canonical_form = canonical;
        e.name_encoding = [NameEncoding::Compressed, NameEncoding::Uncompressed, NameEncoding::UncompressedLowercase][enc as usize];
        m.emit(&mut e).map_err(|e| e.to_string())?;
    }
    Ok(buf)
}

fn question_wire(m: &Message, meta: Option<&MetaExpect>) -> Option<Vec<u8>> {
    let q = m.queries.first()?;
    let (qt, qc) = meta.and_then(|x| x.questions.as_ref()).and_then(|v| v.first()).copied().unwrap_or((u16::from(q.query_type), class_num(q.query_class)));
    let mut w = vec![];
    wire::emit_name(&labels_of(&q.name), &mut w);
    w.extend_from_slice(&qt.to_be_bytes());
    w.extend_from_slice(&qc.to_be_bytes());
    Some(w)
}

/// The server's emitter: `MessageResponseBuilder` over the raw question of a request, the
/// sections as iterators (the last authority record travels in the separate `soa` slot).
fn emit_message_response(m: &Message, meta: Option<&MetaExpect>) -> Option<Result<Vec<u8>, String>> {
    if m.queries.len() > 1 {
        return None;
    }
    let queries = match question_wire(m, meta) {
        Some(w) => Some(Queries::read(&mut BinDecoder::new(&w), 1).ok()?),
        None => None,
    };
    let builder = match &queries {
        Some(q) => MessageResponseBuilder::new(q, m.edns.as_ref()),
        None => MessageResponseBuilder::no_queries(m.edns.as_ref()),
    };
    let split = m.authorities.len().saturating_sub(1);
    let mut resp = builder.build(m.metadata, m.answers.iter(), m.authorities[..split].iter(), m.authorities[split..].iter(), m.additionals.iter());
    if let Some(sig) = &m.signature {
        resp.set_signature(sig.clone());
    }
    let mut buf = Vec::with_capacity(512);
    let r = {
        let mut e = BinEncoder::new(&mut buf);
        resp.destructive_emit(&mut e).map(|_| ()).map_err(|e| e.to_string())
    };
    Some(r.map(|_| buf))
}

/// `MessageRequest` (the server's view of a received message): read from the default encoding, emitted again.
fn emit_message_request(bytes: &[u8]) -> Option<Result<Vec<u8>, String>> {
    let mut d = BinDecoder::new(bytes);
    let header = Header::read(&mut d).ok()?;
    if header.counts.queries != 1 {
        return None;
    }
    let req = match MessageRequest::read(&mut d, header) {
        Ok(r) => r,
        Err(e) => return Some(Err(format!("MessageRequest::read rejects Message::to_vec output: {e}"))),
    };
    let mut buf = Vec::with_capacity(512);
    let r = {
        let mut e = BinEncoder::new(&mut buf);
        req.emit(&mut e).map_err(|e| e.to_string())
    };
    Some(r.map(|_| buf))
}

/// Emission split over two encoders: header, questions, answers and authorities through
/// `Message::emit`, then the additional records one by one through an encoder that starts at the
/// end of the buffer (`BinEncoder::with_offset`: "the offset accounts for the proper offset of the
/// pointer"), ARCOUNT patched by hand.
fn emit_split(m: &Message) -> Option<Result<Vec<u8>, String>> {
    if m.additionals.is_empty() || m.edns.is_some() || m.signature.is_some() {
        return None;
    }
    let mut head = m.clone();
    head.additionals.clear();
    let mut buf = match head.to_vec() {
        Ok(b) => b,
        Err(e) => return Some(Err(e.to_string())),
    };
    let at = buf.len() as u32;
    let r = {
        let mut e = BinEncoder::with_offset(&mut buf, at);
        m.additionals.iter().try_for_each(|r| r.emit(&mut e)).map_err(|e| e.to_string())
    };
    let n = (m.additionals.len() as u16).to_be_bytes();
    buf[10] = n[0];
    buf[11] = n[1];
    Some(r.map(|_| buf))
}

pub const KNOB_MODES: [Mode; 5] = [
    Mode { tag: "emit:uncompressed", canonical: false, enc: 1 },
    Mode { tag: "emit:uncompressed-lowercase", canonical: false, enc: 2 },
    Mode { tag: "emit:canonical+compressed", canonical: true, enc: 0 },
    Mode { tag: "emit:canonical+uncompressed", canonical: true, enc: 1 },
    Mode { tag: "emit:canonical+uncompressed-lowercase", canonical: true, enc: 2 },
];

/// Run every non-default producer on `m` (whose default encoding `default_bytes` was judged already).
pub fn judge_producers(m: &Message, default_bytes: &[u8], exp: &[Vec<XRec>; 3], meta: Option<&MetaExpect>, l: &mut Local, case: &dyn Fn() -> Value) {
    let tagged = |tag: &'static str| {
        move || {
            let mut c = case();
            c["producer"] = json!(tag);
            c
        }
    };
    // second step: the same value encodes to the same octets again, through either trait method
    for (tag, again) in [("to_vec-again", catch(|| m.to_vec().map_err(|e| e.to_string()))), ("to_bytes", catch(|| m.to_bytes().map_err(|e| e.to_string())))] {
        l.eval();
        match again {
            Ok(Ok(b)) if b == default_bytes => l.outcome("d1:producer:same-octets"),
            Ok(other) => l.violation(&format!("producer-differs:{tag}"), &format!("{tag} gives other octets than the first Message::to_vec: {:?}", other.map(|b| hex::enc(&b))), &tagged(tag)),
            Err(p) => l.violation(&format!("panic:{}", vcore::short_loc(&p.loc)), &p.msg, &tagged(tag)),
        }
    }
    for mode in KNOB_MODES {
        match catch(|| emit_with(m, mode.canonical, mode.enc)) {
            Err(p) => l.violation(&format!("panic:{}", vcore::short_loc(&p.loc)), &p.msg, &tagged(mode.tag)),
            Ok(Err(e)) => l.violation(&format!("encode-failed:{}", mode.tag), &e, &tagged(mode.tag)),
            Ok(Ok(b)) => judge_d1_bytes(m, &b, exp, meta, &mode, l, &tagged(mode.tag)),
        }
    }
    let others: [(&'static str, Option<Result<Vec<u8>, String>>); 3] = [
        ("message-response", if m.metadata.message_type == MessageType::Response { catch(|| emit_message_response(m, meta)).unwrap_or(Some(Err("panic in the MessageResponse emitter".into()))) } else { None }),
        ("message-request", catch(|| emit_message_request(default_bytes)).unwrap_or(Some(Err("panic in MessageRequest".into())))),
        ("split-with_offset", catch(|| emit_split(m)).unwrap_or(Some(Err("panic in the split emission".into())))),
    ];
    for (tag, r) in others {
        let mode = Mode { tag, ..DEFAULT_MODE };
        match r {
            None => l.outcome("d1:producer:not-applicable"),
            Some(Err(e)) => {
                // a record type the decoder only admits in the additional section stops MessageRequest::read as it stops Message::from_vec
                if tag == "message-request" && exp[0].iter().chain(exp[1].iter()).any(|x| x.rtype == 24) {
                    l.outcome("obs:sig-outside-additional-section-not-decodable");
                } else {
                    l.violation(&format!("encode-failed:{tag}"), &e, &tagged(tag))
                }
            }
            Some(Ok(b)) => judge_d1_bytes(m, &b, exp, meta, &mode, l, &tagged(tag)),
        }
    }
}

// ------------------------------------------------------------------------------------------
// reference-produced inputs

#[derive(Clone, Copy, Debug, PartialEq, Eq)]
pub enum Layout {
    Plain,
    /// owners, later questions and the RDATA names of NS/CNAME/PTR/MX/SOA compressed
    Compressed,
    /// additionally the RDATA names of every other name-bearing type
    CompressedEverywhere,
    /// as `Compressed`, and a name that was written as a bare pointer becomes the target of the next
    /// occurrence (pointer -> pointer -> ... -> labels)
    PointerChains,
}

pub const LAYOUTS: [Layout; 4] = [Layout::Plain, Layout::Compressed, Layout::CompressedEverywhere, Layout::PointerChains];

/// Independent name compressor (RFC 1035 4.1.4): exact (case-sensitive) suffix matches only, so
/// that the expanded name is the one that was written.
struct RefWriter {
    out: Vec<u8>,
    /// (suffix labels, offset)
    table: Vec<(Vec<Vec<u8>>, usize)>,
    chains: bool,
}

impl RefWriter {
    fn name(&mut self, ls: &[Vec<u8>], compress: bool) {
        if !compress {
            // plain names still become targets for later ones
            let mut at = self.out.len();
            for i in 0..ls.len() {
                self.register(ls[i..].to_vec(), at);
                at += 1 + ls[i].len();
            }
            wire::emit_name(&ls.to_vec(), &mut self.out);
            return;
        }
        let start = self.out.len();
        for i in 0..=ls.len() {
            let hit = if i < ls.len() { self.table.iter().rev().find(|(s, _)| s[..] == ls[i..]).map(|(_, o)| *o) } else { None };
            if let Some(off) = hit {
                let at = self.out.len();
                self.out.extend_from_slice(&[0xc0 | (off >> 8) as u8, off as u8]);
                if self.chains && i == 0 && start == at {
                    // the bare pointer is the newest spelling of the whole name
                    self.register(ls.to_vec(), at);
                }
                return;
            }
            if i == ls.len() {
                self.out.push(0);
                return;
            }
            let at = self.out.len();
            self.register(ls[i..].to_vec(), at);
            self.out.push(ls[i].len() as u8);
            self.out.extend_from_slice(&ls[i]);
        }
    }
    fn register(&mut self, suffix: Vec<Vec<u8>>, at: usize) {
        if at < 0x4000 && !suffix.is_empty() {
            self.table.push((suffix, at));
        }
    }
    fn rdata(&mut self, rtype: u16, w: &[u8], layout: Layout) {
        let compress = match layout {
            Layout::Plain => false,
            Layout::Compressed | Layout::PointerChains => name_class(rtype) == NameClass::Standard,
            Layout::CompressedEverywhere => true,
        };
        let at = self.out.len();
        self.out.extend_from_slice(&[0, 0]);
        let mut p = 0;
        for (a, b) in name_spans(rtype, w) {
            self.out.extend_from_slice(&w[p..a]);
            let (ls, _) = wire::read_name(w, a).expect("RFC RDATA name");
            self.name(&ls, compress);
            p = b;
        }
        self.out.extend_from_slice(&w[p..]);
        let len = (self.out.len() - at - 2) as u16;
        self.out[at..at + 2].copy_from_slice(&len.to_be_bytes());
    }
}

/// The message of (m, exp, meta) assembled without hickory: RFC 1035 4.1 framing, RFC RDATA,
/// RFC 6891 OPT (at position `opt_pos` of the additional section: 0 first, 1 last), RFC 8945 TSIG last.
pub fn ref_assemble(m: &Message, exp: &[Vec<XRec>; 3], meta: &MetaExpect, layout: Layout, opt_first: bool) -> Option<Vec<u8>> {
    let (id, flags) = meta.header?;
    let qn = meta.questions.as_ref()?;
    let mut w = RefWriter { out: vec![], table: vec![], chains: layout == Layout::PointerChains };
    let ar = exp[2].len() + meta.opt.is_some() as usize + meta.tsig.is_some() as usize;
    w.out.extend_from_slice(&id.to_be_bytes());
    w.out.extend_from_slice(&flags.to_be_bytes());
    for c in [m.queries.len(), exp[0].len(), exp[1].len(), ar] {
        w.out.extend_from_slice(&(c as u16).to_be_bytes());
    }
    let compress = layout != Layout::Plain;
    for (q, (qt, qc)) in m.queries.iter().zip(qn.iter()) {
        w.name(&labels_of(&q.name), compress);
        w.out.extend_from_slice(&qt.to_be_bytes());
        w.out.extend_from_slice(&qc.to_be_bytes());
    }
    let opt = |w: &mut RefWriter| {
        if let Some(o) = &meta.opt {
            w.out.push(0);
            w.out.extend_from_slice(&41u16.to_be_bytes());
            w.out.extend_from_slice(&o.class.to_be_bytes());
            w.out.extend_from_slice(&o.ttl.to_be_bytes());
            let mut d = vec![];
            for (c, data) in &o.options {
                d.extend_from_slice(&c.to_be_bytes());
                d.extend_from_slice(&(data.len() as u16).to_be_bytes());
                d.extend_from_slice(data);
            }
            w.out.extend_from_slice(&(d.len() as u16).to_be_bytes());
            w.out.extend_from_slice(&d);
        }
    };
    for s in 0..3 {
        if s == 2 && opt_first {
            opt(&mut w);
        }
        for x in &exp[s] {
            w.name(&labels_of(&x.record.name), compress);
            w.out.extend_from_slice(&x.rtype.to_be_bytes());
            w.out.extend_from_slice(&class_num(x.record.dns_class).to_be_bytes());
            w.out.extend_from_slice(&x.record.ttl.to_be_bytes());
            if x.wire.is_empty() {
                w.out.extend_from_slice(&[0, 0]);
            } else {
                w.rdata(x.rtype, &x.wire, layout);
            }
        }
    }
    if !opt_first {
        opt(&mut w);
    }
    if let Some(t) = &meta.tsig {
        w.name(&t.name, compress);
        w.out.extend_from_slice(&[0, 250, 0, 255, 0, 0, 0, 0]);
        w.out.extend_from_slice(&(t.rdata.len() as u16).to_be_bytes());
        w.out.extend_from_slice(&t.rdata);
    }
    if w.out.len() > 65535 {
        return None;
    }
    Some(w.out)
}

/// hickory's decoder against the reference producer: the octets of `ref_assemble` must decode to
/// the message assembled through the constructors; then the decode-first round trip on them.
pub fn judge_ref(m: &Message, exp: &[Vec<XRec>; 3], meta: &MetaExpect, l: &mut Local, case: &dyn Fn() -> Value) {
    // the decoder refuses SIG outside the additional section (logged elsewhere)
    if exp[0].iter().chain(exp[1].iter()).any(|x| x.rtype == 24) {
        return;
    }
    for layout in LAYOUTS {
        for opt_first in [false, true] {
            if opt_first && (meta.opt.is_none() || exp[2].is_empty()) {
                continue;
            }
            let Some(b) = ref_assemble(m, exp, meta, layout, opt_first) else { continue };
            l.eval();
            let rcase = || {
                let mut c = case();
                c["reference"] = json!({"layout": format!("{layout:?}"), "opt_first": opt_first, "octets": hex::enc(&b)});
                c
            };
            // an RFC 1035 obsolete type with compressed names stays opaque in hickory: the expansion is lost by design of "unknown"
            let opaque_compressed = layout != Layout::Plain && exp.iter().flatten().any(|x| matches!(x.rtype, 3 | 4 | 7 | 8 | 9 | 14));
            match catch(|| Message::from_vec(&b)) {
                Err(_) => l.outcome("obs:decode-panic(C01)"),
                Ok(Err(e)) => l.violation(&format!("reference-octets-rejected:{}", c01::entry::err_name(&e)), &format!("the decoder rejects a message assembled from the RFC forms ({layout:?}): {e}"), &rcase),
                Ok(Ok(d)) => {
                    if opaque_compressed {
                        l.outcome("obs:obsolete-rfc1035-type-kept-opaque-with-pointers");
                    } else if let Some(f) = message_diff(m, &d, true) {
                        l.violation(&format!("reference-octets-decode-differently:{f}"), &format!("decode(reference octets, {layout:?}) != the message assembled through the constructors"), &rcase);
                    } else {
                        l.outcome("d1:reference-octets-decode-to-the-assembled-message");
                        let mut t = Tally::default();
                        judge_d2(&b, false, &mut t, l, &rcase);
                    }
                }
            }
        }
    }
}

// ------------------------------------------------------------------------------------------
// f7: field-boundary patterns

pub const PATTERNS: [&str; 6] = ["00..00", "00..01", "7f ff..", "80 00..", "ff..fe", "ff..ff"];

fn pattern(k: usize, width: usize) -> Vec<u8> {
    let mut v = match k {
        0 | 1 => vec![0u8; width],
        2 | 4 | 5 => vec![0xff; width],
        _ => vec![0u8; width],
    };
    match k {
        1 => v[width - 1] = 1,
        2 => v[0] = 0x7f,
        3 => v[0] = 0x80,
        4 => v[width - 1] = 0xfe,
        _ => {}
    }
    v
}

/// Offsets (within the serialised RDATA) and lengths of the fixed parts (`Node::Bytes` at the top
/// level of the layout: integer fields, flag words, addresses).
fn fixed_parts(rd: &[c01::layout::Node]) -> Vec<(usize, usize)> {
    use c01::layout::{serialize, Node};
    let mut out = vec![];
    let mut at = 0;
    for n in rd {
        let mut b = vec![];
        serialize(std::slice::from_ref(n), &mut b);
        if let Node::Bytes(_) = n {
            // the root octet of a name is not an integer field
            if !(b.len() == 1 && b[0] == 0) {
                out.push((at, b.len()));
            }
        }
        at += b.len();
    }
    out
}

/// Calls `f` with one-record messages around `wire` in which windows of the fixed parts carry
/// boundary patterns: all single windows (widths 1, 2, 4, 6 x 6 patterns), pairs of disjoint
/// windows (quick: widths 2 and 4 x patterns {00.., 80 00.., ff..ff}; thorough: everything),
/// and single windows (the quick pair set) x every length-prefixed field resized to {0, 1, 255}.
pub fn boundary_family(rtype: u16, wire: &[u8], thorough: bool, mut f: impl FnMut(&[u8])) -> Option<u64> {
    use c01::layout;
    let rd = layout::rdata_layout(rtype, wire)?;
    let parts = fixed_parts(&rd);
    let mut wins: Vec<(usize, usize, usize)> = vec![]; // (offset, width, pattern)
    for (at, len) in &parts {
        for width in [1usize, 2, 4, 6] {
            if width > *len {
                continue;
            }
            for o in 0..=len - width {
                for k in 0..PATTERNS.len() {
                    wins.push((at + o, width, k));
                }
            }
        }
    }
    let mut msg = vec![];
    let mut count = 0u64;
    let mut send = |r: &[u8], count: &mut u64| {
        families::message_with_rdata(rtype, r, false, &mut msg);
        f(&msg);
        *count += 1;
    };
    let apply = |r: &mut [u8], w: &(usize, usize, usize)| r[w.0..w.0 + w.1].copy_from_slice(&pattern(w.2, w.1));
    for w in &wins {
        let mut r = wire.to_vec();
        apply(&mut r, w);
        send(&r, &mut count);
    }
    let pair_set: Vec<&(usize, usize, usize)> = wins.iter().filter(|w| thorough || (matches!(w.1, 2 | 4) && matches!(w.2, 0 | 3 | 5))).collect();
    for (i, a) in pair_set.iter().enumerate() {
        for b in pair_set.iter().skip(i + 1) {
            if a.0 + a.1 <= b.0 || b.0 + b.1 <= a.0 {
                let mut r = wire.to_vec();
                apply(&mut r, a);
                apply(&mut r, b);
                send(&r, &mut count);
            }
        }
    }
    // windows x resizes: the pattern is applied to the tree's fixed part, then one field is resized
    let quick_set: Vec<&(usize, usize, usize)> = wins.iter().filter(|w| matches!(w.1, 2 | 4) && matches!(w.2, 0 | 3 | 5)).collect();
    let fields = layout::fields(&rd);
    for w in quick_set {
        let mut r = wire.to_vec();
        apply(&mut r, w);
        let Some(tree) = layout::rdata_layout(rtype, &r) else { continue };
        for path in &fields {
            if path.len() != 1 {
                continue;
            }
            for len in [0usize, 1, 255] {
                let t = layout::resize(&tree, path, len, 0xff);
                let mut out = vec![];
                if layout::serialize(&t, &mut out) {
                    send(&out, &mut count);
                }
            }
        }
    }
    Some(count)
}

/// Every type code the decoder models with a dedicated variant must be in the record alphabet
/// (or travel as Edns / signature / be a question-only meta type).
pub fn untyped_gaps(alphabet_types: &std::collections::BTreeSet<u16>) -> Vec<u16> {
    let mut missing = vec![];
    for c in 0..=65535u16 {
        if matches!(RecordType::from(c), RecordType::Unknown(_)) {
            continue;
        }
        // OPT travels as Edns, TSIG as signature; ANY / AXFR / IXFR are question types (RData::read refuses them);
        // ZERO is the deprecated placeholder for "no type"
        if matches!(c, 41 | 250 | 255 | 252 | 251 | 0) {
            continue;
        }
        if !alphabet_types.contains(&c) {
            missing.push(c);
        }
    }
    missing
}
