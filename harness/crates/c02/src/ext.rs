//! Extension families of the C02 check.
//!
//! * EDNS and TSIG are described as data (`EdnsSpec`, `TsigSpec`): the hickory value is assembled
//!   through the public constructors and the OPT / TSIG record octets are written from RFC 6891,
//!   7871, 5001, 6975 and 8945, so the independent walker can judge the encoding of the two
//!   meta records as well (before, only hickory's own decoder did).
//! * value sweeps (direction 1): every value of the small fields a message can carry — all
//!   16 opcodes x 4,096 response codes, all 65,536 question types / classes / record classes /
//!   unknown record types / types in an NSEC bitmap / EDNS payload sizes / option codes / CERT
//!   types / SvcParam keys / TSIG error codes, every EDNS version, Z-flag word, ECS prefix length,
//!   DAU subset, TTL powers of two, TSIG field products.
//! * large seeds (direction 2): single-edit neighbourhoods of messages of 17 KiB .. 64 KiB.

use std::net::{IpAddr, Ipv4Addr, Ipv6Addr};

use hickory_proto::dnssec::rdata::{DNSSECRData, NSEC};
use hickory_proto::dnssec::{Algorithm, SupportedAlgorithms};
use hickory_proto::rr::rdata::cert::{Algorithm as CertAlgorithm, CertType};
use hickory_proto::rr::rdata::opt::{ClientSubnet, EdnsOption, NSIDPayload};
use hickory_proto::rr::rdata::svcb::{SvcParamKey, SvcParamValue, Unknown as SvcUnknown};
use hickory_proto::rr::rdata::tsig::{TsigAlgorithm, TsigError};
use hickory_proto::rr::rdata::{CERT, SVCB, TXT};

use super::*;

// ------------------------------------------------------------------------------------------
// EDNS / TSIG as data

#[derive(Clone, Debug)]
pub enum OptSpec {
    /// DAU (RFC 6975): algorithm numbers
    Dau(Vec<u8>),
    /// Client subnet (RFC 7871): family, full address octets, source and scope prefix length
    Ecs { v6: bool, addr: Vec<u8>, source: u8, scope: u8 },
    Nsid(Vec<u8>),
    Unknown(u16, Vec<u8>),
}

#[derive(Clone, Debug)]
pub struct EdnsSpec {
    #[allow(dead_code)]
    pub tag: String,
    pub payload: u16,
    pub version: u8,
    pub dnssec_ok: bool,
    pub z: u16,
    pub opts: Vec<OptSpec>,
}

impl EdnsSpec {
    pub fn plain(tag: &str) -> EdnsSpec {
        EdnsSpec { tag: tag.into(), payload: 512, version: 0, dnssec_ok: false, z: 0, opts: vec![] }
    }
    pub fn with(tag: &str, opts: Vec<OptSpec>) -> EdnsSpec {
        EdnsSpec { opts, ..EdnsSpec::plain(tag) }
    }
    pub fn build(&self) -> Edns {
        let mut e = Edns::new();
        e.set_max_payload(self.payload).set_version(self.version).set_dnssec_ok(self.dnssec_ok);
        e.flags_mut().z = self.z;
        for o in &self.opts {
            e.options_mut().insert(match o {
                OptSpec::Dau(algs) => {
                    let mut s = SupportedAlgorithms::new();
                    for a in algs {
                        s.set(Algorithm::from_u8(*a));
                    }
                    EdnsOption::DAU(s)
                }
                OptSpec::Ecs { v6, addr, source, scope } => {
                    let ip = if *v6 {
                        let mut o = [0u8; 16];
                        o.copy_from_slice(addr);
                        IpAddr::V6(Ipv6Addr::from(o))
                    } else {
                        IpAddr::V4(Ipv4Addr::new(addr[0], addr[1], addr[2], addr[3]))
                    };
                    EdnsOption::Subnet(ClientSubnet::new(ip, *source, *scope))
                }
                OptSpec::Nsid(d) => EdnsOption::NSID(NSIDPayload::new(d.clone()).expect("nsid")),
                OptSpec::Unknown(c, d) => EdnsOption::Unknown(*c, d.clone()),
            });
        }
        e
    }
    /// (CLASS, TTL, options as (code, data)) of the OPT record, RFC 6891 6.1.2 / 6.1.3.
    pub fn expect(&self, rcode: u16) -> OptExpect {
        let ttl = ((rcode >> 4) as u32) << 24 | (self.version as u32) << 16 | (self.dnssec_ok as u32) << 15 | (self.z & 0x7fff) as u32;
        let options = self
            .opts
            .iter()
            .map(|o| match o {
                OptSpec::Dau(algs) => {
                    let mut a = algs.clone();
                    a.sort();
                    a.dedup();
                    (5u16, a)
                }
                OptSpec::Ecs { v6, addr, source, scope } => {
                    let n = (*source as usize + 7) / 8;
                    let mut d = vec![0, if *v6 { 2 } else { 1 }, *source, *scope];
                    d.extend_from_slice(&addr[..n]);
                    (8u16, d)
                }
                OptSpec::Nsid(d) => (3u16, d.clone()),
                OptSpec::Unknown(c, d) => (*c, d.clone()),
            })
            .collect();
        OptExpect { class: self.payload.max(512), ttl, options }
    }
}

#[derive(Clone, Debug)]
pub struct OptExpect {
    pub class: u16,
    pub ttl: u32,
    pub options: Vec<(u16, Vec<u8>)>,
}

/// Split OPT RDATA into (code, data) per RFC 6891 6.1.2; `None` if the TLV structure is broken.
pub fn parse_opt_rdata(r: &[u8]) -> Option<Vec<(u16, Vec<u8>)>> {
    let mut out = vec![];
    let mut p = 0;
    while p < r.len() {
        if p + 4 > r.len() {
            return None;
        }
        let code = u16::from_be_bytes([r[p], r[p + 1]]);
        let len = u16::from_be_bytes([r[p + 2], r[p + 3]]) as usize;
        if p + 4 + len > r.len() {
            return None;
        }
        out.push((code, r[p + 4..p + 4 + len].to_vec()));
        p += 4 + len;
    }
    Some(out)
}

pub const TSIG_ALGS: [&str; 11] = [
    "HMAC-MD5.SIG-ALG.REG.INT.",
    "gss-tsig.",
    "hmac-sha1.",
    "hmac-sha224.",
    "hmac-sha256.",
    "hmac-sha256-128.",
    "hmac-sha384.",
    "hmac-sha384-192.",
    "hmac-sha512.",
    "hmac-sha512-256.",
    "hmac-sha3-256.Example.",
];

fn tsig_alg(i: usize) -> TsigAlgorithm {
    use TsigAlgorithm::*;
    match i {
        0 => HmacMd5,
        1 => Gss,
        2 => HmacSha1,
        3 => HmacSha224,
        4 => HmacSha256,
        5 => HmacSha256_128,
        6 => HmacSha384,
        7 => HmacSha384_192,
        8 => HmacSha512,
        9 => HmacSha512_256,
        _ => {
            // the form hickory's own decoder produces for a name it does not know: not fully qualified
            let mut n = hn(TSIG_ALGS[10]);
            n.set_fqdn(false);
            Unknown(n)
        }
    }
}

#[derive(Clone, Debug)]
pub struct TsigSpec {
    pub key: &'static str,
    pub alg: usize,
    pub time: u64,
    pub fudge: u16,
    pub mac: Vec<u8>,
    pub oid: u16,
    /// 0 = no error
    pub error: u16,
    pub other: Vec<u8>,
}

/// The enum values are chosen by tables written from the IANA registries, not through hickory's
/// own integer conversions: a variant that hickory maps to another number than the registry
/// (or that one of its two conversion directions forgets) then shows up as a difference.
pub fn tsig_error(code: u16) -> Option<TsigError> {
    match code {
        0 => None,
        16 => Some(TsigError::BadSig),
        17 => Some(TsigError::BadKey),
        18 => Some(TsigError::BadTime),
        22 => Some(TsigError::BadTrunc),
        c => Some(TsigError::Unknown(c)),
    }
}

pub fn op_code(v: u8) -> OpCode {
    match v {
        0 => OpCode::Query,
        2 => OpCode::Status,
        4 => OpCode::Notify,
        5 => OpCode::Update,
        c => OpCode::Unknown(c),
    }
}

pub fn response_code(v: u16) -> ResponseCode {
    use ResponseCode::*;
    match v {
        0 => NoError,
        1 => FormErr,
        2 => ServFail,
        3 => NXDomain,
        4 => NotImp,
        5 => Refused,
        6 => YXDomain,
        7 => YXRRSet,
        8 => NXRRSet,
        9 => NotAuth,
        10 => NotZone,
        // 16 is BADVERS (RFC 6891) and BADSIG (RFC 8945); both variants carry the number 16
        16 => BADVERS,
        17 => BADKEY,
        18 => BADTIME,
        19 => BADMODE,
        20 => BADNAME,
        21 => BADALG,
        22 => BADTRUNC,
        23 => BADCOOKIE,
        c => Unknown(c),
    }
}

pub fn dns_class(v: u16) -> DNSClass {
    match v {
        1 => DNSClass::IN,
        3 => DNSClass::CH,
        4 => DNSClass::HS,
        254 => DNSClass::NONE,
        255 => DNSClass::ANY,
        c => DNSClass::Unknown(c),
    }
}

impl TsigSpec {
    pub fn build(&self) -> Box<Record<TSIG>> {
        let err = tsig_error(self.error);
        let t = TSIG::new(tsig_alg(self.alg), self.time, self.fudge, self.mac.clone(), self.oid, err, self.other.clone());
        let mut r = Record::from_rdata(hn(self.key), 0, t);
        r.dns_class = DNSClass::ANY;
        Box::new(r)
    }
    /// RFC 8945 4.2
    pub fn expect(&self) -> TsigExpect {
        let mut d = wn(TSIG_ALGS[self.alg]);
        d.extend_from_slice(&self.time.to_be_bytes()[2..]);
        d.extend_from_slice(&self.fudge.to_be_bytes());
        d.extend_from_slice(&(self.mac.len() as u16).to_be_bytes());
        d.extend_from_slice(&self.mac);
        d.extend_from_slice(&self.oid.to_be_bytes());
        d.extend_from_slice(&self.error.to_be_bytes());
        d.extend_from_slice(&(self.other.len() as u16).to_be_bytes());
        d.extend_from_slice(&self.other);
        TsigExpect { name: labels(self.key), rdata: d }
    }
}

#[derive(Clone, Debug)]
pub struct TsigExpect {
    pub name: Vec<Vec<u8>>,
    pub rdata: Vec<u8>,
}

#[derive(Clone, Debug, Default)]
pub struct MetaExpect {
    /// (ID, flags word) of RFC 1035 4.1.1
    pub header: Option<(u16, u16)>,
    /// (QTYPE, QCLASS) numbers of the questions
    pub questions: Option<Vec<(u16, u16)>>,
    pub opt: Option<OptExpect>,
    pub tsig: Option<TsigExpect>,
}

/// Judge the OPT / TSIG records the walker found at the end of the additional section.
pub fn check_meta(bytes: &[u8], extra: &[wire::RawRecord], meta: &MetaExpect, lower_owner: bool) -> Option<(String, String)> {
    let mut it = extra.iter();
    if let Some(o) = &meta.opt {
        let Some(r) = it.next() else { return Some(("wire:opt-missing".into(), "no OPT record on the wire".into())) };
        if r.rtype != 41 || !r.name.is_empty() {
            return Some(("wire:opt-owner-type".into(), format!("expected a root-owned OPT, found type {}", r.rtype)));
        }
        if r.class != o.class || r.ttl != o.ttl {
            return Some((
                "wire:opt-fixed-fields".into(),
                format!("OPT CLASS/TTL on the wire {:#06x}/{:#010x}, RFC 6891 form {:#06x}/{:#010x}", r.class, r.ttl, o.class, o.ttl),
            ));
        }
        let raw = &bytes[r.rdata_start..r.rdata_end];
        let norm = |mut v: Vec<(u16, Vec<u8>)>| {
            for (c, d) in v.iter_mut() {
                if *c == 5 {
                    d.sort(); // DAU is a set of algorithm numbers
                }
            }
            v.sort();
            v
        };
        match parse_opt_rdata(raw) {
            Some(got) if norm(got.clone()) == norm(o.options.clone()) => {}
            got => {
                return Some((
                    "wire:opt-options".into(),
                    format!("OPT RDATA {} parses to {:?}, assembled options {:?}", hex::enc(raw), got.map(|g| g.len()), o.options.len()),
                ))
            }
        }
    }
    if let Some(t) = &meta.tsig {
        let Some(r) = it.next() else { return Some(("wire:tsig-missing".into(), "no TSIG record on the wire".into())) };
        let key_name = if lower_owner { super::audit::lower_labels(&t.name) } else { t.name.clone() };
        if r.rtype != 250 || r.name != key_name || r.class != 255 || r.ttl != 0 {
            return Some(("wire:tsig-owner-fixed-fields".into(), format!("TSIG owner/type/class/ttl on the wire differ (type {}, class {}, ttl {})", r.rtype, r.class, r.ttl)));
        }
        let raw = &bytes[r.rdata_start..r.rdata_end];
        if raw != &t.rdata[..] {
            return Some(("wire:tsig-rdata".into(), format!("TSIG RDATA on the wire {} != RFC 8945 form {}", hex::enc(raw), hex::enc(&t.rdata))));
        }
    }
    None
}

/// `impl BinEncodable for Edns` (not used by `Message::emit`, which goes through `Record::from(&Edns)`):
/// the OPT record it writes against the RFC 6891 form (extended rcode bits as stored in the value: 0).
pub fn check_edns_emit(e: &Edns, o: &OptExpect) -> Option<(String, String)> {
    use hickory_proto::serialize::binary::BinEncodable;
    let b = match e.to_bytes() {
        Ok(b) => b,
        Err(err) => return Some(("encode-failed:Edns::emit".into(), err.to_string())),
    };
    let bad = |what: &str| Some(("wire:edns-emit".to_string(), format!("Edns::emit wrote {} ({what})", hex::enc(&b))));
    if b.len() < 11 || b[0] != 0 || b[1..3] != [0, 41] {
        return bad("not a root-owned OPT record");
    }
    let class = u16::from_be_bytes([b[3], b[4]]);
    let ttl = u32::from_be_bytes([b[5], b[6], b[7], b[8]]);
    let rdlen = u16::from_be_bytes([b[9], b[10]]) as usize;
    if class != o.class || ttl != (o.ttl & 0x00ff_ffff) | ((e.rcode_high() as u32) << 24) {
        return bad("CLASS / TTL differ from the RFC 6891 form");
    }
    if b.len() != 11 + rdlen {
        return bad("RDLENGTH does not match the octets written");
    }
    let norm = |mut v: Vec<(u16, Vec<u8>)>| {
        for (c, d) in v.iter_mut() {
            if *c == 5 {
                d.sort();
            }
        }
        v.sort();
        v
    };
    match parse_opt_rdata(&b[11..]) {
        Some(got) if norm(got.clone()) == norm(o.options.clone()) => None,
        _ => bad("options differ from the ones assembled"),
    }
}

/// The EDNS variants of the message product: the shapes of `c01::msgs::edns_variants` plus
/// boundary option lengths, as data.
pub fn edns_specs() -> Vec<EdnsSpec> {
    let v4 = |a: [u8; 4], s: u8, sc: u8| OptSpec::Ecs { v6: false, addr: a.to_vec(), source: s, scope: sc };
    let mut v6addr = vec![0u8; 16];
    v6addr[..5].copy_from_slice(&[0x20, 0x01, 0x0d, 0xb8, 0xab]);
    let mut out = vec![
        EdnsSpec::plain("empty"),
        EdnsSpec { payload: 1232, dnssec_ok: true, ..EdnsSpec::plain("do-1232") },
        EdnsSpec { payload: 65535, version: 255, z: 0x7fff, ..EdnsSpec::plain("version255-z7fff-65535") },
        EdnsSpec { dnssec_ok: true, z: 1, ..EdnsSpec::plain("do-z1") },
        EdnsSpec::with("ecs-v4-20", vec![v4([192, 0, 16, 0], 20, 0)]),
        EdnsSpec::with("dau", vec![OptSpec::Dau(vec![13, 15])]),
        EdnsSpec::with("ecs-v4-24", vec![v4([192, 0, 2, 0], 24, 0)]),
        EdnsSpec::with("ecs-v6-40", vec![OptSpec::Ecs { v6: true, addr: v6addr, source: 40, scope: 48 }]),
        EdnsSpec::with("ecs-v4-0", vec![v4([0, 0, 0, 0], 0, 0)]),
        EdnsSpec::with("nsid", vec![OptSpec::Nsid(b"ns1".to_vec())]),
        EdnsSpec::with("nsid-empty", vec![OptSpec::Nsid(vec![])]),
        EdnsSpec::with("cookie-as-unknown", vec![OptSpec::Unknown(10, vec![1, 2, 3, 4, 5, 6, 7, 8])]),
        EdnsSpec::with("unknown-empty", vec![OptSpec::Unknown(65001, vec![])]),
        EdnsSpec { dnssec_ok: true, ..EdnsSpec::with("padding+nsid", vec![OptSpec::Unknown(12, vec![0; 7]), OptSpec::Nsid(b"x".to_vec())]) },
        EdnsSpec::with("two-ede-same-code", vec![OptSpec::Unknown(15, vec![0, 6]), OptSpec::Unknown(15, vec![0, 15, b'x'])]),
    ];
    out.push(EdnsSpec::with("nsid-256", vec![OptSpec::Nsid(vec![0xaa; 256])]));
    out.push(EdnsSpec::with(
        "all-kinds",
        vec![OptSpec::Dau(vec![5, 7, 8, 10, 13, 14, 15]), v4([255, 255, 255, 255], 32, 32), OptSpec::Nsid(vec![0; 1]), OptSpec::Unknown(0, vec![]), OptSpec::Unknown(65535, vec![0xff; 300])],
    ));
    out
}

pub fn tsig_specs() -> Vec<TsigSpec> {
    vec![
        TsigSpec { key: "key.a.z.", alg: 4, time: 1_700_000_000, fudge: 300, mac: vec![0xab; 32], oid: 0x1234, error: 0, other: vec![] },
        TsigSpec { key: "Key.A.z.", alg: 8, time: 0xffff_ffff_ffff, fudge: 65535, mac: vec![], oid: 0xffff, error: 18, other: vec![0, 0, 0x65, 0x53, 0xf1, 0x00] },
        TsigSpec { key: ".", alg: 0, time: 0, fudge: 0, mac: vec![1], oid: 0, error: 16, other: vec![] },
        TsigSpec { key: "k.", alg: 10, time: 1, fudge: 2, mac: vec![3; 20], oid: 4, error: 5, other: vec![] },
    ]
}

// ------------------------------------------------------------------------------------------
// value sweeps (direction 1)

pub const VALUE_SWEEPS: [&str; 22] = [
    "update-empty-type",
    "opcode-x-rcode",
    "qtype",
    "qclass",
    "record-class",
    "record-ttl",
    "unknown-type",
    "nsec-bitmap-type",
    "cert-type",
    "svcb-unknown-key",
    "edns-payload",
    "edns-version",
    "edns-z-do",
    "edns-option-code",
    "edns-option-length",
    "edns-ecs-v4",
    "edns-ecs-v6",
    "edns-dau-subset",
    "edns-many-options",
    "tsig-error",
    "tsig-product",
    "message-id",
];

pub fn value_sweep_size(name: &str) -> u64 {
    match name {
        "opcode-x-rcode" => 16 * 4096,
        "update-empty-type" | "qtype" | "qclass" | "record-class" | "unknown-type" | "nsec-bitmap-type" | "cert-type" | "svcb-unknown-key" | "edns-payload"
        | "edns-option-code" | "tsig-error" | "edns-z-do" | "message-id" => 65536,
        "record-ttl" => 66 * 3,
        "edns-version" => 256,
        "edns-option-length" => 3 * OPT_LENGTHS.len() as u64,
        "edns-ecs-v4" => 33 * 33,
        "edns-ecs-v6" => 129 * 3,
        "edns-dau-subset" => 128,
        "edns-many-options" => 65,
        "tsig-product" => (TSIG_ALGS.len() * TSIG_TIMES.len() * 3 * TSIG_MACS.len() * 2 * TSIG_ERRS.len() * 3) as u64,
        _ => 0,
    }
}

const OPT_LENGTHS: [usize; 9] = [0, 1, 2, 255, 256, 257, 4096, 32768, 65000];
const TSIG_TIMES: [u64; 6] = [0, 1, 0xffff_ffff, 0x1_0000_0000, 0x8000_0000_0000, 0xffff_ffff_ffff];
const TSIG_MACS: [usize; 5] = [0, 1, 32, 64, 1000];
const TSIG_ERRS: [u16; 8] = [0, 16, 17, 18, 22, 1, 23, 65535];
const DAU_ALGS: [u8; 7] = [5, 7, 8, 10, 13, 14, 15];

fn prefix_mask(len: usize, bits: usize) -> Vec<u8> {
    (0..len).map(|i| if bits >= 8 * (i + 1) { 0xff } else if bits > 8 * i { 0xffu8 << (8 - (bits - 8 * i)) } else { 0 }).collect()
}

/// Element `i` of value sweep `name`: the message, the records expected per section, the meta
/// records expected, or `None` if value `i` has no canonical message-level representation
/// (e.g. `RData::Unknown` with a type code hickory models natively).
pub fn value_case(name: &str, i: u64) -> Option<(Message, [Vec<XRec>; 3], MetaExpect)> {
    let mut m = Message::new(0x4242, MessageType::Response, OpCode::Query);
    let mut exp: [Vec<XRec>; 3] = [vec![], vec![], vec![]];
    let mut meta = MetaExpect::default();
    let a_rec = |owner: &str| xr(owner, 300, 1, RData::A(A::new(192, 0, 2, 7)), vec![192, 0, 2, 7]);
    let mut edns: Option<EdnsSpec> = None;
    let mut tsig: Option<TsigSpec> = None;
    let mut rcode = 0u16;
    m.add_query(Query::new(hn("a.z."), RecordType::A));
    match name {
        "opcode-x-rcode" => {
            let (op, rc) = ((i / 4096) as u8, (i % 4096) as u16);
            m.metadata.op_code = op_code(op);
            m.metadata.response_code = response_code(rc);
            rcode = rc;
            if rc > 15 || i % 2 == 1 {
                edns = Some(EdnsSpec::plain("plain"));
            }
            exp[0].push(a_rec("a.z."));
        }
        // UPDATE message, update section: an empty-RDATA record (RFC 2136 2.5.2 / 2.5.4) of every type code;
        // OPT, SIG and TSIG are meta records that only live in the additional section
        "update-empty-type" => {
            let t = i as u16;
            if matches!(t, 24 | 41 | 250) {
                return None;
            }
            m.metadata.op_code = OpCode::Update;
            let mut r = Record::update0(hn(["z.", "B.a.z."][(i % 2) as usize]), (i % 3) as u32, RecordType::from(t));
            r.dns_class = [DNSClass::ANY, DNSClass::NONE][(i / 2 % 2) as usize];
            exp[1].push(XRec { record: r, rtype: t, wire: vec![] });
        }
        "qtype" => {
            m.queries.clear();
            m.add_query(Query::new(hn("a.z."), RecordType::from(i as u16)));
        }
        "qclass" => {
            m.queries.clear();
            let mut q = Query::new(hn("a.z."), RecordType::A);
            q.set_query_class(dns_class(i as u16));
            m.add_query(q);
        }
        "record-class" => {
            let mut x = a_rec("A.z.");
            x.record.dns_class = dns_class(i as u16);
            exp[(i % 3) as usize].push(x);
        }
        "record-ttl" => {
            let k = i / 3;
            let ttl: u32 = if k < 33 { ((1u64 << k) - 1) as u32 } else { (1u64 << (k - 33)).min(u32::MAX as u64) as u32 };
            let mut x = match i % 3 {
                0 => a_rec("a.z."),
                1 => xr("a.z.", 0, 15, RData::MX(MX::new(1, hn("m.a.z."))), [&[0u8, 1][..], &wn("m.a.z.")].concat()),
                _ => xr("a.z.", 0, 16, RData::TXT(TXT::new(vec!["t".into()])), vec![1, b't']),
            };
            x.record.ttl = ttl;
            exp[0].push(x);
        }
        "unknown-type" => {
            let t = i as u16;
            let rt = RecordType::from(t);
            if !matches!(rt, RecordType::Unknown(_)) {
                return None;
            }
            // the obsolete RFC 1035 types carry names (which a peer may expand): give them valid RDATA
            let data = match t {
                14 => [wn("r.y."), wn("E.y.")].concat(),
                3 | 4 | 7 | 8 | 9 => wn("Host.y."),
                _ => vec![(t >> 8) as u8, t as u8, 0xc0, 0x0c],
            };
            exp[(i % 3) as usize].push(xr("b.a.z.", 1, t, RData::Unknown { code: rt, rdata: NULL::with(data.clone()) }, data));
        }
        "nsec-bitmap-type" => {
            let t = i as u16;
            let w = [&wn("b.a.z.")[..], &c01::alphabet::bitmap(&[t, 46])].concat();
            let d = RData::DNSSEC(DNSSECRData::NSEC(NSEC::new(hn("b.a.z."), [RecordType::from(t), RecordType::RRSIG])));
            exp[1].push(xr("a.z.", 1, 47, d, w));
        }
        "cert-type" => {
            let t = i as u16;
            let w = [&t.to_be_bytes()[..], &[0x12, 0x34, 8, 1, 2, 3]].concat();
            exp[0].push(xr("a.z.", 1, 37, RData::CERT(CERT::new(CertType::from(t), 0x1234, CertAlgorithm::from(8), vec![1, 2, 3])), w));
        }
        "svcb-unknown-key" => {
            let k = i as u16;
            let key = SvcParamKey::from(k);
            if !matches!(key, SvcParamKey::Key(_) | SvcParamKey::Unknown(_)) {
                return None;
            }
            // odd keys carry an empty value as the LAST parameter of the RDATA (exactly 4 octets remain for it)
            let val: Vec<u8> = if k % 2 == 1 { vec![] } else { vec![0xc0, 0x0c] };
            let w = [&[0u8, 1, 0][..], &k.to_be_bytes(), &(val.len() as u16).to_be_bytes(), &val].concat();
            let d = RData::SVCB(SVCB::new(1, hn("."), vec![(key, SvcParamValue::Unknown(SvcUnknown(val)))]));
            exp[0].push(xr("a.z.", 1, 64, d, w));
        }
        "edns-payload" => edns = Some(EdnsSpec { payload: i as u16, ..EdnsSpec::plain("p") }),
        "edns-version" => edns = Some(EdnsSpec { version: i as u8, ..EdnsSpec::plain("v") }),
        "edns-z-do" => edns = Some(EdnsSpec { dnssec_ok: i & 0x8000 != 0, z: (i & 0x7fff) as u16, ..EdnsSpec::plain("z") }),
        "edns-option-code" => {
            let c = i as u16;
            // codes hickory models with a typed variant have their own sweeps
            if matches!(c, 3 | 5 | 8) {
                return None;
            }
            let second = if matches!(c ^ 0x0101, 3 | 5 | 8) { 100 } else { c ^ 0x0101 };
            edns = Some(EdnsSpec::with("code", vec![OptSpec::Unknown(c, vec![c as u8]), OptSpec::Unknown(second, vec![])]));
        }
        "edns-option-length" => {
            let len = OPT_LENGTHS[(i / 3) as usize];
            let data: Vec<u8> = (0..len).map(|j| (j % 253) as u8).collect();
            edns = Some(EdnsSpec::with(
                "len",
                vec![match i % 3 {
                    0 => OptSpec::Nsid(data),
                    1 => OptSpec::Unknown(12, data),
                    _ => OptSpec::Unknown(65534, data),
                }],
            ));
        }
        "edns-ecs-v4" => {
            let (source, scope) = ((i / 33) as u8, (i % 33) as u8);
            edns = Some(EdnsSpec::with("ecs4", vec![OptSpec::Ecs { v6: false, addr: prefix_mask(4, source as usize), source, scope }]));
        }
        "edns-ecs-v6" => {
            let source = (i / 3) as u8;
            let scope = [0, source, 128][(i % 3) as usize];
            edns = Some(EdnsSpec::with("ecs6", vec![OptSpec::Ecs { v6: true, addr: prefix_mask(16, source as usize), source, scope }]));
        }
        "edns-dau-subset" => {
            let algs: Vec<u8> = DAU_ALGS.iter().enumerate().filter(|(b, _)| i & (1 << b) != 0).map(|(_, a)| *a).collect();
            edns = Some(EdnsSpec::with("dau", vec![OptSpec::Dau(algs)]));
        }
        "edns-many-options" => {
            edns = Some(EdnsSpec::with("many", (0..i).map(|j| OptSpec::Unknown(100 + (j % 7) as u16, vec![j as u8; (j % 4) as usize])).collect()));
        }
        "tsig-error" => {
            tsig = Some(TsigSpec { key: "key.a.z.", alg: 4, time: 1_700_000_000, fudge: 300, mac: vec![7; 32], oid: 1, error: i as u16, other: vec![] });
        }
        "tsig-product" => {
            let od = Odometer::new(&[TSIG_ALGS.len() as u64, TSIG_TIMES.len() as u64, 3, TSIG_MACS.len() as u64, 2, TSIG_ERRS.len() as u64, 3]);
            let d = od.get(i);
            tsig = Some(TsigSpec {
                key: ["key.a.z.", "KEY.A.Z.", "."][(i % 3) as usize],
                alg: d[0] as usize,
                time: TSIG_TIMES[d[1] as usize],
                fudge: [0u16, 300, 65535][d[2] as usize],
                mac: vec![0x5a; TSIG_MACS[d[3] as usize]],
                oid: [0u16, 0xffff][d[4] as usize],
                error: TSIG_ERRS[d[5] as usize],
                other: vec![0xee; [0usize, 6, 255][d[6] as usize]],
            });
            if i % 2 == 0 {
                edns = Some(EdnsSpec::plain("plain"));
            }
        }
        "message-id" => {
            m.metadata.id = i as u16;
            m.metadata.message_type = if i % 2 == 0 { MessageType::Query } else { MessageType::Response };
        }
        _ => return None,
    }
    for x in &exp[0] {
        m.add_answer(x.record.clone());
    }
    for x in &exp[1] {
        m.add_authority(x.record.clone());
    }
    for x in &exp[2] {
        m.add_additional(x.record.clone());
    }
    let (id, qr, op) = match name {
        "message-id" => (i as u16, (i % 2) as u16, 0u16),
        "opcode-x-rcode" => (0x4242, 1, (i / 4096) as u16),
        "update-empty-type" => (0x4242, 1, 5),
        _ => (0x4242, 1, 0),
    };
    meta.header = Some((id, qr << 15 | op << 11 | (rcode & 0xf)));
    meta.questions = Some(vec![match name {
        "qtype" => (i as u16, 1),
        "qclass" => (1, i as u16),
        _ => (1, 1),
    }]);
    if let Some(e) = &edns {
        m.set_edns(e.build());
        meta.opt = Some(e.expect(rcode));
    }
    if let Some(t) = &tsig {
        m.set_signature(t.build());
        meta.tsig = Some(t.expect());
    }
    Some((m, exp, meta))
}

// ------------------------------------------------------------------------------------------
// large seeds (direction 2)

pub struct LargeSeed {
    pub tag: &'static str,
    pub bytes: Vec<u8>,
}

/// Messages of 17 KiB .. 64 KiB: (0) a zone-transfer-like response, several hundred records of
/// every alphabet type under owners that share suffixes; (1) three 12 KiB opaque records first, so
/// that every later name first occurs beyond the 14-bit pointer range; (2) a hand-assembled,
/// uncompressed message just below 65,535 octets.
pub fn large_seeds(al: &Alpha, which: &[usize]) -> Vec<LargeSeed> {
    let mut out = vec![];
    let recs = &al.levels[0];
    for &w in which {
        match w {
            0 | 1 => {
                let mut m = Message::new(0x1a26, MessageType::Response, OpCode::Query);
                m.metadata.authoritative = true;
                m.add_query(Query::new(hn("a.z."), RecordType::AXFR));
                if w == 1 {
                    for k in 0..3u8 {
                        let blob: Vec<u8> = (0..12_000usize).map(|j| (j as u8) ^ k).collect();
                        m.add_answer(Record::from_rdata(hn("blob.z."), 1, RData::NULL(NULL::with(blob))));
                    }
                }
                let n = if w == 0 { 440 } else { 420 };
                for i in 0..n {
                    let base = &recs[i % recs.len()].record;
                    if base.record_type() == RecordType::SIG {
                        continue;
                    }
                    let mut r = base.clone();
                    r.name = hn(&format!("h{}.{}", i % 97, ["a.z.", "A.z.", "b.a.z.", "z."][i % 4]));
                    m.add_answer(r);
                }
                // an encoder failure on these valid messages is reported by the caller (empty octets)
                out.push(LargeSeed { tag: if w == 0 { "axfr-like" } else { "names-beyond-3fff" }, bytes: m.to_vec().unwrap_or_default() });
            }
            _ => {
                let mut rrs = vec![];
                let mut size = 12 + 8;
                let mut i = 0usize;
                while size < 65_000 {
                    let e = &al.entries[i % al.entries.len()];
                    i += 1;
                    if e.rtype == 24 {
                        continue;
                    }
                    let rr = c01::msgs::raw_rr(["h.a.z.", "H.A.Z.", "x.b.a.z."][i % 3], e.rtype, 1, 60, &e.wire);
                    size += rr.owner.len() + 10 + rr.rdata.len();
                    rrs.push(rr);
                }
                rrs.pop();
                out.push(LargeSeed { tag: "uncompressed-64k", bytes: c01::msgs::assemble(0x64aa, 0x8400, &[(wn("a.z."), 252, 1)], [&rrs, &[], &[]]) });
            }
        }
    }
    out
}

/// Structure-aware single edits of a large seed at offsets `lo..hi`: every 16-bit window set to
/// the eight boundary values of the small-seed family; with `subs` also every octet replaced by
/// every `S` value and every truncation. `f` gets the edited message and a replayable descriptor.
pub fn large_edits_range(seed: &[u8], lo: usize, hi: usize, subs: bool, mut f: impl FnMut(&[u8], Value)) -> u64 {
    let n = seed.len();
    let mut count = 0;
    let mut buf = seed.to_vec();
    let l = n as u32;
    let vals: [u32; 8] = [0, 1, l.saturating_sub(1) & 0xffff, l & 0xffff, (l + 1) & 0xffff, 0x3fff, 0x4000, 0xffff];
    for i in lo..hi.min(n - 1) {
        let (a, b) = (seed[i], seed[i + 1]);
        for v in vals {
            let be = (v as u16).to_be_bytes();
            if be != [a, b] {
                buf[i] = be[0];
                buf[i + 1] = be[1];
                f(&buf, json!({"kind": "window", "at": i, "bytes": [be[0], be[1]]}));
                count += 1;
            }
        }
        buf[i] = a;
        buf[i + 1] = b;
    }
    if subs {
        for i in lo..hi.min(n) {
            let o = seed[i];
            for &v in &S {
                if v != o {
                    buf[i] = v;
                    f(&buf, json!({"kind": "sub", "at": i, "bytes": [v]}));
                    count += 1;
                }
            }
            buf[i] = o;
        }
        for cut in lo..hi.min(n) {
            f(&seed[..cut], json!({"kind": "cut", "at": cut}));
            count += 1;
        }
    }
    count
}
