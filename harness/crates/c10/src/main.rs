//! C10 — authoritative answers follow the RFC 1034 section 4.3.2 algorithm (with RFC 4592).
//!
//! E-ENUM: every zone of the small universe (DESIGN 5.1) x every query name in and around the
//! zone x qtypes {A,AAAA,MX,NS,CNAME,SOA,DS,TXT,ANY}; each query goes in wire form through
//! `vsim::serve` -> real `Catalog::handle_request` -> real `InMemoryZoneHandler`, once against the
//! unsigned zone (DO=0) and once each against the NSEC- and NSEC3-signed zone (DO=1, signed by the
//! real server code). The response is compared with `vref::zone::resolve` ONLY on what the
//! property statement fixes:
//!
//!  * rcode; the set of answer RRs (CNAME chain followed inside the zone, owner rewritten for
//!    wildcard synthesis);
//!  * referral: empty answer and the NS RRset of the cut that ends the zone's authority in the
//!    authority section; no RR from at/below a cut in the answer section;
//!  * wildcard synthesis from `*.<closest encloser>` only (RFC 4592 3.3.1);
//!  * NODATA (incl. empty non-terminals) vs NXDOMAIN, SOA in the authority section;
//!  * DO=1 on a signed zone: every authoritative RRset in answer/authority has an RRSIG covering
//!    it; negative and wildcard answers carry at least one NSEC/NSEC3.
//!
//! Not judged (statement silent): AA, additional section, record order, contents of ANY answers
//! beyond "RRs of the right node", NS/ANY queries for a delegation point itself, NS at a wildcard
//! owner (excluded from the grammar, RFC 4592 4.2), rcode/authority after a CNAME chain, DS/NSEC
//! in referrals, CNAME chains cut after >= 8 hops.
//!
//! Violation keys are `<clause>:<scene>` where the scene is the abstract local configuration:
//! status of the name (data / ent / absent, `*` label), closest-encloser level, what the
//! reference expects, what the response carried (which wildcard level supplied the data) and
//! `hw` = the wildcard level hickory's known bottom-up search (upstream issue #2905) would pick.

use std::collections::{BTreeMap, BTreeSet};

use hickory_proto::dnssec::rdata::DNSSECRData;
use hickory_proto::op::Message;
use hickory_proto::rr::{RData as HRData, Record};
use serde_json::{json, Value};
use vcore::{fnv_str, Ctx, Local};
use vref::zone::{self as rz, Name, NoDataKind, NodeStatus, Resolution, Rr, Step, Zone};
use vzone::{Kind, RecSpec, Signing, ZoneSpec};

mod ctor;

const QTYPES: [u16; 9] = [rz::T_A, rz::T_AAAA, rz::T_MX, rz::T_NS, rz::T_CNAME, rz::T_SOA, rz::T_DS, rz::T_TXT, rz::T_ANY];

fn is_dnssec_type(t: u16) -> bool {
    matches!(t, rz::T_RRSIG | rz::T_NSEC | rz::T_NSEC3 | rz::T_NSEC3PARAM | rz::T_DNSKEY)
}

// ------------------------------------------------------------------------------------------
// observation

#[derive(Debug, Clone)]
struct Sig {
    owner: Name,
    covered: u16,
    labels: u8,
}

#[derive(Debug, Clone)]
struct Obs {
    rcode: String,
    aa: bool,
    tc: bool,
    answer: Vec<Rr>,
    answer_sigs: Vec<Sig>,
    authority: Vec<Rr>,
    authority_sigs: Vec<Sig>,
}

fn split(records: &[Record]) -> (Vec<Rr>, Vec<Sig>) {
    let mut rrs = vec![];
    let mut sigs = vec![];
    for r in records {
        match &r.data {
            HRData::DNSSEC(DNSSECRData::RRSIG(s)) => sigs.push(Sig {
                owner: vzone::ref_name(&r.name),
                covered: s.input().type_covered.into(),
                labels: s.input().num_labels,
            }),
            _ => rrs.push(vzone::ref_rr(r)),
        }
    }
    (rrs, sigs)
}

fn observe(m: &Message) -> Obs {
    let (answer, answer_sigs) = split(&m.answers);
    let (authority, authority_sigs) = split(&m.authorities);
    Obs {
        rcode: format!("{:?}", m.metadata.response_code).to_uppercase(),
        aa: m.metadata.authoritative,
        tc: m.metadata.truncation,
        answer,
        answer_sigs,
        authority,
        authority_sigs,
    }
}

// ------------------------------------------------------------------------------------------
// scenes

/// Level of a wildcard owner relative to `name`: `*.parent(name)` is up1, `*.grandparent` up2, ...
fn up_level(name: &Name, wildcard: &Name) -> usize {
    name.num_labels() + 1 - wildcard.num_labels()
}

fn wildcard_at(name: &Name, j: usize) -> Name {
    name.suffix(name.num_labels() - j).wildcard_child()
}

fn depth_in(zone: &Zone, name: &Name) -> usize {
    name.num_labels().saturating_sub(zone.origin.num_labels())
}

/// What the KNOWN deviation (upstream issue #2905: the in-memory store searches bottom-up for the
/// first wildcard that owns the type or a CNAME, whether or not the name exists or a closer name
/// blocks it, and never for a query name that itself starts with `*`) predicts for `name`.
/// It is only used to label violations (`hw=ok` / `hw=differs`), never to excuse one.
#[derive(Clone, Copy, PartialEq, Eq, Debug)]
enum Pred {
    Exact,
    Synth(usize),
    Nothing,
}

fn predicted(zone: &Zone, name: &Name, qtype: u16) -> Pred {
    // ANY is replaced by a type present at the name, or A if the name owns nothing
    let t = if qtype == rz::T_ANY {
        let ts = zone.types_at(name);
        if !ts.is_empty() {
            return Pred::Exact;
        }
        rz::T_A
    } else {
        qtype
    };
    if zone.has(name, t) || zone.has(name, rz::T_CNAME) {
        return Pred::Exact;
    }
    if name.is_wildcard() {
        return Pred::Nothing;
    }
    for j in 1..=depth_in(zone, name) {
        let w = wildcard_at(name, j);
        if zone.has(&w, t) || zone.has(&w, rz::T_CNAME) {
            return Pred::Synth(j);
        }
    }
    Pred::Nothing
}

fn exp_desc(zone: &Zone, name: &Name, s: &Step) -> String {
    match s {
        Step::OutOfZone => "OUT".into(),
        Step::Referral { cut } => {
            // more than one NS owner on the path: the lower ones are occluded data below the cut
            let nested = name.path_below(cut).iter().any(|p| zone.has(p, rz::T_NS));
            if nested { "REFERRAL(nested)".into() } else { "REFERRAL".into() }
        }
        Step::Data { source, .. } if source == name => "DATA".into(),
        Step::Data { .. } => "SYNTH".into(),
        Step::Cname { source, .. } if source == name => "CNAME".into(),
        Step::Cname { .. } => "SYNTHCNAME".into(),
        Step::NoData(NoDataKind::OtherData) => "NODATA(other)".into(),
        Step::NoData(NoDataKind::Ent) => "NODATA(ent)".into(),
        Step::NoData(NoDataKind::Wildcard { .. }) => "NODATA(wild)".into(),
        Step::NoData(NoDataKind::WildcardEnt { .. }) => "NODATA(wildent)".into(),
        Step::NxDomain { .. } => "NXDOMAIN".into(),
    }
}

/// Where the RRs that the response carries for `name` come from in the zone.
#[derive(Clone, Debug)]
struct Got {
    text: String,
    /// what it corresponds to in terms of `Pred`
    pred: Option<Pred>,
}

/// Relation of wildcard level j to the rightful source of synthesis of `name`.
fn level_text(zone: &Zone, name: &Name, j: usize) -> &'static str {
    if zone.status(name) != NodeStatus::Absent {
        return "up"; // the name exists: no wildcard applies at all
    }
    let k = name.num_labels() - zone.closest_encloser(name).num_labels();
    if j == k {
        "ce"
    } else {
        "above-ce"
    }
}

fn got_desc(zone: &Zone, name: &Name, qtype: u16, rrs: &[&Rr]) -> Got {
    if rrs.is_empty() {
        return Got { text: "EMPTY".into(), pred: Some(Pred::Nothing) };
    }
    let depth = depth_in(zone, name);
    if qtype == rz::T_ANY {
        let all: BTreeSet<(u16, rz::RData)> = rrs.iter().map(|r| (r.rtype, r.rdata.clone())).collect();
        let node = |o: &Name| -> BTreeSet<(u16, rz::RData)> { zone.rrs_at(o).into_iter().map(|r| (r.rtype, r.rdata)).collect() };
        if all.is_subset(&node(name)) {
            return Got { text: "DATA".into(), pred: Some(Pred::Exact) };
        }
        for j in 1..=depth {
            if all.is_subset(&node(&wildcard_at(name, j))) {
                return Got { text: format!("SYNTH@{}", level_text(zone, name, j)), pred: Some(Pred::Synth(j)) };
            }
        }
        return Got { text: "OTHER".into(), pred: None };
    }
    let types: BTreeSet<u16> = rrs.iter().map(|r| r.rtype).collect();
    let mut parts: Vec<String> = vec![];
    let mut pred: Option<Pred> = None;
    let mut first = true;
    for t in types {
        let set: BTreeSet<rz::RData> = rrs.iter().filter(|r| r.rtype == t).map(|r| r.rdata.clone()).collect();
        let label = if t == qtype {
            Some("")
        } else if t == rz::T_CNAME {
            Some("CNAME")
        } else {
            None
        };
        let mut p: Option<Pred> = None;
        let mut text: Option<String> = None;
        if let Some(label) = label {
            if zone.rrset(name, t) == Some(&set) {
                text = Some(if label.is_empty() { "DATA".into() } else { "CNAME".into() });
                p = Some(Pred::Exact);
            } else {
                for j in 1..=depth {
                    if zone.rrset(&wildcard_at(name, j), t) == Some(&set) {
                        text = Some(format!("SYNTH{label}@{}", level_text(zone, name, j)));
                        p = Some(Pred::Synth(j));
                        break;
                    }
                }
            }
        }
        if text.is_none() && t == rz::T_NS && zone.rrset(name, t) == Some(&set) {
            text = Some("NS".into());
        }
        parts.push(text.unwrap_or_else(|| format!("OTHER({})", rz::type_name(t))));
        if first {
            pred = p;
            first = false;
        } else if p != pred {
            // mixed provenance: take the synthesised part (CNAME sorts before most types)
            pred = pred.or(p);
        }
    }
    Got { text: parts.join("+"), pred }
}

struct SceneCtx<'a> {
    zone: &'a Zone,
    qtype: u16,
}

impl SceneCtx<'_> {
    /// `<clause>:q=<status>[*]:exp=..:got=..:hw=<ok|differs|->`
    fn key(&self, clause: &str, name: &Name, exp: &str, got: &str, got_pred: Option<Pred>) -> String {
        let st = match self.zone.status(name) {
            NodeStatus::Data => "data",
            NodeStatus::Ent => "ent",
            NodeStatus::Absent => "absent",
        };
        let in_zone = name.strictly_below(&self.zone.origin);
        let hw = if !in_zone || exp.starts_with("REFERRAL") {
            "-"
        } else {
            match got_pred {
                Some(p) if p == predicted(self.zone, name, self.qtype) => "ok",
                _ => "differs",
            }
        };
        format!("{clause}:q={st}{}:exp={exp}:got={got}:hw={hw}", if name.is_wildcard() { "*" } else { "" })
    }
}

// ------------------------------------------------------------------------------------------
// the oracle

struct Verdict {
    key: String,
    what: String,
}

fn v(key: String, what: String) -> Option<Verdict> {
    Some(Verdict { key, what })
}

/// Facts about the zone as a whole that DNSSEC scenes need.
struct ZoneFacts {
    /// number of owner names that get an NSEC / NSEC3 record (authoritative names incl. cuts)
    denial_owners: usize,
}

/// Compare one response with the reference resolution. Returns the first deviation.
#[allow(clippy::too_many_arguments)]
fn judge(
    zone: &Zone,
    facts: &ZoneFacts,
    qname: &Name,
    qtype: u16,
    res: &Resolution,
    obs: &Obs,
    signing: &Signing,
    do_judged: bool,
    l: &mut Local,
) -> Option<Verdict> {
    let sc = SceneCtx { zone, qtype };
    // the DNSSEC clauses of the statement apply "with DO set on a signed zone"
    let signed = do_judged;
    if signing.is_signed() && !do_judged {
        // DO clear (or no OPT) against a signed zone: the statement is silent about DNSSEC records
        // here; whether any are sent is only logged
        let dnssec_rrs = obs.answer_sigs.len() + obs.authority_sigs.len() + obs.authority.iter().filter(|r| r.rtype == rz::T_NSEC || r.rtype == rz::T_NSEC3).count();
        if dnssec_rrs == 0 {
            l.outcome("obs:do=0-on-signed-zone:no-dnssec-records");
        } else {
            let what = if !obs.answer_sigs.is_empty() { "rrsig-in-answer" } else if !obs.authority_sigs.is_empty() { "rrsig-in-authority" } else { "nsec-in-authority" };
            l.outcome_sample(&format!("obs:do=0-on-signed-zone:dnssec-records-sent:{what}:t={}", rz::type_name(qtype)), || json!({"qname": qname.to_string(), "qtype": qtype}));
        }
    }
    let tn = rz::type_name(qtype);
    let first = &res.first().1;
    if matches!(first, Step::OutOfZone) {
        l.outcome(&format!("out-of-zone:{}", obs.rcode));
        return None;
    }
    if obs.tc {
        l.outcome("obs:tc-set");
    }
    if !matches!(obs.rcode.as_str(), "NOERROR" | "NXDOMAIN") {
        return v(
            sc.key("rcode", qname, &exp_desc(zone, qname, first), &obs.rcode, None),
            format!("rcode {} for an in-zone query", obs.rcode),
        );
    }

    // duplicates in the answer section (RFC 2181 5: an RRset cannot contain the same RR twice)
    {
        let mut seen = BTreeSet::new();
        for r in &obs.answer {
            if !seen.insert(r) {
                return v("answer-duplicate-rr".into(), format!("answer section repeats {r}"));
            }
        }
    }

    // ---- walk the observed answer section along the CNAME chain
    let plain: Vec<&Rr> = obs.answer.iter().filter(|r| !is_dnssec_type(r.rtype)).collect();
    let mut used = vec![false; plain.len()];
    let mut cur = qname.clone();
    let mut seen_names = BTreeSet::new();
    let mut i = 0usize;
    let mut unjudged_tail = false;
    loop {
        seen_names.insert(cur.clone());
        let here: Vec<usize> = (0..plain.len()).filter(|k| !used[*k] && plain[*k].owner == cur).collect();
        let here_rrs: Vec<&Rr> = here.iter().map(|k| plain[*k]).collect();
        let Some((_, exp_step)) = res.steps.get(i) else { break };
        let exp = exp_desc(zone, &cur, exp_step);
        let got = got_desc(zone, &cur, qtype, &here_rrs);
        let hop = if i > 0 { format!(" (hop {i} of the CNAME chain from {qname})") } else { String::new() };
        match exp_step {
            Step::Data { rtype, rdata, .. } => {
                if qtype == rz::T_ANY {
                    // RFC 8482: the server may pick; only "RRs of the matched node" is judged, and
                    // what else the server adds (e.g. a chased CNAME) is not
                    let want = match exp_step {
                        Step::Data { source, .. } if *source == cur => Pred::Exact,
                        Step::Data { source, .. } => Pred::Synth(up_level(&cur, source)),
                        _ => Pred::Nothing,
                    };
                    if !here_rrs.is_empty() && got.pred != Some(want) {
                        return v(
                            sc.key("answer", &cur, &exp, &got.text, got.pred),
                            format!("{cur} ANY: expected RRs of the matched node ({exp}), answer has {} {here_rrs:?}", got.text),
                        );
                    }
                    unjudged_tail = true;
                } else {
                    if here_rrs.is_empty() && i >= 8 {
                        l.outcome("obs:cname-chain-cut-after-8-hops");
                        unjudged_tail = true;
                        break;
                    }
                    let got_set: BTreeSet<rz::RData> = here_rrs.iter().filter(|r| r.rtype == *rtype).map(|r| r.rdata.clone()).collect();
                    if got_set != *rdata || here_rrs.iter().any(|r| r.rtype != *rtype) {
                        return v(
                            sc.key("answer", &cur, &exp, &got.text, got.pred),
                            format!("{cur} {tn}{hop}: expected {exp} {rdata:?}, answer has {} {here_rrs:?}", got.text),
                        );
                    }
                }
                for k in here {
                    used[k] = true;
                }
                break;
            }
            Step::Cname { target, .. } => {
                let ok = here_rrs.len() == 1 && here_rrs[0].rtype == rz::T_CNAME && here_rrs[0].rdata == rz::RData::Cname(target.clone());
                if !ok {
                    if here_rrs.is_empty() && i >= 8 {
                        l.outcome("obs:cname-chain-cut-after-8-hops");
                        unjudged_tail = true;
                        break;
                    }
                    return v(
                        sc.key("answer", &cur, &exp, &got.text, got.pred),
                        format!("{cur} {tn}{hop}: expected {exp} -> {target}, answer has {} {here_rrs:?}", got.text),
                    );
                }
                for k in here {
                    used[k] = true;
                }
                if qtype == rz::T_CNAME || qtype == rz::T_ANY {
                    unjudged_tail = qtype == rz::T_ANY;
                    break;
                }
                if seen_names.contains(target) {
                    break; // loop closed
                }
                cur = target.clone();
                i += 1;
            }
            Step::Referral { cut } => {
                // the delegation point itself asked for NS / ANY: answering with the NS RRset and
                // answering with a referral are both defensible (the statement lists exact match
                // first); not judged
                if *cut == cur && (qtype == rz::T_NS || qtype == rz::T_ANY) {
                    l.outcome(if here_rrs.is_empty() { "obs:ns-at-cut:referral" } else { "obs:ns-at-cut:answer" });
                    return None;
                }
                let rest: Vec<&Rr> = (0..plain.len()).filter(|k| !used[*k]).map(|k| plain[k]).collect();
                let rest_owners: BTreeSet<&Name> = rest.iter().map(|r| &r.owner).collect();
                if !rest.is_empty() && rest.iter().all(|r| r.rtype == rz::T_NS) && rest_owners.len() == 1 {
                    // an NS RRset from the path sits in the ANSWER section instead of a referral
                    let o = &rest[0].owner;
                    let rel = if o == cut { Some("CUT") } else if o.strictly_below(cut) { Some("below-cut") } else { None };
                    if let Some(rel) = rel {
                        if i > 0 {
                            return v(
                                format!("answer:cname-into-cut:exp=STOP-AT-CUT:got=NS-OF-{rel}-IN-ANSWER"),
                                format!("{qname} {tn}: the CNAME target {cur} lies at/below the cut {cut}; the NS RRset of {o} is in the ANSWER section"),
                            );
                        }
                        if *o != cur {
                            return v(
                                format!("answer:exp={exp}:got=NS-OF-{rel}-IN-ANSWER:t={}", if qtype == rz::T_NS || qtype == rz::T_ANY { tn.as_str() } else { "other" }),
                                format!("{qname} {tn}: below the cut {cut} a referral is due; the NS RRset of {o} is in the ANSWER section (owner != qname)"),
                            );
                        }
                    }
                }
                if !here_rrs.is_empty() {
                    let types: BTreeSet<String> = here_rrs.iter().map(|r| rz::type_name(r.rtype)).collect();
                    let g = format!("{}({})", got.text, types.into_iter().collect::<Vec<_>>().join("+"));
                    return v(
                        sc.key("answer", &cur, &exp, &g, got.pred),
                        format!("{cur} {tn}{hop}: expected a referral at {cut}, answer has data from at/below the cut: {here_rrs:?}"),
                    );
                }
                break;
            }
            Step::OutOfZone | Step::NoData(_) | Step::NxDomain { .. } => {
                if !here_rrs.is_empty() {
                    return v(
                        sc.key("answer", &cur, &exp, &got.text, got.pred),
                        format!("{cur} {tn}{hop}: expected {exp}, answer has {} {here_rrs:?}", got.text),
                    );
                }
                break;
            }
        }
    }
    // leftover answer RRs that are not on the chain
    let leftover: Vec<&Rr> = (0..plain.len()).filter(|k| !used[*k]).map(|k| plain[k]).collect();
    if !leftover.is_empty() && !unjudged_tail {
        let t: BTreeSet<String> = leftover.iter().map(|r| rz::type_name(r.rtype)).collect();
        let below = leftover.iter().any(|r| zone.cut_on_path(&r.owner).is_some());
        return v(
            format!("answer-extra-rr:{}{}", t.into_iter().collect::<Vec<_>>().join("+"), if below { ":at-or-below-cut" } else { "" }),
            format!("answer section carries RRs that are not on the CNAME chain from {qname}: {leftover:?}"),
        );
    }
    // no data from at/below a cut in the answer section (DS at the cut is parent-side data)
    for r in &plain {
        if let Some(cut) = zone.cut_on_path(&r.owner) {
            if r.rtype == rz::T_NS && unjudged_tail && r.owner != *qname {
                // ANY: the server chased a CNAME it found and the chase ended at/below a cut
                let rel = if r.owner == cut { "CUT" } else { "below-cut" };
                return v(
                    format!("answer:cname-into-cut:exp=STOP-AT-CUT:got=NS-OF-{rel}-IN-ANSWER"),
                    format!("{qname} {tn}: a chased CNAME leads to/below the cut {cut}; the NS RRset of {} is in the ANSWER section", r.owner),
                );
            }
            if !(r.owner == cut && r.rtype == rz::T_DS) {
                return v(format!("answer-below-cut:{}", rz::type_name(r.rtype)), format!("answer RR {r} is at/below the cut {cut}"));
            }
        }
    }

    // ---- final step: rcode and authority section
    let (last_name, last) = res.last();
    let chained = res.steps.len() > 1;
    let soa_in_auth = obs.authority.iter().any(|r| r.rtype == rz::T_SOA && r.owner == zone.origin);
    let ns_owners: BTreeSet<Name> = obs.authority.iter().filter(|r| r.rtype == rz::T_NS).map(|r| r.owner.clone()).collect();
    let exp = exp_desc(zone, last_name, last);
    if !chained {
        match last {
            Step::Data { .. } | Step::Cname { .. } => {
                if obs.rcode != "NOERROR" {
                    // (reachable for ANY only: the answer may be empty there)
                    return v(
                        sc.key("rcode", qname, &exp, &obs.rcode, Some(Pred::Nothing)),
                        format!("{qname} {tn}: the name is matched ({exp}) but the rcode is {}", obs.rcode),
                    );
                }
            }
            Step::NoData(_) | Step::NxDomain { .. } => {
                let want = if matches!(last, Step::NoData(_)) { "NOERROR" } else { "NXDOMAIN" };
                if obs.rcode != want {
                    let got = if obs.rcode == "NOERROR" { "NODATA" } else { "NXDOMAIN" };
                    return v(
                        sc.key("rcode", qname, &exp, got, Some(Pred::Nothing)),
                        format!("{qname} {tn}: expected {exp}, got rcode {} with an empty answer", obs.rcode),
                    );
                }
                if !ns_owners.is_empty() && !soa_in_auth {
                    return v(
                        sc.key("authority", qname, &exp, "REFERRAL", None),
                        format!("{qname} {tn}: expected {exp}, got a referral to {ns_owners:?}"),
                    );
                }
                if !soa_in_auth {
                    return v(format!("soa-missing:exp={}", last.class()), format!("negative answer for {qname} without the zone's SOA in the authority section"));
                }
            }
            Step::Referral { cut } => {
                if obs.rcode != "NOERROR" {
                    return v(sc.key("rcode", qname, &exp, &obs.rcode, None), format!("referral expected at {cut}, rcode {}", obs.rcode));
                }
                // the apex NS RRset that the server adds for SOA queries is extra information, not judged
                let others: BTreeSet<&Name> = ns_owners.iter().filter(|o| **o != zone.origin).collect();
                if ns_owners.contains(&zone.origin) {
                    l.outcome("obs:referral-plus-apex-ns");
                }
                if others.is_empty() {
                    let got = if soa_in_auth { "NODATA" } else { "NO-NS" };
                    return v(sc.key("authority", qname, &exp, got, None), format!("{qname} {tn}: referral expected at {cut}: no NS RRset of a cut in the authority section"));
                }
                if others.len() != 1 || !others.contains(cut) {
                    let rel: BTreeSet<&str> = others
                        .iter()
                        .map(|o| if *o == cut { "cut" } else if o.strictly_below(cut) { "below-cut" } else { "other" })
                        .collect();
                    return v(
                        format!("referral:exp={exp}:got=NS-of-{}", rel.into_iter().collect::<Vec<_>>().join("+")),
                        format!("{qname} {tn}: authority ends at {cut} but the referral carries the NS RRset of {others:?}"),
                    );
                }
                let got_ns: BTreeSet<rz::RData> =
                    obs.authority.iter().filter(|r| r.rtype == rz::T_NS && r.owner == *cut).map(|r| r.rdata.clone()).collect();
                if Some(&got_ns) != zone.rrset(cut, rz::T_NS) {
                    return v("referral-ns-set-differs".into(), format!("referral at {cut}: NS set {got_ns:?}"));
                }
                if soa_in_auth {
                    l.outcome("obs:referral-with-soa");
                }
                if obs.aa {
                    l.outcome("obs:referral-aa-set");
                }
            }
            Step::OutOfZone => {}
        }
    } else {
        // after a CNAME chain the statement fixes neither rcode nor authority; NXDOMAIN is only
        // defensible if the chain really ends at a non-existent name
        if obs.rcode == "NXDOMAIN" && !matches!(last, Step::NxDomain { .. }) {
            return v(sc.key("rcode", last_name, &exp, "NXDOMAIN", None), format!("chain ends in {exp} but rcode is NXDOMAIN"));
        }
        l.outcome(&format!("obs:chain-end:{}:{}{}", last.class(), obs.rcode, if soa_in_auth { "+soa" } else { "" }));
    }
    if !obs.aa && !matches!(last, Step::Referral { .. }) {
        l.outcome("obs:aa-clear-on-authoritative-answer");
    }

    // ---- DNSSEC clauses (DO=1 on a signed zone)
    if signed {
        let check_section = |rrs: &[Rr], sigs: &[Sig], section: &str| -> Option<Verdict> {
            let sets: BTreeSet<(Name, u16)> = rrs.iter().map(|r| (r.owner.clone(), r.rtype)).collect();
            for (owner, t) in sets {
                if !zone.is_authoritative_rrset(&owner, t) {
                    continue;
                }
                if !sigs.iter().any(|s| s.owner == owner && s.covered == t) {
                    return v(
                        format!("dnssec:rrsig-missing:{section}:{}", rz::type_name(t)),
                        format!("DO=1: authoritative RRset {owner} {} in the {section} section has no RRSIG", rz::type_name(t)),
                    );
                }
            }
            None
        };
        if let Some(x) = check_section(&obs.answer, &obs.answer_sigs, "answer") {
            return Some(x);
        }
        if let Some(x) = check_section(&obs.authority, &obs.authority_sigs, "authority") {
            return Some(x);
        }
        let has_denial = obs.authority.iter().any(|r| r.rtype == rz::T_NSEC || r.rtype == rz::T_NSEC3);
        let obs_negative = obs.answer.is_empty() && !(matches!(last, Step::Referral { .. }) && !chained);
        let obs_wild = obs.answer_sigs.iter().any(|s| (s.labels as usize) < s.owner.num_labels() - s.owner.is_wildcard() as usize);
        let exp_wild = res.steps.iter().any(|(n, s)| s.wildcard_source(n).is_some() && matches!(s, Step::Data { .. } | Step::Cname { .. }));
        let kind = if matches!(signing, Signing::Nsec) { "nsec" } else { "nsec3" };
        let chain = if facts.denial_owners <= 1 { "apex-only-chain" } else { "chain" };
        if obs_negative && !has_denial {
            return v(
                format!("dnssec:denial-missing:negative:{}:{kind}:{chain}", if obs.rcode == "NXDOMAIN" { "NXDOMAIN" } else { "NODATA" }),
                format!("DO=1: negative answer for {qname} {tn} carries no NSEC/NSEC3"),
            );
        }
        if (obs_wild || exp_wild) && !has_denial {
            return v(
                format!("dnssec:denial-missing:wildcard:{kind}:t={}", if qtype == rz::T_SOA { "SOA" } else { "other" }),
                format!("DO=1: wildcard-synthesised answer for {qname} {tn} carries no NSEC/NSEC3"),
            );
        }
        if obs_negative {
            l.outcome("dnssec:negative-with-denial");
        }
        if obs_wild {
            l.outcome("dnssec:wildcard-with-denial");
        }
        if matches!(last, Step::Referral { .. }) && !chained {
            let has_ds = obs.authority.iter().any(|r| r.rtype == rz::T_DS);
            l.outcome(if has_ds || has_denial { "obs:referral-with-ds-or-denial" } else { "obs:referral-without-ds-or-denial" });
        }
    }
    None
}

// ------------------------------------------------------------------------------------------
// running

/// One materialisation of a zone plus the shape of the requests sent to it: every knob the
/// anchored server code reads.
#[derive(Clone, Debug, PartialEq)]
struct Mat {
    signing: Signing,
    /// every zone name and query name in upper case
    upper: bool,
    shape: vzone::QueryShape,
    opts: vzone::BuildOpts,
}

impl Mat {
    fn std(signing: &Signing, upper: bool) -> Mat {
        Mat { signing: signing.clone(), upper, shape: if signing.is_signed() { vzone::QueryShape::DO } else { vzone::QueryShape::PLAIN }, opts: vzone::BuildOpts::default() }
    }
    fn is_std(&self) -> bool {
        *self == Mat::std(&self.signing, self.upper)
    }
    fn do_judged(&self) -> bool {
        self.signing.is_signed() && self.shape.edns && self.shape.do_bit
    }
    fn tag(&self) -> String {
        format!("{}{}|{}|{}", self.signing.tag(), if self.upper { "|UPPER" } else { "" }, self.shape.tag(), self.opts.tag())
    }
    fn to_json(&self) -> Value {
        json!({"signing": self.signing.tag(), "upper_case_names": self.upper,
               "edns": self.shape.edns, "do": self.shape.do_bit, "payload": self.shape.payload, "rd": self.shape.rd, "cd": self.shape.cd, "ad": self.shape.ad,
               "sqlite": self.opts.front == vzone::Front::Sqlite, "secondary": self.opts.secondary, "axfr_allow_all": self.opts.axfr_allow_all,
               "allow_update": self.opts.allow_update, "is_dnssec_enabled": self.opts.is_dnssec_enabled})
    }
    fn from_json(v: &Value) -> Mat {
        let signing = Signing::from_tag(v["signing"].as_str().unwrap_or("unsigned")).unwrap_or(Signing::Unsigned);
        let mut m = Mat::std(&signing, v["upper_case_names"].as_bool().unwrap_or(false));
        if let Some(e) = v["edns"].as_bool() {
            m.shape = vzone::QueryShape {
                edns: e,
                do_bit: v["do"].as_bool().unwrap_or(false),
                payload: v["payload"].as_u64().unwrap_or(4096) as u16,
                rd: v["rd"].as_bool().unwrap_or(false),
                cd: v["cd"].as_bool().unwrap_or(false),
                ad: v["ad"].as_bool().unwrap_or(false),
            };
            m.opts = vzone::BuildOpts {
                front: if v["sqlite"].as_bool().unwrap_or(false) { vzone::Front::Sqlite } else { vzone::Front::InMemory },
                secondary: v["secondary"].as_bool().unwrap_or(false),
                axfr_allow_all: v["axfr_allow_all"].as_bool().unwrap_or(false),
                allow_update: v["allow_update"].as_bool().unwrap_or(false),
                is_dnssec_enabled: v["is_dnssec_enabled"].as_bool(),
            };
        }
        m
    }
}

fn case_json(spec: &ZoneSpec, mat: &Mat, qname: &str, qtype: u16) -> Value {
    let mut j = mat.to_json();
    j["zone"] = spec.to_json();
    j["zone_text"] = json!(spec.to_string());
    j["qname"] = json!(qname);
    j["qtype"] = json!(qtype);
    j["qtype_name"] = json!(rz::type_name(qtype));
    j
}

/// Build the zone as given, or with every name in upper case (`upper`): the store must treat
/// names case-insensitively (RFC 1035 2.3.3), the reference folds case.
fn build_mat(spec: &ZoneSpec, mat: &Mat) -> Result<vzone::Built, String> {
    if mat.upper {
        vzone::build_opts(&spec.upper_cased(), &mat.signing, &mat.opts)
    } else {
        vzone::build_opts(spec, &mat.signing, &mat.opts)
    }
}

/// Run one query; returns the violation (key, what, response text) if any.
fn run_query(
    built: &vzone::Built,
    zone: &Zone,
    facts: &ZoneFacts,
    res: &Resolution,
    qname: &str,
    mat: &Mat,
    qtype: u16,
    rt: &tokio::runtime::Runtime,
    l: &mut Local,
) -> Option<(Verdict, String)> {
    l.eval();
    let sent = if mat.upper { qname.to_ascii_uppercase() } else { qname.to_string() };
    let asked = vcore::catch(|| {
        vzone::ask_raw(rt, &built.catalog, &vzone::query_bytes_shape(&sent, qtype, &mat.shape))
            .and_then(|b| Message::from_vec(&b).map_err(|e| format!("response undecodable: {e}")))
    });
    let m = match asked {
        Err(p) => {
            return Some((
                Verdict { key: format!("panic:{}", vcore::short_loc(&p.loc)), what: format!("server panicked: {}", p.msg) },
                String::new(),
            ))
        }
        Ok(Err(e)) => return Some((Verdict { key: "no-single-decodable-response".into(), what: e }, String::new())),
        Ok(Ok(m)) => m,
    };
    let obs = observe(&m);
    let qn = Name::parse(qname);
    judge(zone, facts, &qn, qtype, res, &obs, &built.signing, mat.do_judged(), l).map(|vd| {
        let txt = format!(
            "rcode={} aa={} answer={:?} authority={:?}",
            obs.rcode,
            obs.aa,
            obs.answer.iter().map(|r| r.to_string()).collect::<Vec<_>>(),
            obs.authority.iter().map(|r| format!("{} {}", r.owner, rz::type_name(r.rtype))).collect::<Vec<_>>()
        );
        (vd, txt)
    })
}

fn signings(thorough: bool) -> Vec<Signing> {
    let mut v = vec![
        Signing::Unsigned,
        Signing::Nsec,
        Signing::Nsec3 { iterations: 0, salt: vec![], opt_out: false },
    ];
    if thorough {
        v.push(Signing::Nsec3 { iterations: 1, salt: vec![0xab], opt_out: true });
    }
    v
}

/// Remove owners from the spec while the same query still produces the same key.
fn minimise(spec: &ZoneSpec, mat: &Mat, qname: &str, qtype: u16, key: &str, rt: &tokio::runtime::Runtime) -> ZoneSpec {
    let mut cur = spec.clone();
    let mut scratch = Local::default();
    loop {
        let mut shrunk = false;
        for i in 0..cur.owners.len() {
            let mut cand = cur.clone();
            cand.owners.remove(i);
            let Ok(b) = build_mat(&cand, mat) else { continue };
            let z = cand.reference();
            let res = rz::resolve(&z, &Name::parse(qname), qtype);
            if let Some((vd, _)) = run_query(&b, &z, &facts_of(&z), &res, qname, mat, qtype, rt, &mut scratch) {
                if vd.key == key {
                    cur = cand;
                    shrunk = true;
                    break;
                }
            }
        }
        if !shrunk {
            return cur;
        }
    }
}

fn facts_of(zone: &Zone) -> ZoneFacts {
    let denial_owners = zone.nodes.keys().filter(|o| zone.cut_on_path(o).map(|c| c == **o).unwrap_or(true)).count();
    ZoneFacts { denial_owners }
}

fn class_of(res: &Resolution) -> String {
    let (n, s) = res.last();
    let mut c = match s {
        Step::Data { source, .. } if source != n => "SYNTH".to_string(),
        Step::NoData(k) => match k {
            NoDataKind::OtherData => "NODATA-other".into(),
            NoDataKind::Ent => "NODATA-ent".into(),
            NoDataKind::Wildcard { .. } => "NODATA-wild".into(),
            NoDataKind::WildcardEnt { .. } => "NODATA-wildent".into(),
        },
        o => o.class().to_string(),
    };
    if res.steps.len() > 1 {
        c = format!("CNAME->{c}");
    }
    if res.looped {
        c = "CNAME-loop".into();
    }
    c
}

/// `sigs`: materialisations with the names as written; `upper_sigs`: additional materialisations
/// with every zone name AND every query name in upper case; `knobs`: materialisations with
/// non-default configuration / request shapes (see `knob_mats`).
fn run_zone(spec: &ZoneSpec, qnames: &[String], sigs: &[Signing], upper_sigs: &[Signing], knobs: &[Mat], rt: &tokio::runtime::Runtime, l: &mut Local, sample: bool) {
    let zone = spec.reference();
    let facts = facts_of(&zone);
    for sh in zone.deep_shapes() {
        l.outcome(sh);
    }
    // reference resolutions once per (qname, qtype)
    let mut refs: Vec<(usize, u16, Resolution)> = vec![];
    for (qi, qn) in qnames.iter().enumerate() {
        let name = Name::parse(qn);
        for t in QTYPES {
            refs.push((qi, t, rz::resolve(&zone, &name, t)));
        }
    }
    let zone_text = spec.to_string();
    let mats: Vec<Mat> = sigs.iter().map(|s| Mat::std(s, false)).chain(upper_sigs.iter().map(|s| Mat::std(s, true))).chain(knobs.iter().cloned()).collect();
    for mat in &mats {
        let (signing, upper) = (&mat.signing, mat.upper);
        let built = match build_mat(spec, mat) {
            Ok(b) => b,
            Err(e) => {
                l.violation("zone-build-failed", &e, || json!({"zone": spec.to_json(), "mat": mat.tag()}));
                continue;
            }
        };
        if mat.is_std() {
            l.outcome(&format!("zones:{}{}", if signing.is_signed() { "signed" } else { "unsigned" }, if upper { ":upper-case" } else { "" }));
        } else {
            l.outcome(&format!("zones:knobs:{}", mat.tag()));
        }
        for (qi, t, res) in &refs {
            let qn = &qnames[*qi];
            let class = class_of(res);
            if *signing == Signing::Unsigned && !upper && mat.is_std() {
                l.outcome(&format!("ref:{class}"));
                if class != "DATA" && class != "OUTOFZONE" {
                    // per (zone, qname, outcome class): stays far below vcore's 40 M cap in the thorough tier
                    l.nontrivial(fnv_str(&format!("{zone_text}|{qn}|{class}")));
                    let _ = t;
                }
            }
            if let Some((vd, resp)) = run_query(&built, &zone, &facts, res, qn, mat, *t, rt, l) {
                let first = !l.has_violation_key(&vd.key);
                l.violation(&vd.key, &vd.what, || {
                    let min = if first { minimise(spec, mat, qn, *t, &vd.key, rt) } else { spec.clone() };
                    let mut j = case_json(&min, mat, qn, *t);
                    j["response"] = json!(resp);
                    j["expected"] = json!(format!("{:?}", rz::resolve(&min.reference(), &Name::parse(qn), *t).steps));
                    j
                });
            }
        }
        // QCLASS other than IN against the (class IN) zone: the statement does not say what is due
        // (REFUSED, NOTIMP, ...); only logged, one A query per name
        if *signing == Signing::Unsigned && !upper && mat.is_std() {
            for qn in qnames {
                if let Ok(bytes) = vzone::ask_raw(rt, &built.catalog, &vzone::query_bytes_class(qn, rz::T_A, 3, false)) {
                    if let Ok(m) = Message::from_vec(&bytes) {
                        l.outcome(&format!(
                            "obs:qclass-CH:{}:{}",
                            format!("{:?}", m.metadata.response_code).to_uppercase(),
                            if m.answers.is_empty() { "no-answer" } else { "answers-IN-data" }
                        ));
                    }
                }
            }
        }
    }
    if sample {
        l.sample(json!({"zone": zone_text, "queries": qnames.len() * QTYPES.len(), "signings": sigs.iter().map(|s| s.tag()).collect::<Vec<_>>(), "upper_case_signings": upper_sigs.iter().map(|s| s.tag()).collect::<Vec<_>>()}));
    }
}

/// Front-end differential: the same signed/unsigned zone behind the `SqliteZoneHandler` wrapper must
/// give byte-identical responses (it forwards lookup / search / nsec_records / nsec3_records).
fn run_front_diff(spec: &ZoneSpec, qnames: &[String], sigs: &[Signing], rt: &tokio::runtime::Runtime, l: &mut Local) {
    for (si, signing) in sigs.iter().enumerate() {
        // the wrapper's own knobs take every value across the signings: (allow_update, is_dnssec_enabled) =
        // (true, "enabled" on the unsigned zone), (false, "disabled" on the NSEC zone), defaults on the rest
        let wrapper = vzone::BuildOpts {
            front: vzone::Front::Sqlite,
            allow_update: si == 0,
            is_dnssec_enabled: match si {
                0 => Some(true),
                1 => Some(false),
                _ => None,
            },
            ..vzone::BuildOpts::default()
        };
        let (Ok(a), Ok(b)) = (vzone::build_front(spec, signing, vzone::Front::InMemory), vzone::build_opts(spec, signing, &wrapper)) else {
            l.violation("zone-build-failed", "front-end differential", || json!({"zone": spec.to_json(), "signing": signing.tag()}));
            continue;
        };
        l.outcome("zones:sqlite-front");
        for qn in qnames {
            for t in QTYPES {
                l.eval();
                let q = vzone::query_bytes(qn, t, signing.is_signed());
                let ra = vcore::catch(|| vzone::ask_raw(rt, &a.catalog, &q));
                let rb = vcore::catch(|| vzone::ask_raw(rt, &b.catalog, &q));
                let same = match (&ra, &rb) {
                    (Ok(Ok(x)), Ok(Ok(y))) => x == y,
                    _ => false,
                };
                if same {
                    l.outcome("front:sqlite:identical");
                    continue;
                }
                // classify the difference by section
                let what = match (&ra, &rb) {
                    (Ok(Ok(x)), Ok(Ok(y))) => match (Message::from_vec(x), Message::from_vec(y)) {
                        (Ok(mx), Ok(my)) => {
                            if mx.metadata.response_code != my.metadata.response_code {
                                "rcode".to_string()
                            } else if mx.answers != my.answers {
                                "answer".to_string()
                            } else if mx.authorities != my.authorities {
                                "authority".to_string()
                            } else if mx.additionals != my.additionals {
                                "additional".to_string()
                            } else {
                                "header-or-encoding".to_string()
                            }
                        }
                        _ => "undecodable".to_string(),
                    },
                    (Err(_), _) | (_, Err(_)) => "panic".to_string(),
                    _ => "no-response".to_string(),
                };
                l.violation(&format!("front-end-differs:sqlite:{what}:{}", if signing.is_signed() { "do=1" } else { "do=0" }), &format!("{qn} {}: the SqliteZoneHandler front end answers differently from the in-memory store it wraps", rz::type_name(t)), || {
                    let mut j = case_json(spec, &Mat::std(signing, false), qn, t);
                    j["level"] = json!("front");
                    j
                });
            }
        }
    }
}

/// One branch four labels deep: a.z., a.a.z., a.a.a.z., a.a.a.a.z., each absent / A / NS, with
/// a wildcard A at `*.<level>` for any subset of the levels 0..3 — more than three owners along
/// ONE branch (delegation walk, empty non-terminals three labels above data, wildcard level choice).
fn branch_family() -> Vec<(ZoneSpec, Vec<String>)> {
    let levels = ["a.z.", "a.a.z.", "a.a.a.z.", "a.a.a.a.z."];
    let wild = ["*.z.", "*.a.z.", "*.a.a.z.", "*.a.a.a.z."];
    let mut q: Vec<String> = vec!["z.".into()];
    for l in levels {
        q.push(l.to_string());
        q.push(format!("b{}", &l[1..]));
    }
    for w in wild {
        q.push(w.to_string());
    }
    q.push("a.a.a.a.a.z.".into());
    q.push("b.a.a.a.a.z.".into());
    q.push("b.b.a.a.z.".into());
    q.push("b.b.b.a.z.".into());
    let mut out = vec![];
    for code in 0..81u32 {
        for wmask in 0..16u32 {
            let mut owners: Vec<(&str, Kind)> = vec![];
            let mut c = code;
            for l in levels {
                match c % 3 {
                    1 => owners.push((l, Kind::A)),
                    2 => owners.push((l, Kind::Ns)),
                    _ => {}
                }
                c /= 3;
            }
            for (i, w) in wild.iter().enumerate() {
                if wmask >> i & 1 == 1 {
                    owners.push((w, Kind::A));
                }
            }
            out.push((ZoneSpec::new("z.", &owners), q.clone()));
        }
    }
    out
}

/// CNAME chains of length 1..=9 and loops of length 1..=3 (crosses the server's chase depth 8).
fn chain_family() -> Vec<(ZoneSpec, Vec<String>)> {
    let mut out = vec![];
    for n in 1..=9usize {
        for end in 0..3 {
            let mut spec = ZoneSpec::new("z.", &[]);
            for i in 1..=n {
                let target = if i < n {
                    format!("c{}.z.", i + 1)
                } else {
                    match end {
                        0 => "t.z.".to_string(),
                        1 => "nx.z.".to_string(),
                        _ => "x.o.".to_string(),
                    }
                };
                spec.extra.push((format!("c{i}.z."), RecSpec::Cname(target)));
            }
            spec.extra.push(("t.z.".into(), RecSpec::A(9)));
            let q: Vec<String> = (1..=n).map(|i| format!("c{i}.z.")).chain(["t.z.".to_string(), "nx.z.".to_string()]).collect();
            out.push((spec, q));
        }
    }
    for n in 1..=3usize {
        let mut spec = ZoneSpec::new("z.", &[]);
        for i in 1..=n {
            spec.extra.push((format!("c{i}.z."), RecSpec::Cname(format!("c{}.z.", i % n + 1))));
        }
        let q: Vec<String> = (1..=n).map(|i| format!("c{i}.z.")).collect();
        out.push((spec, q));
    }
    out
}

fn main() {
    // a stack overflow / abort in the code under test must become a verdict, not a dead check
    vcore::supervise("C10");
    vcore::install_log_evaluation(); // logging is part of the environment: log arguments are evaluated as under a real subscriber
    let ctx = Ctx::from_args("C10", "exploration");
    let thorough = !ctx.quick();

    // the reference model must reproduce the RFCs' own worked examples before it judges anything
    let bad = rz::self_test();
    if !bad.is_empty() {
        for b in &bad {
            eprintln!("reference self-test failed: {b}");
        }
        vcore::machinery_exit("vref::zone self-test failed");
    }

    if let Some((_key, case)) = ctx.replay_case() {
        let spec = ZoneSpec::from_json(&case["zone"]).unwrap_or_else(|| vcore::machinery_exit("bad zone in replay"));
        let mat = Mat::from_json(&case);
        let signing = mat.signing.clone();
        let qname = case["qname"].as_str().unwrap_or("z.").to_string();
        let qtype = case["qtype"].as_u64().unwrap_or(1) as u16;
        let rt = vsim::rt();
        ctx.with_local(|l| {
            if case["level"].as_str() == Some("ctor") {
                if !ctor::replay(&case, &rt, l) {
                    vcore::machinery_exit("bad construction-path case in replay");
                }
                return;
            }
            if case["level"].as_str() == Some("front") {
                run_front_diff(&spec, &[qname.clone()], &[Signing::Unsigned, Signing::Nsec, signing.clone()], &rt, l);
                return;
            }
            let zone = spec.reference();
            let res = rz::resolve(&zone, &Name::parse(&qname), qtype);
            match build_mat(&spec, &mat) {
                Err(e) => l.violation("zone-build-failed", &e, || case.clone()),
                Ok(b) => {
                    // show the response that is being judged
                    let sent = if mat.upper { qname.to_ascii_uppercase() } else { qname.clone() };
                    if let Ok(m) = vzone::ask_raw(&rt, &b.catalog, &vzone::query_bytes_shape(&sent, qtype, &mat.shape)).and_then(|x| Message::from_vec(&x).map_err(|e| e.to_string())) {
                        eprintln!("replay: [{}] rcode={:?} aa={}", mat.tag(), m.metadata.response_code, m.metadata.authoritative);
                        for (sec, rrs) in [("answer", &m.answers), ("authority", &m.authorities), ("additional", &m.additionals)] {
                            for r in rrs {
                                eprintln!("replay:   {sec}: {r}");
                            }
                        }
                    }
                    if let Some((vd, resp)) = run_query(&b, &zone, &facts_of(&zone), &res, &qname, &mat, qtype, &rt, l) {
                        eprintln!("replay: expected {:?}\nreplay: response {resp}", res.steps);
                        l.violation(&vd.key, &vd.what, || case.clone());
                    }
                }
            }
        });
        ctx.finish(false);
    }

    ctx.set_rule(
        "every zone = apex + <=K owners of U(d) (labels {a,b,*}) x node kinds {A,TXT,A+TXT,MX,CNAME->{a.z.,b.z.,a.a.z.,x.o.},NS,NS+glue,NS+DS} \
         (quick d=2,K<=2; thorough adds d=2,K=3 over 8 kinds [unsigned+NSEC] and d=3,K<=2 [unsigned+NSEC+NSEC3]) plus CNAME chains 1..9 / loops 1..3 and 1296 four-label single-branch zones (a.z. .. a.a.a.a.z. each absent/A/NS x wildcard A at any subset of the four levels) and the deep slice over {a.z,a.a.z,a.a.a.z,b.a.a.z,*.a.z,*.a.a.z} with an owner 3 labels down (quick K<=2 over {A,TXT,CNAME,NS,NS+DS} and K=3 over {A,NS}; thorough K=3 over {A,TXT,NS,NS+DS}; also asked 4 names one label below the branch), x every query name of {apex, U(3), x.o., names below cuts} \
         x qtypes {A,AAAA,MX,NS,CNAME,SOA,DS,TXT,ANY}, each as a wire query through the real Catalog against the unsigned (DO=0), NSEC-signed and \
         NSEC3-signed (DO=1) zone; oracle = vref::zone (RFC 1034 4.3.2 + RFC 4592) on rcode, answer RR set, referral cut, SOA in negative answers, \
         RRSIG/denial presence. Every zone is also materialised with ALL names in upper case and queried in upper case (unsigned; base family also NSEC), \
         and zones with <=1 owner + the branch family (thorough: the whole base family) are served through the SqliteZoneHandler wrapper as well (allow_update / is_dnssec_enabled at every value): byte-identical responses required; \
         the same zones (+ chains) are also run under four non-default knob settings: NSEC zone asked with OPT DO=0 payload 512 RD+CD+AD; NSEC3 zone asked without OPT; unsigned zone asked with DO=1 as ZoneType::Secondary with AxfrPolicy::AllowAll; NSEC zone DO=1 RD+CD payload 1232 as Secondary. Non-trivial = distinct (zone, qname, reference outcome class) whose class is not a plain exact match (CNAME chain, cut, wildcard, ENT, NODATA, NXDOMAIN).",
    );
    ctx.assume("vref::zone (RFC 1034 4.3.2 / RFC 4592 reference lookup; self-tested against RFC 4592 2.2.1/3.3.1 and RFC 4034 6.1 on every run)");
    ctx.assume("zone contents reach the server through InMemoryZoneHandler::upsert_mut and the real secure_zone_mut; Ed25519 (ring) signs deterministically");
    ctx.assume("NS RRsets at wildcard owners are excluded from the grammar (RFC 4592 4.2: undefined)");

    // (zone, signings) jobs
    let all4 = signings(true);
    let quick3 = signings(false);
    let two = vec![Signing::Unsigned, Signing::Nsec];
    // upper-case materialisations: unsigned for every zone; thorough: unsigned + NSEC for the base family
    let up1 = vec![Signing::Unsigned];
    let up2 = vec![Signing::Unsigned, Signing::Nsec];
    // non-default configuration / request shapes (every knob the server-side code reads while answering):
    //  K1 NSEC zone, OPT present with DO=0, payload 512, RD+CD+AD set;
    //  K2 NSEC3 zone, no OPT at all;
    //  K3 unsigned zone asked with DO=1, ZoneType::Secondary, AxfrPolicy::AllowAll;
    //  K4 NSEC zone, DO=1 + RD + CD, Secondary + AllowAll (the DNSSEC clauses are judged here too).
    let sh = |edns, do_bit, payload, rd, cd, ad| vzone::QueryShape { edns, do_bit, payload, rd, cd, ad };
    let second = vzone::BuildOpts { secondary: true, axfr_allow_all: true, ..vzone::BuildOpts::default() };
    let knobs: Vec<Mat> = vec![
        Mat { signing: Signing::Nsec, upper: false, shape: sh(true, false, 512, true, true, true), opts: vzone::BuildOpts::default() },
        Mat { signing: Signing::Nsec3 { iterations: 0, salt: vec![], opt_out: false }, upper: false, shape: vzone::QueryShape::PLAIN, opts: vzone::BuildOpts::default() },
        Mat { signing: Signing::Unsigned, upper: false, shape: vzone::QueryShape::DO, opts: second },
        Mat { signing: Signing::Nsec, upper: false, shape: sh(true, true, 1232, true, true, false), opts: second },
    ];
    let no_knobs: Vec<Mat> = vec![];
    let mut jobs: Vec<(ZoneSpec, &Vec<Signing>, &Vec<Signing>, &Vec<Mat>)> = vec![];
    let base = vzone::family("z.", &vzone::universe(2), 2, &vzone::ALL_KINDS);
    if thorough {
        // (C) d=2, K<=2, all kinds: all four materialisations
        jobs.extend(base.iter().cloned().map(|s| (s, &all4, &up2, &knobs)));
        // (A) d=2, K=3, reduced kinds (one CNAME target in, one deeper; no MX): unsigned + NSEC
        let reduced = [Kind::A, Kind::Txt, Kind::ATxt, Kind::CnameA, Kind::CnameAA, Kind::Ns, Kind::NsGlue, Kind::NsDs];
        jobs.extend(
            vzone::family("z.", &vzone::universe(2), 3, &reduced).into_iter().filter(|s| s.owners.len() == 3).map(|s| (s, &two, &up1, &no_knobs)),
        );
        // (B) d=3, K<=2, all kinds, at least one depth-3 owner: unsigned + NSEC + NSEC3
        jobs.extend(
            vzone::family("z.", &vzone::universe(3), 2, &vzone::ALL_KINDS)
                .into_iter()
                .filter(|s| s.owners.iter().any(|(o, _)| o.matches('.').count() == 4))
                .map(|s| (s, &quick3, &up1, &no_knobs)),
        );
    } else {
        // quick: the knob materialisations for the zones with <= 1 owner (and the branch and chain families below)
        // (the same holds for the upper-case materialisation: every dimension stays in quick, the depth is thorough's)
        let no_sigs: Vec<Signing> = vec![];
        let no_up: &Vec<Signing> = Box::leak(Box::new(no_sigs));
        jobs.extend(base.iter().cloned().map(|s| {
            let small = s.owners.len() <= 1;
            (s, &quick3, if small { &up1 } else { no_up }, if small { &knobs } else { &no_knobs })
        }));
    }
    // the deep slice (both tiers): one branch three labels deep with a sibling at the bottom and wildcards at both inner
    // levels - empty non-terminals whose first descendant is two or more labels below them, an empty non-terminal above
    // another, a wildcard below them. quick: <= 2 owners over {A, TXT, CNAME->a.z., NS, NS+DS} and 3 owners over {A, NS};
    // thorough (which has every <= 2 owner zone in family (B)): 3 owners over {A, TXT, NS, NS+DS}
    {
        let deep = if thorough {
            vzone::deep_family(&[], Some(&[Kind::A, Kind::Txt, Kind::Ns, Kind::NsDs]))
        } else {
            vzone::deep_family(&[Kind::A, Kind::Txt, Kind::CnameA, Kind::Ns, Kind::NsDs], Some(&[Kind::A, Kind::Ns]))
        };
        ctx.set("deep_slice_zones", json!(deep.len()));
        jobs.extend(deep.into_iter().map(|s| (s, &quick3, &up1, &no_knobs)));
    }
    let chain_sigs = if thorough { &all4 } else { &quick3 };
    let chains = chain_family();
    ctx.set("zones", json!(jobs.len()));
    ctx.set("chain_zones", json!(chains.len()));
    ctx.set("signings", json!(chain_sigs.iter().map(|s| s.tag()).collect::<Vec<_>>()));

    // debugging aid: VERIF_C10_RANGE=lo:hi restricts the run to a slice of the job list
    if let Ok(r) = std::env::var("VERIF_C10_RANGE") {
        let p: Vec<usize> = r.split(':').filter_map(|x| x.parse().ok()).collect();
        if p.len() == 2 {
            jobs = jobs[p[0].min(jobs.len())..p[1].min(jobs.len())].to_vec();
            ctx.cap(&format!("VERIF_C10_RANGE={r}: only a slice of the job list was run"));
            for (s, _, _, _) in &jobs {
                eprintln!("job: {s}");
            }
        }
    }
    let n = jobs.len() as u64;
    let stride = (n / 12).max(1);
    // a chunk is 4 zones x <=4 signings x ~370 queries (< 1 s of work); the generous limit only
    // guards against a starved worker on a loaded machine being mistaken for a hang
    ctx.case_timeout_s.store(600, std::sync::atomic::Ordering::Relaxed);
    ctx.par_run_init(
        n,
        4,
        |_| vsim::rt(),
        |i, l, rt| {
            let (spec, sigs, upper_sigs, k) = &jobs[i as usize];
            let mut qnames = spec.query_names(3);
            // zones with an owner three labels down are also asked one label below the branch
            if vzone::is_deep(spec) {
                for q in vzone::DEEP_QUERIES {
                    if !qnames.iter().any(|x| x == q) {
                        qnames.push(q.to_string());
                    }
                }
            }
            run_zone(spec, &qnames, sigs, upper_sigs, k, rt, l, i % stride == 0);
        },
    );
    ctx.par_run_init(
        chains.len() as u64,
        1,
        |_| vsim::rt(),
        |i, l, rt| {
            let (spec, q) = &chains[i as usize];
            run_zone(spec, q, chain_sigs, &up1, &knobs, rt, l, i == 26);
        },
    );
    // one branch, four labels deep (1296 zones)
    let branches = branch_family();
    ctx.set("branch_zones", json!(branches.len()));
    ctx.par_run_init(
        branches.len() as u64,
        4,
        |_| vsim::rt(),
        |i, l, rt| {
            let (spec, q) = &branches[i as usize];
            run_zone(spec, q, &quick3, &up2, &knobs, rt, l, i == 700);
        },
    );
    // front-end differential (SqliteZoneHandler over the same store): zones with <= 1 owner and the
    // branch family (quick); the whole base family (thorough); unsigned, NSEC and NSEC3
    let front: Vec<(&ZoneSpec, Vec<String>)> = base
        .iter()
        .filter(|s| thorough || s.owners.len() <= 1)
        .map(|s| (s, s.query_names(3)))
        // quick: the branch zones without and with all four wildcards (162 of 1296)
        .chain(branches.iter().enumerate().filter(|(i, _)| thorough || i % 16 == 0 || i % 16 == 15).map(|(_, (s, q))| (s, q.clone())))
        .collect();
    ctx.set("front_end_zones", json!(front.len()));
    ctx.par_run_init(
        front.len() as u64,
        4,
        |_| vsim::rt(),
        |i, l, rt| {
            let (spec, q) = &front[i as usize];
            run_front_diff(spec, q, &quick3, rt, l);
        },
    );

    // construction paths (both tiers, small): 8 zones x {unsigned, NSEC, NSEC3 (3, abcd, opt-out)} x
    // {InMemoryZoneHandler::new, FileZoneHandler::try_from_config, SqliteZoneHandler::try_from_config first start,
    // second start (journal exists)} x 3 knob sets (all non-default / all default / adjacent knobs at different values)
    {
        let zones = ctor::zones();
        let sigs = ctor::signings();
        let knobs = ctor::knob_sets();
        let mut cases = vec![];
        for (zi, z) in zones.iter().enumerate() {
            for s in &sigs {
                for p in vzone::ctor::CtorPath::ALL {
                    for (ki, k) in knobs.iter().enumerate() {
                        // all-non-default on every zone; the other two knob sets on two zones (thorough: on all)
                        if ki == 0 || thorough || zi == 1 || zi == 6 {
                            cases.push((z, s, p, k));
                        }
                    }
                }
            }
        }
        ctx.set("construction_path_cases", json!(cases.len()));
        ctx.par_run_init(
            cases.len() as u64,
            1,
            |w| (vsim::rt(), ctor::scratch(&w.to_string())),
            |i, l, (rt, dir)| {
                let (z, s, p, k) = cases[i as usize];
                ctor::run(z, s, p, k, dir, rt, l);
            },
        );
    }

    // vacuity: every important reference class and both DNSSEC outcome classes must have occurred
    for class in [
        "ref:DATA",
        "ref:CNAME->DATA",
        "ref:CNAME-loop",
        "ref:REFERRAL",
        "ref:SYNTH",
        "ref:NODATA-other",
        "ref:NODATA-ent",
        "ref:NODATA-wild",
        "ref:NXDOMAIN",
        "dnssec:negative-with-denial",
        "dnssec:wildcard-with-denial",
        "zones:unsigned:upper-case",
        "zones:signed:upper-case",
        "front:sqlite:identical",
        "obs:do=0-on-signed-zone:no-dnssec-records",
        "ctor:built:inmemory-new:nsec3",
        "ctor:built:file-try_from_config:nsec3",
        "ctor:built:sqlite-try_from_config-first-start:nsec3",
        "ctor:built:sqlite-try_from_config-second-start:nsec3",
        "ctor:built:sqlite-try_from_config-second-start:unsigned",
        "ctor:answer:identical",
        "ctor:zone-content:identical",
        "ctor:getter:as-configured",
        "ctor:rrsig-fields:as-configured",
        "ctor:nsec3-parameters:as-configured",
        "shape:ent-first-descendant-2-below",
        "shape:ent-above-ent",
        "shape:wildcard-below-ent-chain",
    ] {
        if ctx.outcome_count(class) == 0 {
            ctx.machinery_failure(&format!("vacuous run: outcome class {class} never occurred"));
        }
    }
    let mut per_class: BTreeMap<String, u64> = BTreeMap::new();
    for c in ["zones:unsigned", "zones:signed"] {
        per_class.insert(c.to_string(), ctx.outcome_count(c));
    }
    ctx.set("zones_built", json!(per_class));
    ctx.finish(true);
}
