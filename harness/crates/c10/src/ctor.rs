//! Construction-path family: the zone built through every constructor / from-config path of the
//! server (`vzone::ctor`), every knob at a chosen value, probed with the full query set and compared
//! with the same zone built directly (`InMemoryZoneHandler::empty` + `upsert_mut`, the path every
//! other family of this check uses) under the same knob values.

use std::path::PathBuf;

use hickory_net::xfer::Protocol;
use hickory_proto::op::{Message, MessageType, OpCode, Query};
use hickory_proto::rr::rdata::A;
use hickory_proto::rr::{RData, Record, RecordType};
use serde_json::{json, Value};
use vcore::Local;
use vref::zone as rz;
use vzone::ctor::{self, CtorKnobs, CtorPath, Getters};
use vzone::{Kind, Signing, ZoneSpec};

use crate::QTYPES;

/// The zones of the family: every node kind, a wildcard, an empty non-terminal chain, a cut with
/// occluded data, upper-case-free (case is another family's dimension).
pub fn zones() -> Vec<ZoneSpec> {
    vec![
        ZoneSpec::new("z.", &[]),
        ZoneSpec::new("z.", &[("a.z.", Kind::A), ("b.z.", Kind::Txt)]),
        ZoneSpec::new("z.", &[("a.z.", Kind::ATxt), ("*.z.", Kind::A)]),
        ZoneSpec::new("z.", &[("a.z.", Kind::Mx), ("b.z.", Kind::CnameA), ("*.a.z.", Kind::Txt)]),
        ZoneSpec::new("z.", &[("a.z.", Kind::Ns), ("a.a.z.", Kind::A), ("b.z.", Kind::A)]),
        ZoneSpec::new("z.", &[("a.z.", Kind::NsGlue), ("b.z.", Kind::CnameOut)]),
        ZoneSpec::new("z.", &[("a.z.", Kind::NsDs), ("b.z.", Kind::Ns), ("*.b.z.", Kind::A)]),
        ZoneSpec::new("z.", &[("a.a.a.z.", Kind::A), ("*.a.z.", Kind::A), ("b.a.a.z.", Kind::Txt)]),
    ]
}

/// Non-default, pairwise different NSEC3 parameters (salt abcd, 3 iterations, opt-out) next to NSEC and unsigned.
pub fn signings() -> Vec<Signing> {
    vec![Signing::Unsigned, Signing::Nsec, Signing::Nsec3 { iterations: 3, salt: vec![0xab, 0xcd], opt_out: true }]
}

pub fn knob_sets() -> [CtorKnobs; 3] {
    [CtorKnobs::NON_DEFAULT, CtorKnobs::DEFAULT, CtorKnobs::MIXED]
}

pub fn scratch(worker: &str) -> PathBuf {
    let base = if std::path::Path::new("/dev/shm").is_dir() { PathBuf::from("/dev/shm") } else { std::env::temp_dir() };
    base.join(format!("verif-c10-ctor-{}-{worker}", std::process::id()))
}

fn case(spec: &ZoneSpec, signing: &Signing, path: CtorPath, k: &CtorKnobs, extra: Value) -> Value {
    let mut j = json!({"level": "ctor", "zone": spec.to_json(), "signing": signing.tag(), "path": path.tag(), "knobs": k.to_json()});
    if let (Some(o), Some(e)) = (j.as_object_mut(), extra.as_object()) {
        for (a, b) in e {
            o.insert(a.clone(), b.clone());
        }
    }
    j
}

fn update_probe(origin: &str) -> Vec<u8> {
    let mut m = Message::new(0x5151, MessageType::Query, OpCode::Update);
    m.add_query(Query::new(vzone::hname(origin), RecordType::SOA));
    m.authorities.push(Record::from_rdata(vzone::hname(&format!("u.{origin}")), 60, RData::A(A::new(10, 0, 0, 9))));
    m.to_vec().unwrap_or_default()
}

fn axfr_probe(origin: &str) -> Vec<u8> {
    let mut m = Message::new(0x5152, MessageType::Query, OpCode::Query);
    m.add_query(Query::new(vzone::hname(origin), RecordType::AXFR));
    m.to_vec().unwrap_or_default()
}

fn tcp(rt: &tokio::runtime::Runtime, catalog: &hickory_server::zone_handler::Catalog, req: &[u8]) -> Result<Vec<String>, String> {
    let frames = rt.block_on(vsim::serve(catalog, req, Protocol::Tcp)).ok_or("request did not parse")?;
    let mut out = vec![];
    for f in frames {
        out.extend(ctor::normalized(&f)?);
    }
    // (the order of the records inside an AXFR answer is the store's iteration order on both sides; the
    // framing may differ with the signature sizes, so only the multiset of lines is compared)
    out.sort();
    Ok(out)
}

/// One (zone, signing, path, knob set).
pub fn run(spec: &ZoneSpec, signing: &Signing, path: CtorPath, k: &CtorKnobs, dir: &std::path::Path, rt: &tokio::runtime::Runtime, l: &mut Local) {
    let _ = std::fs::remove_dir_all(dir);
    if std::fs::create_dir_all(dir).is_err() {
        l.outcome("ctor:scratch-dir-unavailable");
        return;
    }
    let kind = match signing {
        Signing::Unsigned => "unsigned",
        Signing::Nsec => "nsec",
        Signing::Nsec3 { .. } => "nsec3",
    };
    let p = path.tag();
    let built = vcore::catch(|| ctor::build_via(path, spec, signing, k, dir, rt));
    let base = vzone::build_opts(spec, signing, &k.build_opts(path.is_sqlite()));
    let _ = std::fs::remove_dir_all(dir);
    let (via, getters): (vzone::Built, Getters) = match built {
        Ok(Ok(x)) => x,
        Ok(Err(e)) => {
            l.violation(&format!("ctor:{p}:build-failed:{kind}"), &format!("the zone the direct path builds is refused by this construction path: {e}"), || case(spec, signing, path, k, json!({})));
            return;
        }
        Err(pn) => {
            l.violation(&format!("panic:{}", vcore::short_loc(&pn.loc)), &pn.msg, || case(spec, signing, path, k, json!({})));
            return;
        }
    };
    let Ok(base) = base else {
        l.violation("zone-build-failed", "construction-path baseline", || case(spec, signing, path, k, json!({})));
        return;
    };
    l.outcome(&format!("ctor:built:{p}:{kind}"));

    // 1. what the handler says about itself
    let want = Getters::expected(spec, signing, k);
    for (field, got, exp) in [("origin", &getters.origin, &want.origin), ("zone_type", &getters.zone_type, &want.zone_type), ("axfr_policy", &getters.axfr_policy, &want.axfr_policy), ("nx_proof_kind", &getters.nx_proof_kind, &want.nx_proof_kind)] {
        l.eval();
        if got != exp {
            l.violation(&format!("ctor:{p}:getter:{field}"), &format!("{field} of the handler built through {p} is {got}, the caller asked for {exp}"), || case(spec, signing, path, k, json!({"field": field, "got": got, "expected": exp})));
        } else {
            l.outcome("ctor:getter:as-configured");
        }
    }

    // 2. the zone content (signing instants, validity periods and the SOA serial aside)
    {
        let mut a: Vec<String> = via.records.iter().map(ctor::normalized_record).collect();
        let mut b: Vec<String> = base.records.iter().map(ctor::normalized_record).collect();
        a.sort();
        b.sort();
        l.eval();
        if a != b {
            let only_via: Vec<&String> = a.iter().filter(|x| !b.contains(x)).take(6).collect();
            let only_base: Vec<&String> = b.iter().filter(|x| !a.contains(x)).take(6).collect();
            let what = if only_via.iter().chain(only_base.iter()).any(|s| s.contains(" NSEC3PARAM ")) {
                "nsec3param"
            } else if only_via.iter().chain(only_base.iter()).any(|s| s.contains(" NSEC3 ") || s.contains(" NSEC ")) {
                "denial-chain"
            } else if only_via.iter().chain(only_base.iter()).all(|s| s.contains(" RRSIG ")) {
                "rrsigs"
            } else {
                "data"
            };
            l.violation(&format!("ctor:{p}:zone-content-differs:{what}:{kind}"), &format!("the zone built through {p} holds other records than the directly built one; only there: {only_via:?}; only direct: {only_base:?}"), || case(spec, signing, path, k, json!({})));
        } else {
            l.outcome("ctor:zone-content:identical");
        }
    }

    // 3. DnssecSigner::new(key, signer_name, sig_duration) -> RRSIG fields; NSEC3PARAM = the configured parameters
    if signing.is_signed() {
        l.eval();
        let bad = ctor::rrsig_plumbing(&via.records, &vzone::hname(&spec.origin), ctor::SIG_DURATION);
        if let Some(first) = bad.first() {
            l.violation(&format!("ctor:{p}:rrsig-fields"), &format!("{first} ({} deviations)", bad.len()), || case(spec, signing, path, k, json!({})));
        } else {
            l.outcome("ctor:rrsig-fields:as-configured");
        }
    }
    if let Signing::Nsec3 { iterations, salt, opt_out } = signing {
        l.eval();
        let got = ctor::nsec3params(&via.records);
        let chain_ok = via.nsec3s().iter().all(|(_, n)| n.iterations() == *iterations && n.salt() == &salt[..] && n.opt_out() == *opt_out);
        if got.len() != 1 || got[0].0 != 1 || got[0].2 != *iterations || got[0].3 != *salt {
            l.violation(&format!("ctor:{p}:nsec3param:parameters"), &format!("published NSEC3PARAM {got:?}, configured (1, {iterations}, {salt:02x?})"), || case(spec, signing, path, k, json!({})));
        } else if !chain_ok || via.nsec3s().is_empty() {
            l.violation(&format!("ctor:{p}:nsec3-chain:parameters"), &format!("an NSEC3 record of the chain does not carry the configured parameters ({iterations}, {salt:02x?}, opt-out {opt_out})"), || case(spec, signing, path, k, json!({})));
        } else {
            l.outcome("ctor:nsec3-parameters:as-configured");
            // RFC 5155 4.1.2: the Opt-Out flag of an NSEC3PARAM is not used and is zero
            l.outcome(if got[0].1 { "obs:nsec3param:opt-out-flag-published" } else { "obs:nsec3param:flags-zero" });
        }
    }

    // 4. probes: every query name x type, then AXFR and an UPDATE over TCP
    let mut qnames = spec.query_names(2);
    if vzone::is_deep(spec) {
        qnames.extend(["a.a.a.z.", "b.a.a.z.", "c.a.a.z.", "a.a.a.a.z."].iter().map(|s| s.to_string()));
    }
    for qn in &qnames {
        for t in QTYPES {
            l.eval();
            let q = vzone::query_bytes(qn, t, signing.is_signed());
            let ra = vcore::catch(|| vzone::ask_raw(rt, &via.catalog, &q).and_then(|b| ctor::normalized(&b)));
            let rb = vcore::catch(|| vzone::ask_raw(rt, &base.catalog, &q).and_then(|b| ctor::normalized(&b)));
            match (&ra, &rb) {
                (Ok(Ok(x)), Ok(Ok(y))) if x == y => l.outcome("ctor:answer:identical"),
                (Ok(Ok(x)), Ok(Ok(y))) => {
                    let what = if x.first() != y.first() {
                        "header"
                    } else {
                        let d: Vec<&String> = x.iter().filter(|s| !y.contains(s)).chain(y.iter().filter(|s| !x.contains(s))).collect();
                        if d.iter().any(|s| s.starts_with("an ")) {
                            "answer"
                        } else if d.iter().any(|s| s.starts_with("ns ")) {
                            "authority"
                        } else {
                            "additional"
                        }
                    };
                    l.violation(&format!("ctor:{p}:answers-differ:{what}:{kind}"), &format!("{qn} {}: the zone built through {p} answers {x:?}, the directly built zone {y:?}", rz::type_name(t)), || case(spec, signing, path, k, json!({"qname": qn, "qtype": t})));
                }
                (Err(pn), _) | (_, Err(pn)) => l.violation(&format!("panic:{}", vcore::short_loc(&pn.loc)), &pn.msg, || case(spec, signing, path, k, json!({"qname": qn, "qtype": t}))),
                _ => l.violation(&format!("ctor:{p}:no-response:{kind}"), &format!("{qn} {}: one of the two zones gave no decodable response", rz::type_name(t)), || case(spec, signing, path, k, json!({"qname": qn, "qtype": t}))),
            }
        }
    }
    for (name, req) in [("axfr", axfr_probe(&spec.origin)), ("update", update_probe(&spec.origin))] {
        l.eval();
        let ra = vcore::catch(|| tcp(rt, &via.catalog, &req));
        let rb = vcore::catch(|| tcp(rt, &base.catalog, &req));
        match (&ra, &rb) {
            (Ok(Ok(x)), Ok(Ok(y))) if x == y => l.outcome(&format!("ctor:{name}:identical:{}", x.first().map(|s| s.split(' ').next().unwrap_or("")).unwrap_or("none"))),
            (Ok(x), Ok(y)) => {
                let head = |r: &Result<Vec<String>, String>| r.as_ref().map(|v| format!("{} lines, {:?}", v.len(), v.iter().find(|s| s.starts_with("rcode")))).unwrap_or_else(|e| e.clone());
                l.violation(&format!("ctor:{p}:{name}-differs:{kind}"), &format!("{name} over TCP: through {p}: {}; direct: {}", head(x), head(y)), || case(spec, signing, path, k, json!({"probe": name})));
            }
            (Err(pn), _) | (_, Err(pn)) => l.violation(&format!("panic:{}", vcore::short_loc(&pn.loc)), &pn.msg, || case(spec, signing, path, k, json!({"probe": name}))),
        }
    }
}

pub fn replay(c: &Value, rt: &tokio::runtime::Runtime, l: &mut Local) -> bool {
    let (Some(spec), Some(signing), Some(path), Some(k)) = (ZoneSpec::from_json(&c["zone"]), c["signing"].as_str().and_then(Signing::from_tag), c["path"].as_str().and_then(CtorPath::from_tag), CtorKnobs::from_json(&c["knobs"])) else {
        return false;
    };
    run(&spec, &signing, path, &k, &scratch("replay"), rt, l);
    true
}
