//! Part H: the SECOND step. State carried from one request to the next - a cached verdict, a
//! remembered MAC or time, a flag left behind by a failure - would show only when another request
//! follows each KIND of first request on the SAME handler. For every first request (one per way
//! of being refused or accepted) and every honest second request: the second exchange must be
//! octet for octet the one a FRESH handler in the same zone state gives (reply bytes and resulting
//! zone), an accepted UPDATE must leave what RFC 2136 prescribes for the zone as the first
//! request left it (`vref::update`), and a signed AXFR must list exactly that zone (new content,
//! new serial). Replays: the same signed octets again (RFC 8945 does not forbid it: the effect is
//! RFC 2136 applied twice), again after the window closed, and the first request's TSIG record
//! re-attached to another body (must not take effect).

use super::*;

struct Req {
    name: String,
    bytes: Vec<u8>,
    now: u64,
}

fn signed(msg: &Msg, id: u16, time: u64) -> Vec<u8> {
    let signer = vupd::signer(k1_name(), &key1(), alg_h(Alg::Sha256), 300);
    let mut m = vupd::update_message(id, msg);
    m.finalize(&signer, time).expect("client-side signing");
    m.to_vec().expect("encode")
}

fn firsts() -> Vec<Req> {
    let h = honest(Kind::UpdAdd, Alg::Sha256, 300, T0);
    let s = rt::split(&h).expect("honest splits");
    let unsigned = rt::strip(&h, &s);
    let mut v = vec![];
    v.push(Req { name: "unsigned(refused)".into(), bytes: unsigned.clone(), now: T0 });
    let mut t = s.tsig.clone();
    let n = t.mac.len();
    t.mac[n - 1] ^= 1;
    v.push(Req { name: "bad-mac(notauth/badsig)".into(), bytes: rt::attach(&unsigned, &t), now: T0 });
    let mut t = s.tsig.clone();
    t.name = rt::labels_of("kx.");
    v.push(Req { name: "unknown-key(notauth/badkey)".into(), bytes: rt::attach(&unsigned, &t), now: T0 });
    v.push(Req { name: "stale(notauth/badtime)".into(), bytes: honest(Kind::UpdAdd, Alg::Sha256, 300, T0 - 10_000), now: T0 });
    v.push(Req { name: "valid-tsig:prescan-formerr".into(), bytes: signed(&Msg { prereqs: vec![], updates: vec![empty("a.z.", ru::T_A, ru::CLASS_ANY, 60)] }, 0x2222, T0), now: T0 });
    v.push(Req { name: "valid-tsig:prerequisite-fails".into(), bytes: signed(&Msg { prereqs: vec![empty("b.z.", ru::T_ANY, ru::CLASS_ANY, 0)], updates: vec![a("b.z.", 60, 3)] }, 0x2223, T0), now: T0 });
    v.push(Req { name: "cut-short(no-request)".into(), bytes: h[..h.len() - 5].to_vec(), now: T0 });
    v.push(Req { name: "accepted:another-update".into(), bytes: signed(&Msg { prereqs: vec![], updates: vec![txt("a.a.z.", 60, "t")] }, 0x2224, T0), now: T0 });
    v.push(Req { name: "accepted:axfr".into(), bytes: honest(Kind::Axfr, Alg::Sha256, 300, T0), now: T0 });
    v.push(Req { name: "signed-notify".into(), bytes: honest(Kind::Notify, Alg::Sha256, 300, T0), now: T0 });
    v.push(Req { name: "signed-soa-query".into(), bytes: honest(Kind::QuerySoa, Alg::Sha256, 300, T0), now: T0 });
    v
}

fn fresh(w: &Worker, zone: &[vupd::Rr]) -> Env {
    w.rt.block_on(Env::new(
        zone,
        EnvOpts { signers: server_signers(0, Alg::Sha256), axfr: AxfrPolicy::AllowSigned, allow_update: true, journal: var().journal, ..EnvOpts::default() },
    ))
}

fn send(w: &Worker, env: &Env, r: &Req) -> Result<Option<Vec<Vec<u8>>>, (String, String)> {
    vsim::set_unix(r.now);
    let proto = if var().udp { Protocol::Udp } else { Protocol::Tcp };
    catch(|| w.rt.block_on(vsim::serve(&env.catalog, &r.bytes, proto))).map_err(|p| (p.msg, p.loc))
}

fn axfr_lists(replies: &Option<Vec<Vec<u8>>>) -> Option<Vec<vupd::Rr>> {
    let mut got = vec![];
    for r in replies.as_ref()? {
        got.extend(vupd::parse_reply(r)?.answers);
    }
    if got.len() >= 2 && got[0].rtype == ru::T_SOA && got[got.len() - 1] == got[0] {
        got.pop();
    }
    got.sort();
    Some(got)
}

/// first -> second on one handler, judged against a fresh handler in the state the first left.
fn sequence(w: &Worker, first: &Req, second: &Req, second_kind: Option<Kind>, l: &mut Local) {
    sequence3(w, None, first, second, second_kind, l)
}

/// As `sequence`, with an honest request `prelude` sent before `first` (three steps: what the
/// first request of a kind left behind must not show when the same kind comes again after the
/// zone changed).
fn sequence3(w: &Worker, prelude: Option<&Req>, first: &Req, second: &Req, second_kind: Option<Kind>, l: &mut Local) {
    l.eval();
    let case = || json!({"second_step": true, "variant": var().to_json(), "prelude": prelude.map(|p| p.name.clone()), "prelude_hex": prelude.map(|p| hex::enc(&p.bytes)), "first": first.name, "first_hex": hex::enc(&first.bytes), "first_now": first.now, "second": second.name, "second_hex": hex::enc(&second.bytes), "second_now": second.now});
    let env = fresh(w, &base_zone());
    if let Some(p) = prelude {
        let _ = send(w, &env, p);
    }
    let s0 = w.rt.block_on(env.snapshot());
    let keys = ref_keys(0, Alg::Sha256);
    if let Err((msg, loc)) = send(w, &env, first) {
        l.violation(&panic_key("server", &msg, &loc), &format!("the server panicked on the first request ({}): {msg}", first.name), case);
        return;
    }
    let s1 = w.rt.block_on(env.snapshot());
    if s1 != s0 && rt::verify_request(&first.bytes, &keys, first.now).is_err() {
        l.violation("update-took-effect-without-valid-tsig:second-step-family", &format!("the first request ({}) changed the zone although the reference verifier rejects it", first.name), case);
        return;
    }
    if !s1.empty_keys.is_empty() {
        // the control handler cannot be put into a state with empty RRset keys
        l.outcome("second-step:first-left-an-empty-rrset-key(skipped)");
        return;
    }
    let r2 = match send(w, &env, second) {
        Ok(r) => r,
        Err((msg, loc)) => {
            l.violation(&panic_key("server", &msg, &loc), &format!("the server panicked on the second request ({} after {}): {msg}", second.name, first.name), case);
            return;
        }
    };
    let s2 = w.rt.block_on(env.snapshot());
    // control: the second request alone on a fresh handler whose zone is what the first left
    let ctl = fresh(w, &s1.rrs);
    let rc = send(w, &ctl, second).ok().flatten();
    let sc = w.rt.block_on(ctl.snapshot());
    if r2 != rc || s2 != sc {
        l.violation(
            &format!("second-step[after:{}{}]:{}:differs-from-a-fresh-handler-in-the-same-state", prelude.map(|p| format!("{},then:", p.name)).unwrap_or_default(), first.name, second.name),
            &format!(
                "after the first request the second one is answered / applied differently than on a fresh handler holding the same zone: replies equal = {}, zone {:?} vs {:?}",
                r2 == rc,
                s2.text(),
                sc.text()
            ),
            case,
        );
        return;
    }
    l.outcome("second-step:same-as-fresh-handler");
    let v2 = rt::verify_request(&second.bytes, &keys, second.now);
    if v2.is_err() {
        if s2 != s1 {
            l.violation(&format!("second-step[after:{}]:{}:took-effect-without-valid-tsig", first.name, second.name), &format!("the second request changed the zone although the reference verifier rejects it: {v2:?}"), case);
        } else {
            l.outcome("second-step:second-rejected:no-effect");
        }
        return;
    }
    match second_kind {
        Some(k) if k.is_update() => {
            let Ok(u) = ru::parse_update(&second.bytes) else { return };
            let verdict = ru::process(&s1.zone(), &u);
            let ok = if verdict.accepted() { verdict.zones.iter().any(|z| z.zone.content() == s2.content()) } else { s2 == s1 };
            if !ok && s2 != s1 {
                l.violation(
                    &format!("second-step[after:{}]:{}:zone-is-not-rfc2136-applied-to-the-state-the-first-left", first.name, second.name),
                    &format!("zone after the second request {:?}; the first left {:?}; RFC 2136 gives rcodes {:?}", s2.text(), s1.text(), verdict.rcodes),
                    case,
                );
            } else if s2 != s1 {
                l.outcome("second-step:update-applied-on-top-of-the-first");
                l.nontrivial(vcore::fnv64(&second.bytes) ^ vcore::fnv64(&first.bytes).rotate_left(17));
            } else {
                l.outcome("second-step:update-left-the-zone-as-the-first-left-it");
            }
        }
        Some(Kind::Axfr) => {
            let mut want = s1.rrs.clone();
            want.sort();
            match axfr_lists(&r2) {
                Some(got) if got == want => {
                    l.outcome("second-step:axfr-lists-the-zone-the-first-left");
                    l.nontrivial(vcore::fnv64(&second.bytes) ^ vcore::fnv64(&first.bytes).rotate_left(17));
                }
                got => l.violation(
                    &format!("second-step[after:{}]:axfr-does-not-list-the-current-zone", first.name),
                    &format!("signed AXFR after the first request lists {:?}, the zone is {:?}", got.map(|g| g.iter().map(vupd::rr_text).collect::<Vec<_>>()), s1.text()),
                    case,
                ),
            }
        }
        _ => {}
    }
}

pub fn run(w: &mut Worker, l: &mut Local) {
    let seconds: Vec<(Kind, Req)> = [Kind::UpdAdd, Kind::UpdDelName, Kind::UpdPrereq, Kind::Axfr].into_iter().map(|k| (k, Req { name: k.name().into(), bytes: honest(k, Alg::Sha256, 300, T0), now: T0 })).collect();
    for f in firsts() {
        for (k, s) in &seconds {
            sequence(w, &f, s, Some(*k), l);
        }
    }
    for (k, s) in &seconds {
        // the same signed octets twice (in window), and once more after the window closed
        let f = Req { name: "the-same-octets(replay)".into(), bytes: s.bytes.clone(), now: T0 };
        sequence(w, &f, s, Some(*k), l);
        let late = Req { name: format!("{}:replayed-after-the-window", s.name), bytes: s.bytes.clone(), now: T0 + 301 };
        sequence(w, s, &late, Some(*k), l);
        // every honest kind after every other honest kind
        for (_, s2) in &seconds {
            let f = Req { name: format!("accepted:{}", s2.name), bytes: s2.bytes.clone(), now: T0 };
            sequence(w, &f, s, Some(*k), l);
        }
    }
    // three steps: every honest kind, then every honest kind, then every honest kind again
    for (_, p) in &seconds {
        for (_, f) in &seconds {
            for (k, s) in &seconds {
                let pre = Req { name: format!("accepted:{}", p.name), bytes: p.bytes.clone(), now: T0 };
                let f = Req { name: format!("accepted:{}", f.name), bytes: f.bytes.clone(), now: T0 };
                sequence3(w, Some(&pre), &f, s, Some(*k), l);
            }
        }
    }
    // the first request's TSIG record on another body
    for k in [Kind::UpdAdd, Kind::UpdDelName] {
        let h = honest(k, Alg::Sha256, 300, T0);
        let st = rt::split(&h).expect("splits");
        let other = vupd::update_message(0x1234, &Msg { prereqs: vec![], updates: vec![a("c.z.", 60, 9)] }).to_vec().expect("encode");
        let forged = rt::attach(&other, &st.tsig);
        let f = Req { name: format!("accepted:{}", k.name()), bytes: h, now: T0 };
        let s = Req { name: "tsig-of-the-first-request-on-another-body".into(), bytes: forged, now: T0 };
        sequence(w, &f, &s, Some(Kind::UpdAdd), l);
    }
}

/// (B) two-step adversary closure: a requester who knows the key NAME but not the secret sends an
/// unauthenticated first request and assembles the second one from the octets of the reply by a
/// small grammar - the reply's TSIG record verbatim on another body; the reply's MAC / time / fudge
/// (/ error / other data) in a fresh TSIG with original-id games; and the exact digest-collision
/// layout (the reply embedded as RDATA of a filler record, original id = length of the first
/// request's MAC field). He never had the key: NO second request may take effect, whatever a
/// verifier says about its digest.
pub fn closure(w: &mut Worker, l: &mut Local) {
    let k1n = rt::labels_of(k1_name());
    let alg = Alg::Sha256;
    // the target: an update the adversary wants applied, and a signed-only transfer
    let target_msg = Msg { prereqs: vec![], updates: vec![a("c.z.", 60, 9)] };
    let target = vupd::raw::encode_update(0x4242, &target_msg, &vupd::raw::Layout::PLAIN);
    let axfr_body = vupd::query_bytes(0x4242, "z.", RecordType::AXFR);
    // the crafted first request of the collision layout: its MAC FIELD is the middle of request 2
    let refusal_len = 12 + 3 + 4; // header + question z. SOA IN
    let mut filler_fixed = vec![0u8]; // owner: root
    filler_fixed.extend_from_slice(&10u16.to_be_bytes()); // TYPE NULL
    filler_fixed.extend_from_slice(&1u16.to_be_bytes());
    filler_fixed.extend_from_slice(&0u32.to_be_bytes());
    filler_fixed.extend_from_slice(&(refusal_len as u16).to_be_bytes());
    let mut p = target[2..].to_vec();
    p[8..10].copy_from_slice(&1u16.to_be_bytes()); // ARCOUNT - 1 = the filler only
    p.extend_from_slice(&filler_fixed);
    let first_body = vupd::raw::encode_update(0x1111, &Msg::default(), &vupd::raw::Layout::PLAIN);
    let tsig_with = |mac: Vec<u8>, time: u64, orig_id: u16| rt::TsigRr { name: k1n.clone(), class: 255, ttl: 0, alg_name: alg.labels(), time, fudge: 300, mac, orig_id, error: 0, other: vec![] };
    let h = honest(Kind::UpdAdd, alg, 300, T0);
    let hs = rt::split(&h).expect("splits");
    let hun = rt::strip(&h, &hs);
    let mut flipped = hs.tsig.clone();
    flipped.mac[0] ^= 0x80;
    let mut firsts: Vec<(String, Vec<u8>)> = vec![
        ("bad-mac:fresh".into(), rt::attach(&hun, &flipped)),
        ("bad-mac:stale".into(), rt::attach(&hun, &rt::TsigRr { time: T0 - 10_000, ..flipped.clone() })),
        ("bad-mac:time-signed=1".into(), rt::attach(&hun, &rt::TsigRr { time: 1, ..flipped.clone() })),
        ("unknown-key".into(), rt::attach(&hun, &rt::TsigRr { name: rt::labels_of("kx."), ..hs.tsig.clone() })),
        ("unsigned".into(), hun.clone()),
        ("mac-field=chosen-octets:time-signed=1".into(), rt::attach(&first_body, &tsig_with(p.clone(), 1, 0x1111))),
        ("mac-field=chosen-octets:fresh".into(), rt::attach(&first_body, &tsig_with(p.clone(), T0, 0x1111))),
    ];
    firsts.push(("axfr:bad-mac:stale".into(), {
        let ha = honest(Kind::Axfr, alg, 300, T0 - 10_000);
        let s = rt::split(&ha).expect("splits");
        let mut t = s.tsig.clone();
        t.mac[0] ^= 0x80;
        rt::attach(&rt::strip(&ha, &s), &t)
    }));
    for (fname, fbytes) in &firsts {
        let env = fresh(w, &base_zone());
        let s0 = w.rt.block_on(env.snapshot());
        let first = Req { name: fname.clone(), bytes: fbytes.clone(), now: T0 };
        let Ok(r1) = send(w, &env, &first) else { continue };
        let reply = r1.as_ref().and_then(|v| v.first().cloned()).unwrap_or_default();
        if w.rt.block_on(env.snapshot()) != s0 {
            // the first request itself took effect: Part A's business
            continue;
        }
        let rs = rt::split(&reply).ok();
        let first_mac_len = rt::split(fbytes).map(|s| s.tsig.mac.len()).unwrap_or(0) as u16;
        let mut seconds: Vec<(String, Vec<u8>)> = vec![];
        if let Some(rs) = &rs {
            let rt_ = &rs.tsig;
            for (bname, body) in [("update", &target), ("axfr", &axfr_body)] {
                seconds.push((format!("{bname}+reply-tsig-verbatim"), rt::attach(body, rt_)));
                for (oname, oid) in [("body-id", 0x4242u16), ("0", 0), ("first-mac-length", first_mac_len), ("reply-original-id", rt_.orig_id)] {
                    seconds.push((format!("{bname}+reply-mac-time-fudge:original-id={oname}"), rt::attach(body, &rt::TsigRr { name: k1n.clone(), class: 255, ttl: 0, alg_name: alg.labels(), time: rt_.time, fudge: rt_.fudge, mac: rt_.mac.clone(), orig_id: oid, error: 0, other: vec![] })));
                    seconds.push((format!("{bname}+reply-mac-time-fudge-error-other:original-id={oname}"), rt::attach(body, &rt::TsigRr { name: k1n.clone(), class: 255, ttl: 0, alg_name: alg.labels(), time: rt_.time, fudge: rt_.fudge, mac: rt_.mac.clone(), orig_id: oid, error: rt_.error, other: rt_.other.clone() })));
                }
            }
            // the digest-collision layout: id | first request's MAC field | reply without TSIG | TSIG copied
            let reply_unsigned = rt::strip(&reply, rs);
            if let Ok(fs) = rt::split(fbytes) {
                let mut b = 0x4242u16.to_be_bytes().to_vec();
                let mut mid = fs.tsig.mac.clone();
                if mid.len() >= 10 {
                    // ARCOUNT on the wire counts the TSIG too
                    let ar = u16::from_be_bytes([mid[8], mid[9]]).wrapping_add(1);
                    mid[8..10].copy_from_slice(&ar.to_be_bytes());
                }
                b.extend_from_slice(&mid);
                b.extend_from_slice(&reply_unsigned);
                b.extend_from_slice(&rt::TsigRr { name: k1n.clone(), class: 255, ttl: 0, alg_name: alg.labels(), time: rt_.time, fudge: rt_.fudge, mac: rt_.mac.clone(), orig_id: first_mac_len, error: rt_.error, other: rt_.other.clone() }.encode());
                seconds.push(("digest-collision-layout(reply-embedded-as-filler-rdata)".into(), b));
            }
        }
        // without any reply octets: the first request's own TSIG on the target
        if let Ok(fs) = rt::split(fbytes) {
            seconds.push(("update+first-request-tsig-verbatim".into(), rt::attach(&target, &fs.tsig)));
        }
        for (sname, sbytes) in &seconds {
            l.eval();
            let env = fresh(w, &base_zone());
            let _ = send(w, &env, &first);
            let second = Req { name: sname.clone(), bytes: sbytes.clone(), now: T0 };
            let case = || json!({"two_step_closure": true, "variant": var().to_json(), "first": fname, "first_hex": hex::enc(fbytes), "first_now": T0, "reply_hex": hex::enc(&reply), "second": sname, "second_hex": hex::enc(sbytes), "second_now": T0});
            match send(w, &env, &second) {
                Err((msg, loc)) => l.violation(&panic_key("server", &msg, &loc), &format!("the server panicked on a request assembled from its own reply: {msg}"), case),
                Ok(r2) => {
                    let s2 = w.rt.block_on(env.snapshot());
                    let answers: usize = r2.iter().flatten().map(|r| wire::read_header(r).map(|h| h.an as usize).unwrap_or(0)).sum();
                    let is_axfr = sname.starts_with("axfr");
                    if s2 != s0 || (is_axfr && answers > 0) {
                        l.violation(
                            &format!("two-step-forgery[first:{fname}]:{sname}:took-effect"),
                            &format!("a requester without the key got the server to {} with a second request assembled from the reply to an unauthenticated first request; reference verifier on the second request: {:?}", if is_axfr { "transfer the zone" } else { "apply an update" }, rt::verify_request(sbytes, &ref_keys(0, alg), T0)),
                            case,
                        );
                    } else {
                        l.outcome("two-step-closure:no-effect");
                    }
                }
            }
        }
    }
}

/// Replay of one recorded sequence.
pub fn replay(w: &mut Worker, case: &Value, l: &mut Local) {
    set_var(Var::from_json(&case["variant"]));
    if case["two_step_closure"].as_bool() == Some(true) {
        closure(w, l);
        return;
    }
    let req = |p: &str| Req { name: case[p].as_str().unwrap_or("").to_string(), bytes: hex::dec(case[&format!("{p}_hex")].as_str().unwrap_or("")).unwrap_or_default(), now: case[&format!("{p}_now")].as_u64().unwrap_or(T0) };
    let (f, s) = (req("first"), req("second"));
    let kind = wire::walk(&s.bytes).ok().map(|w| if w.header.opcode() == 5 { Kind::UpdAdd } else { Kind::Axfr });
    let pre = case["prelude_hex"].as_str().map(|h| Req { name: case["prelude"].as_str().unwrap_or("").to_string(), bytes: hex::dec(h).unwrap_or_default(), now: T0 });
    sequence3(w, pre.as_ref(), &f, &s, kind, l);
}
